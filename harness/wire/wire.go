// Package wire is an independent, strict reference codec for the subset of BGP-4 that the
// checks need (RFC 4271, 4760, 7911, 6793, 4456, 1997, 8092, 9234). It shares no code with
// bio-rd's protocols/bgp/packet: it is the oracle the real encoder/decoder are compared with.
package wire

import (
	"encoding/binary"
	"fmt"
	"sort"
)

const (
	TypeOpen         = 1
	TypeUpdate       = 2
	TypeNotification = 3
	TypeKeepalive    = 4

	AttrOrigin        = 1
	AttrASPath        = 2
	AttrNextHop       = 3
	AttrMED           = 4
	AttrLocalPref     = 5
	AttrAtomicAggr    = 6
	AttrAggregator    = 7
	AttrCommunities   = 8
	AttrOriginatorID  = 9
	AttrClusterList   = 10
	AttrMPReach       = 14
	AttrMPUnreach     = 15
	AttrLargeComm     = 32
	AttrOTC           = 35
	flagOptional      = 0x80
	flagTransitive    = 0x40
	flagPartial       = 0x20
	flagExtendedLen   = 0x10
	MaxMessageLen     = 4096
	HeaderLen         = 19
	AFIIPv4           = 1
	AFIIPv6           = 2
	SAFIUnicast       = 1
	ASSet, ASSequence = 1, 2
)

// Options are the session options that change the encoding.
type Options struct {
	AddPathIPv4 bool
	AddPathIPv6 bool
	ASN4        bool
}

// NLRI is one prefix on the wire.
type NLRI struct {
	AFI    int    `json:"afi"`
	PathID uint32 `json:"pid"`
	Len    int    `json:"len"`
	Addr   []byte `json:"addr"` // exactly ceil(Len/8) bytes
}

// Key identifies the prefix (family, length, address bits).
func (n NLRI) Key() string { return fmt.Sprintf("%d/%x/%d", n.AFI, n.Addr, n.Len) }

// Segment is an AS_PATH segment.
type Segment struct {
	Type int      `json:"type"`
	ASNs []uint32 `json:"asns"`
}

// Raw is an attribute the codec does not interpret.
type Raw struct {
	Flags byte   `json:"flags"`
	Type  int    `json:"type"`
	Value []byte `json:"value"`
}

// Attrs are the decoded path attributes of an UPDATE.
type Attrs struct {
	Present      map[int]bool `json:"-"`
	Origin       int          `json:"origin"`
	ASPath       []Segment    `json:"aspath"`
	NextHop      []byte       `json:"nexthop"` // IPv4 NEXT_HOP or MP_REACH next hop
	MED          uint32       `json:"med"`
	LocalPref    uint32       `json:"localpref"`
	Communities  []uint32     `json:"communities"`
	LargeComm    [][3]uint32  `json:"largecomm"`
	OriginatorID uint32       `json:"originator"`
	ClusterList  []uint32     `json:"clusterlist"`
	OTC          uint32       `json:"otc"`
	Unknown      []Raw        `json:"unknown"`
	Order        []int        `json:"order"` // type codes in wire order
}

// Update is a decoded UPDATE message.
type Update struct {
	Len       int    `json:"len"`
	Withdrawn []NLRI `json:"withdrawn"`
	Announced []NLRI `json:"announced"`
	Attrs     Attrs  `json:"attrs"`
	AttrBytes int    `json:"attrBytes"` // Total Path Attribute Length
}

// Message is any decoded BGP message.
type Message struct {
	Type   int
	Len    int
	Update *Update
	// NOTIFICATION
	Code, Subcode int
	Data          []byte
	// OPEN
	Open *Open
}

// Open is a decoded OPEN message.
type Open struct {
	Version  int
	AS       int
	HoldTime int
	ID       uint32
	Caps     []Cap
}

// Cap is a capability (code, value).
type Cap struct {
	Code  int
	Value []byte
}

// SplitStream splits a byte stream into messages (strict framing); rest = trailing incomplete bytes.
func SplitStream(b []byte) (msgs [][]byte, rest []byte, err error) {
	for len(b) > 0 {
		if len(b) < HeaderLen {
			return msgs, b, nil
		}
		for i := 0; i < 16; i++ {
			if b[i] != 0xff {
				return msgs, b, fmt.Errorf("bad marker at message %d", len(msgs))
			}
		}
		l := int(binary.BigEndian.Uint16(b[16:18]))
		if l < HeaderLen || l > MaxMessageLen {
			return msgs, b, fmt.Errorf("bad length %d at message %d", l, len(msgs))
		}
		if len(b) < l {
			return msgs, b, nil
		}
		msgs = append(msgs, b[:l])
		b = b[l:]
	}
	return msgs, nil, nil
}

// Decode strictly decodes one complete message.
func Decode(b []byte, opt Options) (*Message, error) {
	if len(b) < HeaderLen {
		return nil, fmt.Errorf("short message")
	}
	l := int(binary.BigEndian.Uint16(b[16:18]))
	if l != len(b) {
		return nil, fmt.Errorf("length field %d != %d bytes", l, len(b))
	}
	if l > MaxMessageLen {
		return nil, fmt.Errorf("message of %d bytes exceeds 4096", l)
	}
	m := &Message{Type: int(b[18]), Len: l}
	body := b[HeaderLen:]
	switch m.Type {
	case TypeKeepalive:
		if len(body) != 0 {
			return nil, fmt.Errorf("KEEPALIVE with body")
		}
	case TypeNotification:
		if len(body) < 2 {
			return nil, fmt.Errorf("short NOTIFICATION")
		}
		m.Code, m.Subcode, m.Data = int(body[0]), int(body[1]), body[2:]
	case TypeOpen:
		o, err := decodeOpen(body)
		if err != nil {
			return nil, err
		}
		m.Open = o
	case TypeUpdate:
		u, err := decodeUpdate(body, opt)
		if err != nil {
			return nil, err
		}
		u.Len = l
		m.Update = u
	default:
		return nil, fmt.Errorf("unknown type %d", m.Type)
	}
	return m, nil
}

func decodeOpen(b []byte) (*Open, error) {
	if len(b) < 10 {
		return nil, fmt.Errorf("short OPEN")
	}
	o := &Open{Version: int(b[0]), AS: int(binary.BigEndian.Uint16(b[1:3])), HoldTime: int(binary.BigEndian.Uint16(b[3:5])),
		ID: binary.BigEndian.Uint32(b[5:9])}
	pl := int(b[9])
	p := b[10:]
	if pl != len(p) {
		return nil, fmt.Errorf("OPEN optional parameter length %d != %d", pl, len(p))
	}
	for len(p) > 0 {
		if len(p) < 2 || len(p) < 2+int(p[1]) {
			return nil, fmt.Errorf("truncated optional parameter")
		}
		t, v := p[0], p[2:2+int(p[1])]
		p = p[2+int(p[1]):]
		if t != 2 {
			continue
		}
		for len(v) > 0 {
			if len(v) < 2 || len(v) < 2+int(v[1]) {
				return nil, fmt.Errorf("truncated capability")
			}
			o.Caps = append(o.Caps, Cap{Code: int(v[0]), Value: v[2 : 2+int(v[1])]})
			v = v[2+int(v[1]):]
		}
	}
	return o, nil
}

func decodeNLRIs(b []byte, afi int, addPath bool) ([]NLRI, error) {
	out := []NLRI{}
	max := 32
	if afi == AFIIPv6 {
		max = 128
	}
	for len(b) > 0 {
		n := NLRI{AFI: afi}
		if addPath {
			if len(b) < 4 {
				return nil, fmt.Errorf("truncated path identifier")
			}
			n.PathID = binary.BigEndian.Uint32(b[:4])
			b = b[4:]
		}
		if len(b) < 1 {
			return nil, fmt.Errorf("truncated NLRI")
		}
		n.Len = int(b[0])
		if n.Len > max {
			return nil, fmt.Errorf("prefix length %d beyond %d", n.Len, max)
		}
		nb := (n.Len + 7) / 8
		if len(b) < 1+nb {
			return nil, fmt.Errorf("truncated NLRI address")
		}
		n.Addr = append([]byte{}, b[1:1+nb]...)
		b = b[1+nb:]
		out = append(out, n)
	}
	return out, nil
}

func decodeUpdate(b []byte, opt Options) (*Update, error) {
	u := &Update{Attrs: Attrs{Present: map[int]bool{}}}
	if len(b) < 4 {
		return nil, fmt.Errorf("short UPDATE")
	}
	wl := int(binary.BigEndian.Uint16(b[:2]))
	if len(b) < 2+wl+2 {
		return nil, fmt.Errorf("withdrawn routes length %d beyond message", wl)
	}
	var err error
	if u.Withdrawn, err = decodeNLRIs(b[2:2+wl], AFIIPv4, opt.AddPathIPv4); err != nil {
		return nil, fmt.Errorf("withdrawn: %w", err)
	}
	b = b[2+wl:]
	al := int(binary.BigEndian.Uint16(b[:2]))
	if len(b) < 2+al {
		return nil, fmt.Errorf("total path attribute length %d beyond message", al)
	}
	u.AttrBytes = al
	if err = decodeAttrs(b[2:2+al], opt, u); err != nil {
		return nil, err
	}
	nl, err := decodeNLRIs(b[2+al:], AFIIPv4, opt.AddPathIPv4)
	if err != nil {
		return nil, fmt.Errorf("nlri: %w", err)
	}
	u.Announced = append(u.Announced, nl...)
	return u, nil
}

func decodeAttrs(b []byte, opt Options, u *Update) error {
	a := &u.Attrs
	for len(b) > 0 {
		if len(b) < 3 {
			return fmt.Errorf("truncated attribute header")
		}
		flags, typ := b[0], int(b[1])
		var l, h int
		if flags&flagExtendedLen != 0 {
			if len(b) < 4 {
				return fmt.Errorf("truncated extended length")
			}
			l, h = int(binary.BigEndian.Uint16(b[2:4])), 4
		} else {
			l, h = int(b[2]), 3
		}
		if len(b) < h+l {
			return fmt.Errorf("attribute %d: length %d beyond attribute section", typ, l)
		}
		v := b[h : h+l]
		b = b[h+l:]
		if a.Present[typ] {
			return fmt.Errorf("attribute %d appears twice", typ)
		}
		a.Present[typ] = true
		a.Order = append(a.Order, typ)
		fixed := func(n int) error {
			if l != n {
				return fmt.Errorf("attribute %d: length %d, must be %d", typ, l, n)
			}
			return nil
		}
		wellKnown := func() error {
			if flags&flagOptional != 0 || flags&flagTransitive == 0 {
				return fmt.Errorf("attribute %d: well-known attribute with flags %#x", typ, flags)
			}
			return nil
		}
		switch typ {
		case AttrOrigin:
			if err := fixed(1); err != nil {
				return err
			}
			if err := wellKnown(); err != nil {
				return err
			}
			a.Origin = int(v[0])
		case AttrASPath:
			if err := wellKnown(); err != nil {
				return err
			}
			sz := 2
			if opt.ASN4 {
				sz = 4
			}
			for len(v) > 0 {
				if len(v) < 2 {
					return fmt.Errorf("truncated AS_PATH segment")
				}
				st, cnt := int(v[0]), int(v[1])
				if st != ASSet && st != ASSequence {
					return fmt.Errorf("AS_PATH segment type %d", st)
				}
				if cnt == 0 || len(v) < 2+cnt*sz {
					return fmt.Errorf("AS_PATH segment of %d ASNs does not fit", cnt)
				}
				seg := Segment{Type: st}
				for i := 0; i < cnt; i++ {
					if sz == 4 {
						seg.ASNs = append(seg.ASNs, binary.BigEndian.Uint32(v[2+4*i:]))
					} else {
						seg.ASNs = append(seg.ASNs, uint32(binary.BigEndian.Uint16(v[2+2*i:])))
					}
				}
				a.ASPath = append(a.ASPath, seg)
				v = v[2+cnt*sz:]
			}
		case AttrNextHop:
			if err := fixed(4); err != nil {
				return err
			}
			a.NextHop = append([]byte{}, v...)
		case AttrMED:
			if err := fixed(4); err != nil {
				return err
			}
			a.MED = binary.BigEndian.Uint32(v)
		case AttrLocalPref:
			if err := fixed(4); err != nil {
				return err
			}
			a.LocalPref = binary.BigEndian.Uint32(v)
		case AttrAtomicAggr:
			if err := fixed(0); err != nil {
				return err
			}
		case AttrCommunities:
			if l%4 != 0 {
				return fmt.Errorf("COMMUNITIES length %d", l)
			}
			for i := 0; i < l; i += 4 {
				a.Communities = append(a.Communities, binary.BigEndian.Uint32(v[i:]))
			}
		case AttrLargeComm:
			if l%12 != 0 {
				return fmt.Errorf("LARGE_COMMUNITIES length %d", l)
			}
			for i := 0; i < l; i += 12 {
				a.LargeComm = append(a.LargeComm, [3]uint32{binary.BigEndian.Uint32(v[i:]), binary.BigEndian.Uint32(v[i+4:]), binary.BigEndian.Uint32(v[i+8:])})
			}
		case AttrOriginatorID:
			if err := fixed(4); err != nil {
				return err
			}
			a.OriginatorID = binary.BigEndian.Uint32(v)
		case AttrClusterList:
			if l%4 != 0 || l == 0 {
				return fmt.Errorf("CLUSTER_LIST length %d", l)
			}
			for i := 0; i < l; i += 4 {
				a.ClusterList = append(a.ClusterList, binary.BigEndian.Uint32(v[i:]))
			}
		case AttrOTC:
			if err := fixed(4); err != nil {
				return err
			}
			a.OTC = binary.BigEndian.Uint32(v)
		case AttrMPReach:
			if l < 5 {
				return fmt.Errorf("short MP_REACH_NLRI")
			}
			afi, safi, nhl := int(binary.BigEndian.Uint16(v[:2])), int(v[2]), int(v[3])
			if safi != SAFIUnicast || (afi != AFIIPv4 && afi != AFIIPv6) {
				return fmt.Errorf("MP_REACH_NLRI afi/safi %d/%d", afi, safi)
			}
			if len(v) < 4+nhl+1 {
				return fmt.Errorf("MP_REACH_NLRI next hop length %d beyond attribute", nhl)
			}
			a.NextHop = append([]byte{}, v[4:4+nhl]...)
			ap := opt.AddPathIPv4
			if afi == AFIIPv6 {
				ap = opt.AddPathIPv6
			}
			nl, err := decodeNLRIs(v[4+nhl+1:], afi, ap)
			if err != nil {
				return fmt.Errorf("MP_REACH_NLRI: %w", err)
			}
			u.Announced = append(u.Announced, nl...)
		case AttrMPUnreach:
			if l < 3 {
				return fmt.Errorf("short MP_UNREACH_NLRI")
			}
			afi, safi := int(binary.BigEndian.Uint16(v[:2])), int(v[2])
			if safi != SAFIUnicast || (afi != AFIIPv4 && afi != AFIIPv6) {
				return fmt.Errorf("MP_UNREACH_NLRI afi/safi %d/%d", afi, safi)
			}
			ap := opt.AddPathIPv4
			if afi == AFIIPv6 {
				ap = opt.AddPathIPv6
			}
			nl, err := decodeNLRIs(v[3:], afi, ap)
			if err != nil {
				return fmt.Errorf("MP_UNREACH_NLRI: %w", err)
			}
			u.Withdrawn = append(u.Withdrawn, nl...)
		default:
			a.Unknown = append(a.Unknown, Raw{Flags: flags &^ flagExtendedLen, Type: typ, Value: append([]byte{}, v...)})
		}
	}
	return nil
}

// ---------------------------------------------------------------- encoder

// Header prepends the 19-byte header.
func Header(typ int, body []byte) []byte {
	out := make([]byte, 0, HeaderLen+len(body))
	for i := 0; i < 16; i++ {
		out = append(out, 0xff)
	}
	out = append(out, byte((HeaderLen+len(body))>>8), byte(HeaderLen+len(body)), byte(typ))
	return append(out, body...)
}

// Attr encodes one attribute (extended length iff needed, or forced).
func Attr(flags byte, typ int, v []byte, forceExt bool) []byte {
	if len(v) > 255 || forceExt {
		return append([]byte{flags | flagExtendedLen, byte(typ), byte(len(v) >> 8), byte(len(v))}, v...)
	}
	return append([]byte{flags, byte(typ), byte(len(v))}, v...)
}

func U32(v uint32) []byte { b := make([]byte, 4); binary.BigEndian.PutUint32(b, v); return b }
func U16(v int) []byte    { return []byte{byte(v >> 8), byte(v)} }

// EncNLRI encodes prefixes.
func EncNLRI(ns []NLRI, addPath bool) []byte {
	out := []byte{}
	for _, n := range ns {
		if addPath {
			out = append(out, U32(n.PathID)...)
		}
		out = append(out, byte(n.Len))
		out = append(out, n.Addr...)
	}
	return out
}

// EncASPath encodes AS_PATH segments.
func EncASPath(segs []Segment, asn4 bool) []byte {
	out := []byte{}
	for _, s := range segs {
		out = append(out, byte(s.Type), byte(len(s.ASNs)))
		for _, a := range s.ASNs {
			if asn4 {
				out = append(out, U32(a)...)
			} else {
				out = append(out, U16(int(a))...)
			}
		}
	}
	return out
}

// UpdateBody assembles an UPDATE body from its three sections.
func UpdateBody(withdrawn, attrs, nlri []byte) []byte {
	out := append(U16(len(withdrawn)), withdrawn...)
	out = append(out, U16(len(attrs))...)
	out = append(out, attrs...)
	return append(out, nlri...)
}

// OpenBody encodes an OPEN body with the given capabilities.
func OpenBody(version, as, hold int, id uint32, caps []Cap) []byte {
	cb := []byte{}
	for _, c := range caps {
		cb = append(cb, byte(c.Code), byte(len(c.Value)))
		cb = append(cb, c.Value...)
	}
	out := []byte{byte(version)}
	out = append(out, U16(as)...)
	out = append(out, U16(hold)...)
	out = append(out, U32(id)...)
	if len(cb) == 0 {
		return append(out, 0)
	}
	out = append(out, byte(len(cb)+2), 2, byte(len(cb)))
	return append(out, cb...)
}

// SortedKeys returns the sorted prefix keys of a list of NLRI (with path ids).
func SortedKeys(ns []NLRI) []string {
	out := []string{}
	for _, n := range ns {
		out = append(out, fmt.Sprintf("%s#%d", n.Key(), n.PathID))
	}
	sort.Strings(out)
	return out
}
