// vharness: replay TLC-generated behaviours against bio-rd, or drive bio-rd and log traces.
package main

import (
	"bufio"
	"encoding/json"
	"flag"
	"fmt"
	"os"
	"time"

	_ "verifharness/adapters"
	"verifharness/core"
)

func main() {
	if len(os.Args) < 2 {
		fmt.Fprintln(os.Stderr, "usage: vharness replay|drive ...")
		os.Exit(2)
	}
	switch os.Args[1] {
	case "replay":
		fs := flag.NewFlagSet("replay", flag.ExitOnError)
		adapter := fs.String("adapter", "", "")
		in := fs.String("in", "", "")
		from := fs.Int("from", 0, "")
		params := fs.String("params", "{}", "")
		timeout := fs.Int("timeout", 30, "seconds per behaviour")
		fs.Parse(os.Args[2:])
		var p core.Params
		if err := json.Unmarshal([]byte(*params), &p); err != nil {
			fmt.Fprintln(os.Stderr, err)
			os.Exit(2)
		}
		os.Exit(core.RunReplay(*adapter, *in, *from, p, time.Duration(*timeout)*time.Second))
	case "drive":
		fs := flag.NewFlagSet("drive", flag.ExitOnError)
		driver := fs.String("driver", "", "")
		outp := fs.String("out", "", "")
		seed := fs.Int64("seed", 0, "")
		params := fs.String("params", "{}", "")
		fs.Parse(os.Args[2:])
		var p core.Params
		if err := json.Unmarshal([]byte(*params), &p); err != nil {
			fmt.Fprintln(os.Stderr, err)
			os.Exit(2)
		}
		d := core.GetDriver(*driver)
		if d == nil {
			fmt.Fprintf(os.Stderr, "unknown driver %q\n", *driver)
			os.Exit(2)
		}
		f, err := os.Create(*outp)
		if err != nil {
			fmt.Fprintln(os.Stderr, err)
			os.Exit(2)
		}
		w := bufio.NewWriterSize(f, 1<<20)
		info, err := d(*seed, p, w)
		w.Flush()
		f.Close()
		if err != nil {
			fmt.Fprintln(os.Stderr, err)
			os.Exit(2)
		}
		j, _ := json.Marshal(info)
		fmt.Println(string(j))
	default:
		os.Exit(2)
	}
}
