// Package core is the replay/drive skeleton shared by all adapters.
//
// A behaviour is a list of steps emitted by TLC from a specification in
// /verif/specs; every step carries the action name ("a"), its arguments and the
// expected abstract state after the step. An adapter applies the step to the
// real bio-rd objects and compares a projection of the real state.
package core

import (
	"bufio"
	"bytes"
	"encoding/json"
	"fmt"
	"os"
	"reflect"
	"runtime"
	"sort"
	"strings"
	"time"
)

// Step is one action of a behaviour as emitted by the spec.
type Step map[string]json.RawMessage

// Str returns a string field ("" if absent).
func (s Step) Str(k string) string {
	var v string
	if r, ok := s[k]; ok {
		_ = json.Unmarshal(r, &v)
	}
	return v
}

// Int returns an integer field (0 if absent).
func (s Step) Int(k string) int {
	var v int
	if r, ok := s[k]; ok {
		_ = json.Unmarshal(r, &v)
	}
	return v
}

// Bool returns a boolean field.
func (s Step) Bool(k string) bool {
	var v bool
	if r, ok := s[k]; ok {
		_ = json.Unmarshal(r, &v)
	}
	return v
}

// Has tells whether the field is present.
func (s Step) Has(k string) bool { _, ok := s[k]; return ok }

// Into decodes a field into v.
func (s Step) Into(k string, v interface{}) {
	r, ok := s[k]
	if !ok {
		panic("harness: step lacks field " + k)
	}
	if err := json.Unmarshal(r, v); err != nil {
		panic(fmt.Sprintf("harness: field %s: %v (%s)", k, err, string(r)))
	}
}

// Behaviour is one emitted behaviour.
type Behaviour struct {
	ID    int             `json:"id"`
	Steps []Step          `json:"-"`
	Raw   json.RawMessage `json:"steps"`
}

// Divergence is what an adapter reports when the real code leaves the spec.
type Divergence struct {
	Step   int         `json:"step"`
	Action string      `json:"action"`
	Field  string      `json:"field"`
	Kind   string      `json:"kind"` // missing | extra | wrong | panic | hang | error
	Class  string      `json:"class"`
	Want   interface{} `json:"want,omitempty"`
	Got    interface{} `json:"got,omitempty"`
	Detail string      `json:"detail,omitempty"`
}

// Params are adapter parameters chosen by the runner (embedding, session kind ...).
type Params map[string]interface{}

func (p Params) Str(k, def string) string {
	if v, ok := p[k].(string); ok {
		return v
	}
	return def
}
func (p Params) Int(k string, def int) int {
	if v, ok := p[k].(float64); ok {
		return int(v)
	}
	return def
}
func (p Params) Bool(k string, def bool) bool {
	if v, ok := p[k].(bool); ok {
		return v
	}
	return def
}

// Adapter replays one behaviour on fresh real objects.
type Adapter func(b *Behaviour, p Params) *Divergence

// Driver runs the real code under a seeded random workload and writes an ndjson trace.
type Driver func(seed int64, p Params, out *bufio.Writer) (map[string]interface{}, error)

var adapters = map[string]Adapter{}
var drivers = map[string]Driver{}

func Register(name string, a Adapter)      { adapters[name] = a }
func RegisterDriver(name string, d Driver) { drivers[name] = d }
func GetDriver(name string) Driver         { return drivers[name] }

type record struct {
	Idx   int  `json:"idx"`
	OK    bool `json:"ok"`
	Fatal bool `json:"fatal,omitempty"`
	*Divergence
}

// Canon turns any JSON-able value into a canonical form: arrays whose elements
// are all comparable after canonicalisation are kept in order; use Set() to mark
// a slice as unordered.
func Canon(v interface{}) interface{} {
	b, err := json.Marshal(v)
	if err != nil {
		panic(err)
	}
	var x interface{}
	d := json.NewDecoder(bytes.NewReader(b))
	d.UseNumber()
	if err := d.Decode(&x); err != nil {
		panic(err)
	}
	return x
}

// SortSet sorts a decoded JSON array by the JSON text of its elements (set semantics).
func SortSet(x interface{}) interface{} {
	arr, ok := x.([]interface{})
	if !ok {
		return x
	}
	keys := make([]string, len(arr))
	for i := range arr {
		b, _ := json.Marshal(arr[i])
		keys[i] = string(b)
	}
	idx := make([]int, len(arr))
	for i := range idx {
		idx[i] = i
	}
	sort.Slice(idx, func(a, b int) bool { return keys[idx[a]] < keys[idx[b]] })
	out := make([]interface{}, len(arr))
	for i, j := range idx {
		out[i] = arr[j]
	}
	return out
}

// DeepSortSets canonicalises every array in the value as a set (recursively).
func DeepSortSets(x interface{}) interface{} {
	switch t := x.(type) {
	case []interface{}:
		o := make([]interface{}, len(t))
		for i := range t {
			o[i] = DeepSortSets(t[i])
		}
		return SortSet(o)
	case map[string]interface{}:
		o := make(map[string]interface{}, len(t))
		for k, v := range t {
			o[k] = DeepSortSets(v)
		}
		return o
	}
	return x
}

// EqualJSON compares two values after canonicalisation.
func EqualJSON(a, b interface{}) bool {
	return reflect.DeepEqual(Canon(a), Canon(b))
}

// EqualAsSets compares with all arrays treated as sets.
func EqualAsSets(a, b interface{}) bool {
	return reflect.DeepEqual(DeepSortSets(Canon(a)), DeepSortSets(Canon(b)))
}

// SetDiff classifies the difference between two string sets.
func SetDiff(want, got []string) (kind string, missing, extra []string) {
	w := map[string]bool{}
	g := map[string]bool{}
	for _, s := range want {
		w[s] = true
	}
	for _, s := range got {
		g[s] = true
	}
	for s := range w {
		if !g[s] {
			missing = append(missing, s)
		}
	}
	for s := range g {
		if !w[s] {
			extra = append(extra, s)
		}
	}
	sort.Strings(missing)
	sort.Strings(extra)
	switch {
	case len(missing) > 0 && len(extra) > 0:
		kind = "wrong"
	case len(missing) > 0:
		kind = "missing"
	case len(extra) > 0:
		kind = "extra"
	}
	if kind == "" && len(want) != len(got) {
		kind = "duplicate"
	}
	return
}

func decodeBehaviour(line []byte) (*Behaviour, error) {
	var b Behaviour
	if err := json.Unmarshal(line, &b); err != nil {
		return nil, err
	}
	if err := json.Unmarshal(b.Raw, &b.Steps); err != nil {
		// pure-function cases are a single object rather than a list of steps
		var one Step
		if err2 := json.Unmarshal(b.Raw, &one); err2 != nil {
			return nil, err
		}
		b.Steps = []Step{one}
	}
	return &b, nil
}

// RunReplay is the replay sub-command.
func RunReplay(adapter, in string, from int, params Params, timeout time.Duration) int {
	a, ok := adapters[adapter]
	if !ok {
		fmt.Fprintf(os.Stderr, "unknown adapter %q\n", adapter)
		return 2
	}
	f, err := os.Open(in)
	if err != nil {
		fmt.Fprintln(os.Stderr, err)
		return 2
	}
	defer f.Close()
	sc := bufio.NewScanner(f)
	sc.Buffer(make([]byte, 1<<20), 1<<28)
	out := bufio.NewWriter(os.Stdout)
	defer out.Flush()
	idx := -1
	steps := 0
	for sc.Scan() {
		idx++
		if idx < from {
			continue
		}
		b, err := decodeBehaviour(sc.Bytes())
		if err != nil {
			fmt.Fprintf(os.Stderr, "bad behaviour line %d: %v\n", idx, err)
			return 2
		}
		fmt.Fprintf(os.Stderr, "@%d\n", idx)
		steps += len(b.Steps)
		type res struct{ d *Divergence }
		ch := make(chan res, 1)
		go func() {
			var d *Divergence
			defer func() {
				if r := recover(); r != nil {
					buf := make([]byte, 1<<14)
					n := runtime.Stack(buf, false)
					msg := fmt.Sprint(r)
					if strings.HasPrefix(msg, "harness:") {
						fmt.Fprintf(os.Stderr, "HARNESS BUG: %s\n%s\n", msg, buf[:n])
						os.Exit(4)
					}
					if d0, ok := r.(*Divergence); ok { // adapters may panic(&Divergence{...})
						ch <- res{d0}
						return
					}
					ch <- res{&Divergence{Step: CurStep, Action: CurAction, Field: "process", Kind: "panic", Class: panicClass(msg, string(buf[:n])), Detail: msg + "\n" + string(buf[:n])}}
					return
				}
				ch <- res{d}
			}()
			d = a(b, params)
		}()
		select {
		case r := <-ch:
			if r.d != nil {
				j, _ := json.Marshal(record{Idx: idx, OK: false, Divergence: r.d})
				out.Write(j)
				out.WriteByte('\n')
				out.Flush()
			}
		case <-time.After(timeout):
			buf := make([]byte, 1<<18)
			n := runtime.Stack(buf, true)
			d := &Divergence{Step: CurStep, Action: CurAction, Field: "process", Kind: "hang", Class: HangClass, Detail: trimStacks(string(buf[:n]))}
			j, _ := json.Marshal(record{Idx: idx, OK: false, Fatal: true, Divergence: d})
			out.Write(j)
			out.WriteByte('\n')
			out.Flush()
			os.Exit(3)
		}
	}
	fmt.Fprintf(out, "{\"done\":true,\"n\":%d,\"steps\":%d}\n", idx+1, steps)
	return 0
}

// CurStep / CurAction are maintained by adapters (via At) so that panics and
// hangs are attributed to the step that was executing. Replay is sequential.
var (
	CurStep   int
	CurAction string
	HangClass string
)

// At records the step being executed.
func At(i int, action string) { CurStep, CurAction = i, action }

// panicClass derives a stable class from the innermost bio-rd frame of a panic.
func panicClass(msg, stack string) string {
	lines := strings.Split(stack, "\n")
	for _, l := range lines {
		l = strings.TrimSpace(l)
		if strings.HasPrefix(l, "github.com/bio-routing/bio-rd/") {
			fn := strings.TrimPrefix(l, "github.com/bio-routing/bio-rd/")
			if i := strings.LastIndex(fn, "("); i > 0 {
				fn = fn[:i]
			}
			return fn
		}
	}
	if len(msg) > 60 {
		msg = msg[:60]
	}
	return msg
}

func trimStacks(s string) string {
	if len(s) > 12000 {
		return s[:12000]
	}
	return s
}
