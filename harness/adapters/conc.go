package adapters

import (
	"fmt"
	"runtime"
	"sort"
	"strings"
	"sync"
	"time"

	bnet "github.com/bio-routing/bio-rd/net"
	"github.com/bio-routing/bio-rd/protocols/bgp/types"
	"github.com/bio-routing/bio-rd/route"
	"github.com/bio-routing/bio-rd/routingtable"
	"github.com/bio-routing/bio-rd/routingtable/adjRIBIn"
	"github.com/bio-routing/bio-rd/routingtable/adjRIBOut"
	"github.com/bio-routing/bio-rd/routingtable/filter"
	"github.com/bio-routing/bio-rd/routingtable/locRIB"
	"github.com/bio-routing/bio-rd/routingtable/vrf"

	"verifharness/core"
)

// Spec Conc (C25), table level: the operations of a scenario run at the same time, each in its own goroutine and repeated
// `reps` times (the spec's operation is one iteration; the repetition widens the window in which two operations overlap),
// on fresh objects: an Adj-RIB-In feeding a Loc-RIB with the Adj-RIB-Out of two sessions as clients, each with a counting
// client of its own. A watchdog bounds every scenario; afterwards the tables must still work.

type concCount struct {
	mu   sync.Mutex
	have map[string]int
}

func (c *concCount) AddPath(pfx *bnet.Prefix, p *route.Path) error {
	c.mu.Lock()
	c.have[pfx.String()] = 1
	c.mu.Unlock()
	return nil
}
func (c *concCount) AddPathInitialDump(pfx *bnet.Prefix, p *route.Path) error {
	return c.AddPath(pfx, p)
}
func (c *concCount) RemovePath(pfx *bnet.Prefix, p *route.Path) bool {
	c.mu.Lock()
	delete(c.have, pfx.String())
	c.mu.Unlock()
	return true
}
func (c *concCount) ReplacePath(*bnet.Prefix, *route.Path, *route.Path) {}
func (c *concCount) RefreshRoute(*bnet.Prefix, []*route.Path)           {}
func (c *concCount) EndOfRIB()                                          {}
func (c *concCount) Dispose()                                           {}
func (c *concCount) ClientCount() uint64                                { return 0 }
func (c *concCount) Dump() []*route.Route                               { return nil }
func (c *concCount) Register(routingtable.RouteTableClient)             {}
func (c *concCount) RegisterWithOptions(routingtable.RouteTableClient, routingtable.ClientOptions) {
}
func (c *concCount) Unregister(routingtable.RouteTableClient) {}
func (c *concCount) RouteCount() int64                        { return 0 }
func (c *concCount) UpdateNewClient(routingtable.RouteTableClient) error {
	return nil
}
func (c *concCount) ReplaceFilterChain(filter.Chain) {}
func (c *concCount) keys() []string {
	c.mu.Lock()
	defer c.mu.Unlock()
	out := []string{}
	for k := range c.have {
		out = append(out, k)
	}
	sort.Strings(out)
	return out
}

type concWorld struct {
	rib  *locRIB.LocRIB
	in   *adjRIBIn.AdjRIBIn
	out  [2]*adjRIBOut.AdjRIBOut
	cnt  [2]*concCount
	opts [2]routingtable.ClientOptions
	cmx  *routingtable.ClientManager
	vrf  *vrf.VRF
	path *route.Path
}

type concMaster struct{}

func (concMaster) UpdateNewClient(routingtable.RouteTableClient) error { return nil }

func concPfx(a, b int) *bnet.Prefix {
	return bnet.NewPfx(bnet.IPv4FromOctets(10, uint8(a), uint8(b), 0), 24).Ptr()
}

func newConcWorld() *concWorld {
	w := &concWorld{}
	w.vrf = vrf.NewUntrackedVRF("main", 0)
	w.rib = locRIB.New("inet.0")
	sa := func(i int) routingtable.SessionAttrs {
		return routingtable.SessionAttrs{RouterID: 100, PeerIP: bnet.IPv4FromOctets(10, 0, 0, uint8(i+1)).Ptr(), LocalIP: bnet.IPv4FromOctets(10, 0, 0, 200).Ptr(),
			Type: route.BGPPathType, IBGP: false, LocalASN: 65000, PeerASN: uint32(65001 + i)}
	}
	for i := 0; i < 2; i++ {
		attrs := sa(i)
		opts := routingtable.ClientOptions{BestOnly: true}
		if i == 1 { // the second session sends several paths per prefix (add-path)
			attrs.AddPathTX = true
			opts = routingtable.ClientOptions{MaxPaths: 2}
		}
		w.out[i] = adjRIBOut.New(w.rib, attrs, filter.NewAcceptAllFilterChain())
		w.cnt[i] = &concCount{have: map[string]int{}}
		w.out[i].Register(w.cnt[i])
		w.rib.RegisterWithOptions(w.out[i], opts)
		w.opts[i] = opts
	}
	w.in = adjRIBIn.New(filter.NewAcceptAllFilterChain(), w.vrf, sa(7))
	w.in.Register(w.rib)
	w.path = buildRibPath(ribPath{LP: 100, NH: 9, ASP: []uint32{65009, 65010}}, false, true, bnet.IPv4FromOctets(10, 0, 0, 9).Ptr(), nil)
	for k := 0; k < 3; k++ { // routes learned before the scenario starts (policy replacements have something to re-evaluate)
		w.in.AddPath(concPfx(200, k), w.path.Copy())
	}
	// a route that must not be advertised to anybody (NO_ADVERTISE): the sessions' tables have to leave it out
	na := buildRibPath(ribPath{LP: 100, NH: 9, ASP: []uint32{65009, 65011}}, false, true, bnet.IPv4FromOctets(10, 0, 0, 9).Ptr(),
		[]uint32{types.WellKnownCommunityNoAdvertise})
	w.in.AddPath(concPfx(200, 3), na)
	w.in.AddPath(concPfx(200, 0), na.Copy()) // and as a second path of a prefix that also has an ordinary one
	w.cmx = routingtable.NewClientManager(concMaster{})
	w.cmx.Dispose()
	return w
}

// run performs one operation `reps` times; proc distinguishes the prefixes of different goroutines.
func (w *concWorld) run(op string, proc, reps int) {
	for i := 0; i < reps; i++ {
		switch op {
		case "churn":
			pfx := concPfx(proc, i%4)
			w.rib.AddPath(pfx, w.path.Copy())
			w.rib.RemovePath(pfx, w.path.Copy())
		case "inchurn":
			pfx := concPfx(100+proc, i%4)
			w.in.AddPath(pfx, w.path.Copy())
			w.in.RemovePath(pfx, w.path.Copy())
		case "imp":
			w.in.ReplaceFilterChain(filter.NewDrainFilterChain())
			w.in.ReplaceFilterChain(filter.NewAcceptAllFilterChain())
		case "exp1", "exp2":
			o := w.out[int(op[3]-'1')]
			o.ReplaceFilterChain(filter.NewDrainFilterChain())
			o.ReplaceFilterChain(filter.NewAcceptAllFilterChain())
		case "rereg1", "rereg2":
			o := w.out[int(op[5]-'1')]
			w.rib.Unregister(o)
			w.rib.RegisterWithOptions(o, w.opts[int(op[5]-'1')])
		case "dump":
			w.rib.Dump()
			w.out[0].Dump()
			w.in.Dump()
		case "unreg": // a client that is not registered (a second Unregister, or one that never registered)
			w.in.Unregister(w.cnt[1])
			w.rib.Unregister(w.cnt[1])
			w.out[0].Unregister(w.cnt[1])
		case "cmlate":
			w.cmx.RegisterWithOptions(w.cnt[0], routingtable.ClientOptions{BestOnly: true})
		case "cmuse":
			w.cmx.ClientCount()
			w.cmx.Unregister(w.cnt[0])
		default:
			panic("harness: unknown operation " + op)
		}
	}
}

// blockedIn summarises where the goroutines of this process wait on a lock or channel inside bio-rd code.
func blockedIn() string {
	buf := make([]byte, 1<<20)
	buf = buf[:runtime.Stack(buf, true)]
	seen := map[string]bool{}
	for _, g := range strings.Split(string(buf), "\n\n") {
		if !strings.Contains(g, "sync.(*RWMutex)") && !strings.Contains(g, "sync.(*Mutex)") && !strings.Contains(g, "chan send") && !strings.Contains(g, "chan receive") {
			continue
		}
		for _, l := range strings.Split(g, "\n") {
			if strings.HasPrefix(l, "github.com/bio-routing/bio-rd/") {
				f := strings.TrimPrefix(l, "github.com/bio-routing/bio-rd/")
				if i := strings.LastIndex(f, "("); i > 0 {
					f = f[:i]
				}
				seen[f] = true
				break
			}
		}
	}
	out := []string{}
	for k := range seen {
		out = append(out, k)
	}
	sort.Strings(out)
	return strings.Join(out, "; ")
}

func init() {
	core.Register("conc", func(b *core.Behaviour, p core.Params) *core.Divergence {
		st := b.Steps[0]
		core.At(0, "Scenario")
		var ops []string
		st.Into("ops", &ops)
		if n := p.Int("gomaxprocs", 0); n > 0 {
			runtime.GOMAXPROCS(n)
		}
		reps := p.Int("reps", 300)
		rounds := p.Int("rounds", 3)
		deadline := time.Duration(p.Int("deadline_ms", 8000)) * time.Millisecond
		class := strings.Join(append([]string{}, ops...), "+")
		for r := 0; r < rounds; r++ {
			w := newConcWorld()
			done := make(chan int, len(ops))
			start := make(chan struct{})
			for i, op := range ops {
				go func(i int, op string) {
					<-start
					w.run(op, i+1, reps)
					done <- i
				}(i, op)
			}
			close(start)
			finished := map[int]bool{}
			timeout := time.After(deadline)
			for len(finished) < len(ops) {
				select {
				case i := <-done:
					finished[i] = true
				case <-timeout:
					stuck := []string{}
					for i, op := range ops {
						if !finished[i] {
							stuck = append(stuck, op)
						}
					}
					sort.Strings(stuck)
					return &core.Divergence{Step: 0, Action: "Scenario", Field: "completion", Kind: "hang", Class: "stuck:" + strings.Join(dedupStr(opKinds(stuck)), "+"),
						Want: "every operation completes", Got: fmt.Sprintf("not finished after %s: %v", deadline, stuck),
						Detail: fmt.Sprintf("round %d, %d repetitions per operation; goroutines blocked in: %s", r+1, reps, blockedIn())}
				}
			}
			// the tables are still usable: a route added now reaches the sessions' clients, and leaves them again
			probe := make(chan string, 1)
			go func() {
				pfx := concPfx(250, r)
				w.out[0].ReplaceFilterChain(filter.NewAcceptAllFilterChain())
				w.rib.RegisterWithOptions(w.out[0], routingtable.ClientOptions{BestOnly: true})
				w.in.AddPath(pfx, w.path.Copy())
				if c := w.cnt[0].keys(); !containsStr(c, pfx.String()) {
					probe <- fmt.Sprintf("a route added after the scenario did not reach the client of session 1 (it holds %v)", c)
					return
				}
				w.in.RemovePath(pfx, w.path.Copy())
				if c := w.cnt[0].keys(); containsStr(c, pfx.String()) {
					probe <- "a route removed after the scenario stayed with the client of session 1"
					return
				}
				w.rib.Dump()
				w.cmx.ClientCount()
				probe <- ""
			}()
			select {
			case e := <-probe:
				if e != "" {
					return &core.Divergence{Step: 0, Action: "Scenario", Field: "usable", Kind: "wrong", Class: class, Got: e, Detail: fmt.Sprintf("round %d", r+1)}
				}
			case <-time.After(deadline):
				return &core.Divergence{Step: 0, Action: "Scenario", Field: "usable", Kind: "hang", Class: class,
					Want: "the tables work after the scenario", Got: "the probe (register, add, remove, dump) did not finish",
					Detail: fmt.Sprintf("round %d; goroutines blocked in: %s", r+1, blockedIn())}
			}
			// where every operation of the scenario leaves a defined final state, the sessions hold what the Loc-RIB holds
			defined := true
			for _, op := range ops {
				if strings.HasPrefix(op, "rereg") { // Unregister leaves the session's table as it is: what it misses meanwhile is not defined
					defined = false
				}
			}
			if defined {
				// (the two prefixes that have a NO_ADVERTISE path are left out: what an add-path session does with them is C08's business)
				skip := map[string]bool{concPfx(200, 0).String(): true, concPfx(200, 3).String(): true}
				want := []string{}
				for _, rt := range w.rib.Dump() {
					if !skip[rt.Prefix().String()] {
						want = append(want, rt.Prefix().String())
					}
				}
				sort.Strings(want)
				for i := 0; i < 2; i++ {
					got := []string{}
					for _, k := range w.cnt[i].keys() {
						if !skip[k] {
							got = append(got, k)
						}
					}
					if kind, missing, extra := core.SetDiff(want, got); kind != "" {
						return &core.Divergence{Step: 0, Action: "Scenario", Field: "final-state", Kind: kind, Class: class, Want: want, Got: got,
							Detail: fmt.Sprintf("round %d, client of session %d: missing=%v extra=%v", r+1, i+1, missing, extra)}
					}
				}
			}
		}
		return nil
	})
}

func containsStr(l []string, s string) bool {
	for _, x := range l {
		if x == s {
			return true
		}
	}
	return false
}

func dedupStr(l []string) []string {
	out := []string{}
	for i, x := range l {
		if i == 0 || x != l[i-1] {
			out = append(out, x)
		}
	}
	return out
}

// opKinds drops the session number of an operation name (exp1, exp2 -> exp).
func opKinds(l []string) []string {
	out := []string{}
	for _, x := range l {
		out = append(out, strings.TrimRight(x, "0123456789"))
	}
	sort.Strings(out)
	return out
}
