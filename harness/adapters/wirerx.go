package adapters

import (
	"bytes"
	"fmt"
	"runtime"
	"strings"
	"time"

	"github.com/bio-routing/bio-rd/protocols/bgp/packet"

	"verifharness/core"
	"verifharness/wire"
)

// Spec WireRx (C16): bytes produced by the grammar + mutations go through packet.Decode.
func init() {
	core.Register("wirerx", func(b *core.Behaviour, p core.Params) *core.Divergence {
		st := b.Steps[0]
		core.At(0, "Decode")
		var bs []int
		st.Into("bytes", &bs)
		raw := make([]byte, len(bs))
		for i, v := range bs {
			raw[i] = byte(v)
		}
		opts := st.Int("opts")
		opt := &packet.DecodeOptions{AddPathIPv4Unicast: opts&1 != 0, AddPathIPv6Unicast: opts&2 != 0, Use32BitASN: opts&4 != 0, ExtendedNextHop: opts&8 != 0}
		mut := st.Str("mut")
		core.HangClass = mut
		var ms1, ms2 runtime.MemStats
		runtime.ReadMemStats(&ms1)
		t0 := time.Now()
		var msg *packet.BGPMessage
		var err error
		func() {
			defer func() {
				if r := recover(); r != nil {
					buf := make([]byte, 4096)
					n := runtime.Stack(buf, false)
					panic(&core.Divergence{Action: "Decode", Field: "process", Kind: "panic", Class: mut + ":" + innermostFrame(string(buf[:n])),
						Detail: fmt.Sprintf("%v msg=%s k=%d v=%d opts=%d bytes=%x", r, st.Str("msg"), st.Int("k"), st.Int("v"), opts, raw)})
				}
			}()
			msg, err = packet.Decode(bytes.NewBuffer(raw), opt)
		}()
		el := time.Since(t0)
		runtime.ReadMemStats(&ms2)
		detail := fmt.Sprintf("msg=%s mut=%s k=%d v=%d opts=%d len=%d", st.Str("msg"), mut, st.Int("k"), st.Int("v"), opts, len(raw))
		if msg == nil && err == nil {
			return &core.Divergence{Action: "Decode", Field: "result", Kind: "wrong", Class: mut, Want: "a message or an error", Got: "nil, nil", Detail: detail}
		}
		// a decode of at most 4096 bytes takes microseconds; one slow measurement on a loaded machine (preemption, a collection)
		// says nothing: the fastest of five has to be slow
		for k := 0; k < 4 && el > 200*time.Millisecond; k++ {
			t := time.Now()
			func() {
				defer func() { recover() }()
				packet.Decode(bytes.NewBuffer(raw), opt)
			}()
			if d := time.Since(t); d < el {
				el = d
			}
		}
		if el > 200*time.Millisecond {
			return &core.Divergence{Action: "Decode", Field: "time", Kind: "wrong", Class: mut, Want: "< 200ms (fastest of five)", Got: el.String(), Detail: detail}
		}
		if alloc := ms2.TotalAlloc - ms1.TotalAlloc; alloc > 4<<20 {
			return &core.Divergence{Action: "Decode", Field: "memory", Kind: "wrong", Class: mut, Want: "< 4 MiB allocated for a message of at most 4096 bytes", Got: alloc, Detail: detail}
		}
		// an unmutated message of the grammar must be accepted by the real decoder when the options fit it, and the strict
		// reference decoder must agree that it is well-formed (this keeps the grammar honest)
		if mut == "none" && !strings.Contains(st.Str("msg"), "lu") { // the reference decoder does not know labeled unicast (SAFI 4)
			fits := map[string]int{"updV4as2": 0, "updV4ap": 1 | 4, "updV6ap": 2 | 4}
			want, special := fits[st.Str("msg")]
			ok := opts&7 == 4
			if special {
				ok = opts&7 == want
			}
			if ok {
				if _, rerr := wire.Decode(raw, wire.Options{AddPathIPv4: opts&1 != 0, AddPathIPv6: opts&2 != 0, ASN4: opts&4 != 0}); rerr != nil {
					panic("harness: grammar message " + st.Str("msg") + " is not well-formed: " + rerr.Error())
				}
				if err != nil {
					return &core.Divergence{Action: "Decode", Field: "valid-rejected", Kind: "wrong", Class: st.Str("msg"), Want: "decoded", Got: err.Error(), Detail: detail}
				}
			}
		}
		return nil
	})
}

func innermostFrame(stack string) string {
	return panicClassFromStack(stack)
}
