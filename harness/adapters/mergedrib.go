package adapters

import (
	"bufio"
	"encoding/json"
	"math/rand"
	"sort"

	"github.com/bio-routing/bio-rd/route"
	routeapi "github.com/bio-routing/bio-rd/route/api"
	"github.com/bio-routing/bio-rd/routingtable/locRIB"
	"github.com/bio-routing/bio-rd/routingtable/mergedlocrib"

	"verifharness/core"
)

// Spec MergedRIB (C29). Abstract routes r1..r4 map to (prefix, path):
// r1/r2 share a prefix and differ in the path, r3/r4 are on other prefixes.
func mergedRoutes(v6 bool) map[string]*routeapi.Route {
	emb := getEmbedding("v4o8")
	if v6 {
		emb = getEmbedding("v6o60")
	}
	mk := func(bits string, pr PathRec) *routeapi.Route {
		return route.NewRoute(emb.Pfx(bits), pr.Build(v6)).ToProto()
	}
	return map[string]*routeapi.Route{
		"r1": mk("0101", PathRec{LP: 100, ASLen: 2, ID: 1, Src: 1, NH: 1, CL: -1}),
		"r2": mk("0101", PathRec{LP: 200, ASLen: 1, ID: 2, Src: 2, NH: 2, CL: -1, Comm: []uint32{65000<<16 | 1}}),
		"r3": mk("01", PathRec{LP: 100, ASLen: 2, ID: 1, Src: 1, NH: 1, CL: -1}),
		"r4": mk("", PathRec{LP: 100, ASLen: 0, ID: 3, Src: 3, NH: 3, CL: -1}),
	}
}

type mergedSys struct {
	lr     *locRIB.LocRIB
	m      *mergedlocrib.MergedLocRIB
	routes map[string]*routeapi.Route
	srcs   map[string]interface{}
}

func newMergedSys(v6 bool) *mergedSys {
	lr := locRIB.New("merged")
	s := &mergedSys{lr: lr, m: mergedlocrib.New(lr), routes: mergedRoutes(v6), srcs: map[string]interface{}{}}
	for _, n := range []string{"s1", "s2", "s3", "s4"} {
		x := new(int)
		s.srcs[n] = x
	}
	return s
}

func (s *mergedSys) apply(a, src, r string) {
	// a fresh copy of the API route per call, as the gRPC client would deliver it
	switch a {
	case "Add":
		cp := cloneAPIRoute(s.routes[r])
		if err := s.m.AddRoute(s.srcs[src], cp); err != nil {
			panic(err)
		}
	case "Remove":
		cp := cloneAPIRoute(s.routes[r])
		if err := s.m.RemoveRoute(s.srcs[src], cp); err != nil {
			panic(err)
		}
	case "DropAll":
		s.m.DropAllBySrc(s.srcs[src])
	default:
		panic("harness: unknown action " + a)
	}
}

func cloneAPIRoute(r *routeapi.Route) *routeapi.Route {
	return route.RouteFromProtoRoute(r, false).ToProto()
}

// project: which abstract routes are present in the underlying Loc-RIB (with multiplicity).
func (s *mergedSys) project() []string {
	out := []string{}
	for _, rt := range s.lr.Dump() {
		for _, p := range rt.Paths() {
			found := "?" + rt.Prefix().String()
			for name, ar := range s.routes {
				x := route.RouteFromProtoRoute(ar, false)
				if x.Prefix().Equal(rt.Prefix()) && x.Paths()[0].Compare(p) {
					found = name
				}
			}
			out = append(out, found)
		}
	}
	sort.Strings(out)
	return out
}

func init() {
	core.Register("mergedrib", func(b *core.Behaviour, p core.Params) *core.Divergence {
		s := newMergedSys(p.Bool("v6", false))
		for i, st := range b.Steps {
			a := st.Str("a")
			core.At(i, a)
			s.apply(a, st.Str("src"), st.Str("r"))
			var exp struct {
				Rib []string `json:"rib"`
			}
			st.Into("st", &exp)
			got := s.project()
			if kind, _, _ := core.SetDiff(exp.Rib, got); kind != "" {
				return &core.Divergence{Step: i, Action: a, Field: "rib", Kind: kind, Want: exp.Rib, Got: got}
			}
			if n := int(s.lr.Count()); false && n != len(exp.Rib) {
				return &core.Divergence{Step: i, Action: a, Field: "count", Kind: "wrong", Want: len(exp.Rib), Got: n}
			}
		}
		return nil
	})

	// M2 driver: seeded random histories over 3 sources x 3 routes, one event per call,
	// logged with the projected Loc-RIB content after the call returned.
	core.RegisterDriver("mergedrib", func(seed int64, p core.Params, out *bufio.Writer) (map[string]interface{}, error) {
		rng := rand.New(rand.NewSource(seed))
		traces := p.Int("traces", 100)
		length := p.Int("len", 60)
		srcs := []string{"s1", "s2", "s3"}
		routes := []string{"r1", "r2", "r3"}
		events := 0
		enc := json.NewEncoder(out)
		for t := 0; t < traces; t++ {
			s := newMergedSys(t%2 == 1)
			enc.Encode(map[string]interface{}{"a": "Reset", "src": "", "r": "", "rib": []string{}})
			events++
			for i := 0; i < length; i++ {
				src := srcs[rng.Intn(len(srcs))]
				r := routes[rng.Intn(len(routes))]
				a := "Add"
				switch x := rng.Intn(10); {
				case x < 5:
				case x < 9:
					a = "Remove"
				default:
					a, r = "DropAll", ""
				}
				s.apply(a, src, r)
				enc.Encode(map[string]interface{}{"a": a, "src": src, "r": r, "rib": s.project()})
				events++
			}
		}
		return map[string]interface{}{"traces": traces, "events": events}, nil
	})
}
