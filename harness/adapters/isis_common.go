package adapters

import (
	"bytes"
	"fmt"
	"sort"
	"sync"
	"time"

	bbclock "github.com/benbjohnson/clock"

	bnet "github.com/bio-routing/bio-rd/net"
	"github.com/bio-routing/bio-rd/net/ethernet"
	"github.com/bio-routing/bio-rd/protocols/device"
	"github.com/bio-routing/bio-rd/protocols/isis/packet"
	isis "github.com/bio-routing/bio-rd/protocols/isis/server"
	"github.com/bio-routing/bio-rd/protocols/isis/types"
)

// Shared by the IS-IS adapters (specs ISISAdj / C31 and ISISLSDB / C32).
//
// The server under test is assembled exactly like tests/isis_integration_test.go does it: server.New with a
// device.Updater, SetEthernetInterfaceFactory, SetClock with the benbjohnson mock clock, AddInterface, a device-up
// event, PDUs injected on the ethernet seam.  The ethernet seam (ethernet.EthernetInterfaceI behind the factory
// interface) and the device seam (device.Updater / device.DeviceInterface) are implemented here rather than taken from
// ethernet.MockEthernetInterface / device.MockServer because
//   * the harness has to know when an injected PDU has been processed completely: the receiver loop of the server
//     asks for the next packet only after processPkt of the previous one returned, so "RecvPacket called again" is an
//     exact, sleep-free synchronisation point (the repository's mock offers none);
//   * sent PDUs are recorded synchronously (the repository's mock only has a blocking read and a discarding drain);
//   * device.MockServer serves a single subscriber and reports interface index 0 for every device, but the three-way
//     handshake is about the circuit (= interface index), so two interfaces with distinct indexes are needed.

var (
	isisOwnSysID = types.SystemID{0, 0, 0, 0, 0, 0x50}
	isisArea     = types.AreaID{0x49, 0x00}
	isisAllIS    = ethernet.MACAddr{0x09, 0x00, 0x2B, 0x00, 0x00, 0x05}
)

// Upper bounds for anything asynchronous in the server. The first expirations in a process wait the long bound; once a
// process has seen several (the tree under test diverges and every divergent behaviour costs one expiration) the bound
// shrinks so that a failing run still terminates in reasonable time. Every reported divergence is confirmed in a fresh
// process, i.e. with the long bound.
const (
	isisWait      = 4 * time.Second
	isisWaitShort = 1500 * time.Millisecond
)

var isisExpired int

// ------------------------------------------------------------------ ethernet seam

type vPkt struct {
	src ethernet.MACAddr
	pkt []byte
}

type vEth struct {
	name   string
	mu     sync.Mutex
	asked  int // number of RecvPacket calls
	given  int // number of packets handed to the receiver
	in     chan vPkt
	closed chan struct{}
	once   sync.Once
	sent   [][]byte
}

func newVEth(name string) *vEth {
	return &vEth{name: name, in: make(chan vPkt, 64), closed: make(chan struct{})}
}

func (e *vEth) RecvPacket() ([]byte, ethernet.MACAddr, error) {
	e.mu.Lock()
	e.asked++
	e.mu.Unlock()
	select {
	case <-e.closed:
		return nil, ethernet.MACAddr{}, fmt.Errorf("socket closed")
	case p := <-e.in:
		return p.pkt, p.src, nil
	}
}

func (e *vEth) SendPacket(dst ethernet.MACAddr, pkt []byte) error {
	select {
	case <-e.closed:
		return fmt.Errorf("socket closed")
	default:
	}
	e.mu.Lock()
	e.sent = append(e.sent, append([]byte{}, pkt...))
	e.mu.Unlock()
	return nil
}

func (e *vEth) MCastJoin(ethernet.MACAddr) error { return nil }
func (e *vEth) GetMTU() int                      { return 1500 }
func (e *vEth) Close()                           { e.once.Do(func() { close(e.closed) }) }

// inject delivers one frame and returns when the server has finished processing it (its receiver asked for the next one).
func (e *vEth) inject(src ethernet.MACAddr, pkt []byte) bool {
	e.mu.Lock()
	e.given++
	want := e.given + 1
	e.mu.Unlock()
	e.in <- vPkt{src, pkt}
	return isisWaitFor(func() bool {
		e.mu.Lock()
		defer e.mu.Unlock()
		return e.asked >= want
	})
}

// takeSent returns and forgets everything sent since the last call.
func (e *vEth) takeSent() [][]byte {
	e.mu.Lock()
	defer e.mu.Unlock()
	s := e.sent
	e.sent = nil
	return s
}

type vEthFactory struct {
	mu   sync.Mutex
	ifas map[string]*vEth
}

func (f *vEthFactory) New(name string, _ *ethernet.BPF, _ ethernet.LLC) (ethernet.EthernetInterfaceI, error) {
	f.mu.Lock()
	defer f.mu.Unlock()
	e := newVEth(name)
	f.ifas[name] = e
	return e, nil
}

func (f *vEthFactory) get(name string) *vEth {
	f.mu.Lock()
	defer f.mu.Unlock()
	return f.ifas[name]
}

// isisWaitFor polls a condition (no ordering by sleeping: the condition is what is waited for).
func isisWaitFor(cond func() bool) bool {
	w := isisWait
	if isisExpired >= 3 {
		w = isisWaitShort
	}
	deadline := time.Now().Add(w)
	for i := 0; ; i++ {
		if cond() {
			return true
		}
		if time.Now().After(deadline) {
			isisExpired++
			return false
		}
		if i < 50 {
			time.Sleep(20 * time.Microsecond)
		} else {
			time.Sleep(500 * time.Microsecond)
		}
	}
}

// ------------------------------------------------------------------ device seam

type vDevice struct {
	index uint64
	oper  uint8
	addrs []*bnet.Prefix
}

func (d *vDevice) GetIndex() uint64         { return d.index }
func (d *vDevice) GetOperState() uint8      { return d.oper }
func (d *vDevice) GetAddrs() []*bnet.Prefix { return d.addrs }

type vDevUpdater struct {
	mu      sync.Mutex
	clients map[string]device.Client
}

func (u *vDevUpdater) Start() error { return nil }
func (u *vDevUpdater) Subscribe(c device.Client, name string) {
	u.mu.Lock()
	defer u.mu.Unlock()
	u.clients[name] = c
}
func (u *vDevUpdater) Unsubscribe(device.Client, string) {}
func (u *vDevUpdater) up(name string, index uint64, addrs []*bnet.Prefix) {
	u.mu.Lock()
	c := u.clients[name]
	u.mu.Unlock()
	if c == nil {
		panic("harness: no subscriber for " + name)
	}
	c.DeviceUpdate(&vDevice{index: index, oper: device.IfOperUp, addrs: addrs})
}

// ------------------------------------------------------------------ environment

type isisIfa struct {
	name  string
	index uint32
	net   byte // 10.0.<net>.0/31, the neighbour is .1
	eth   *vEth
}

type isisNbr struct {
	name  string
	mac   ethernet.MACAddr
	sysID types.SystemID
	ifa   *isisIfa
	ckt   uint32 // the neighbour's own extended local circuit id
}

type isisEnv struct {
	srv   *isis.Server
	clock *bbclock.Mock // the clock adjacencies (and hello senders) live on
	fac   *vEthFactory
	dev   *vDevUpdater
	ifas  map[string]*isisIfa
	nbrs  map[string]*isisNbr
	start time.Time
}

// newISISEnv starts a server with the given interfaces (all level 2, point to point, active).
// lsdbClock: the clock the periodic LSDB routines are registered on. The adjacency adapter passes a separate mock
// clock that is never advanced, so that advancing the adjacency clock second by second only wakes adjacency checkers
// (the mock clock sleeps 1 ms of real time per fired ticker).
func newISISEnv(ifaces []string, separateLSDBClock bool) *isisEnv {
	t0 := time.Date(2023, 1, 23, 0, 0, 0, 0, time.UTC)
	env := &isisEnv{
		fac:   &vEthFactory{ifas: map[string]*vEth{}},
		dev:   &vDevUpdater{clients: map[string]device.Client{}},
		ifas:  map[string]*isisIfa{},
		nbrs:  map[string]*isisNbr{},
		start: t0,
	}
	lc := bbclock.NewMock()
	lc.Set(t0)
	isis.SetClock(lc)
	s, err := isis.New([]*types.NET{{AreaID: isisArea, SystemID: isisOwnSysID, SEL: 0}}, env.dev, 3600)
	if err != nil {
		panic("harness: " + err.Error())
	}
	env.srv = s
	s.SetEthernetInterfaceFactory(env.fac)
	s.SetHostnameFunc(func() (string, error) { return "verif", nil })
	s.Start()
	if separateLSDBClock {
		ac := bbclock.NewMock()
		ac.Set(t0)
		isis.SetClock(ac)
		env.clock = ac
	} else {
		env.clock = lc
	}
	for i, name := range ifaces {
		ifa := &isisIfa{name: name, index: uint32(11 + i), net: byte(1 + i)}
		env.ifas[name] = ifa
		err := s.AddInterface(&isis.InterfaceConfig{
			Name: name, Passive: false, PointToPoint: true,
			// hello interval far beyond anything a behaviour advances: hello transmission is not the subject here
			Level2: &isis.InterfaceLevelConfig{HelloInterval: 60000, HoldingTimer: 180, Metric: 10},
		})
		if err != nil {
			panic("harness: AddInterface: " + err.Error())
		}
		// the device-up event asks for a regeneration of the local LSP; it has to be finished before the next interface is
		// added (generateLocalLSP walks all interfaces and an interface without a device status yet would be dereferenced)
		seq := env.ownSeq()
		env.dev.up(name, uint64(ifa.index), []*bnet.Prefix{bnet.NewPfx(bnet.IPv4FromOctets(10, 0, ifa.net, 0), 31).Ptr()})
		if !env.waitRegenerated(seq) {
			panic("harness: no regeneration of the local LSP after the device-up event of " + name)
		}
		ifa.eth = env.fac.get(name)
		if ifa.eth == nil {
			panic("harness: interface " + name + " did not open its ethernet handle")
		}
	}
	return env
}

func (env *isisEnv) addNbr(name string, n byte, ifa string) *isisNbr {
	nb := &isisNbr{
		name:  name,
		mac:   ethernet.MACAddr{0xde, 0xad, 0xbe, 0xef, 0x00, n},
		sysID: types.SystemID{0, 0, 0, 0, 0, 0x10 + n},
		ifa:   env.ifas[ifa],
		ckt:   uint32(100 + int(n)),
	}
	env.nbrs[name] = nb
	return nb
}

// shutdown releases what a behaviour started as far as the public API allows (interfaces; the LSDB routines have no stop).
func (env *isisEnv) shutdown() {
	for name := range env.ifas {
		func() {
			defer func() { _ = recover() }()
			_ = env.srv.RemoveInterface(name)
		}()
	}
}

// ------------------------------------------------------------------ PDUs

func isisFrame(pduType uint8, lenInd uint8, body packet.Serializable) []byte {
	buf := bytes.NewBuffer(nil)
	buf.Write([]byte{0xfe, 0xfe, 0x03}) // LLC, as the decoder expects it in front of the header on reception
	h := packet.ISISHeader{ProtoDiscriminator: 0x83, LengthIndicator: lenInd, ProtocolIDExtension: 1, PDUType: pduType, Version: 1}
	h.Serialize(buf)
	body.Serialize(buf)
	return buf.Bytes()
}

// helloFrame builds a point-to-point hello of neighbour nb. lists: "us" | "wrongsys" | "wrongckt" | "none".
func (env *isisEnv) helloFrame(nb *isisNbr, lists string, hold uint16) []byte {
	var adj *packet.P2PAdjacencyStateTLV
	otherCkt := nb.ifa.index + 1000
	for _, o := range env.ifas {
		if o != nb.ifa {
			otherCkt = o.index // the circuit id of another interface of this very system
		}
	}
	switch lists {
	case "none":
		adj = packet.NewP2PAdjacencyStateTLV(packet.P2PAdjStateDown, nb.ckt)
	case "us", "wrongsys", "wrongckt":
		adj = packet.NewP2PAdjacencyStateTLV(packet.P2PAdjStateInit, nb.ckt)
		adj.TLVLength = packet.P2PAdjacencyStateTLVLenWithNeighbor
		adj.NeighborSystemID = isisOwnSysID
		adj.NeighborExtendedLocalCircuitID = nb.ifa.index
		if lists == "wrongsys" {
			adj.NeighborSystemID = types.SystemID{0, 0, 0, 0, 0, 0x51}
		}
		if lists == "wrongckt" {
			adj.NeighborExtendedLocalCircuitID = otherCkt
		}
	default:
		panic("harness: unknown three-way TLV content " + lists)
	}
	h := &packet.P2PHello{
		CircuitType:    types.CircuitTypeL2,
		SystemID:       nb.sysID,
		HoldingTimer:   hold,
		LocalCircuitID: 1,
		TLVs: []packet.TLV{
			adj,
			packet.NewProtocolsSupportedTLV([]uint8{packet.NLPIDIPv4, packet.NLPIDIPv6}),
			packet.NewIPInterfaceAddressesTLV([]*bnet.Prefix{bnet.NewPfx(bnet.IPv4FromOctets(10, 0, nb.ifa.net, 1), 31).Ptr()}),
			packet.NewAreaAddressesTLV([]types.AreaID{isisArea}),
		},
	}
	return isisFrame(packet.P2P_HELLO, packet.P2PHelloMinLen, h)
}

// sendHello injects a hello and waits until the server has processed it.
func (env *isisEnv) sendHello(nb *isisNbr, lists string, hold uint16) bool {
	return nb.ifa.eth.inject(nb.mac, env.helloFrame(nb, lists, hold))
}

// decodeSent decodes a frame the server sent (no LLC in front of the header on this side of the seam).
func decodeSent(frame []byte) (*packet.ISISPacket, error) {
	return packet.Decode(bytes.NewBuffer(append([]byte{0xfe, 0xfe, 0x03}, frame...)))
}

// ------------------------------------------------------------------ projections

// adjOf returns the adjacency towards nb (nil if absent).
func (env *isisEnv) adjOf(nb *isisNbr) *isis.Adjacency {
	for _, a := range env.srv.GetAdjacencies() {
		if a.Address == nb.mac && a.InterfaceName == nb.ifa.name {
			return a
		}
	}
	return nil
}

func adjStateName(s uint8) string {
	switch s {
	case packet.P2PAdjStateUp:
		return "Up"
	case packet.P2PAdjStateInit:
		return "Init"
	case packet.P2PAdjStateDown:
		return "Down"
	}
	return fmt.Sprintf("state%d", s)
}

// ownLSP returns the local LSP as stored in the LSDB (nil if absent).
func (env *isisEnv) ownLSP() *packet.LSPDU {
	for _, e := range env.srv.GetLSDB() {
		l := e.GetLSPDU()
		if l.LSPID.SystemID == isisOwnSysID && l.LSPID.PseudonodeID == 0 && l.LSPID.LSPNumber == 0 {
			return l
		}
	}
	return nil
}

func (env *isisEnv) ownSeq() uint32 {
	if l := env.ownLSP(); l != nil {
		return l.SequenceNumber
	}
	return 0
}

// waitRegenerated waits until the stored local LSP has a sequence number above prev and no request is queued.
func (env *isisEnv) waitRegenerated(prev uint32) bool {
	return isisWaitFor(func() bool { return env.ownSeq() > prev && !env.srv.VerifLSPUpdatePending() })
}

// lspNeighbors lists the system ids an LSP advertises as IS neighbours (extended IS reachability), sorted.
func lspNeighbors(l *packet.LSPDU) []string {
	out := []string{}
	if l == nil {
		return out
	}
	for _, t := range l.TLVs {
		if t.Type() != packet.ExtendedISReachabilityType {
			continue
		}
		if eir, ok := t.(*packet.ExtendedISReachabilityTLV); ok {
			for _, n := range eir.Neighbors {
				out = append(out, fmt.Sprintf("%x", n.NeighborID.SystemID[:]))
			}
		}
	}
	sort.Strings(out)
	return out
}
