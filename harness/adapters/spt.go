package adapters

import (
	"fmt"

	"github.com/bio-routing/bio-rd/util/dijkstra"

	"verifharness/core"
)

// Spec SPT (C35): one case = graph + source + expected distances.
func init() {
	core.Register("spt", func(b *core.Behaviour, p core.Params) *core.Divergence {
		st := b.Steps[0]
		core.At(0, "SPT")
		n := st.Int("n")
		src := st.Int("src")
		var edges [][3]int
		st.Into("edges", &edges)
		var dist []int
		st.Into("dist", &dist)
		name := func(i int) dijkstra.Node { return dijkstra.Node{Name: fmt.Sprintf("n%d", i)} }
		nodes := []dijkstra.Node{}
		for i := 1; i <= n; i++ {
			nodes = append(nodes, name(i))
		}
		es := []dijkstra.Edge{}
		wt := map[[2]int]int64{}
		for _, e := range edges {
			es = append(es, dijkstra.Edge{NodeA: name(e[0]), NodeB: name(e[1]), Distance: int64(e[2])})
			wt[[2]int{e[0], e[1]}] = int64(e[2])
		}
		unreachable := false
		for _, d := range dist {
			if d < 0 {
				unreachable = true
			}
		}
		class := "all-reachable"
		if unreachable {
			class = "with-unreachable"
		}
		core.HangClass = class
		var spt dijkstra.SPT
		func() {
			defer func() {
				if r := recover(); r != nil {
					panic(&core.Divergence{Step: 0, Action: "SPT", Field: "process", Kind: "panic", Class: class, Detail: fmt.Sprint(r)})
				}
			}()
			spt = dijkstra.NewTopology(nodes, es).SPT(name(src))
		}()
		for i := 1; i <= n; i++ {
			pth, ok := spt[name(i)]
			if !ok {
				return &core.Divergence{Action: "SPT", Field: "node", Kind: "missing", Class: class, Want: i}
			}
			if pth.Distance != int64(dist[i-1]) {
				return &core.Divergence{Action: "SPT", Field: "distance", Kind: "wrong", Class: class, Want: dist, Got: fmt.Sprint(spt)}
			}
			if dist[i-1] < 0 {
				continue
			}
			// the edge list must be a path of existing edges from src to i with the reported length
			cur := name(src)
			sum := int64(0)
			for _, e := range pth.Edges {
				var a, bb int
				fmt.Sscanf(e.NodeA.Name, "n%d", &a)
				fmt.Sscanf(e.NodeB.Name, "n%d", &bb)
				w, ok := wt[[2]int{a, bb}]
				if e.NodeA != cur || !ok || w != e.Distance {
					return &core.Divergence{Action: "SPT", Field: "path", Kind: "wrong", Class: class, Want: "path of existing edges", Got: fmt.Sprint(pth.Edges)}
				}
				cur = e.NodeB
				sum += w
			}
			if cur != name(i) || sum != pth.Distance {
				return &core.Divergence{Action: "SPT", Field: "path", Kind: "wrong", Class: class, Want: dist[i-1], Got: fmt.Sprint(pth.Edges)}
			}
		}
		return nil
	})
}
