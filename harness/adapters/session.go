package adapters

import (
	"fmt"
	"net"
	"sort"
	"sync"
	"time"

	bnet "github.com/bio-routing/bio-rd/net"
	"github.com/bio-routing/bio-rd/net/tcp"
	"github.com/bio-routing/bio-rd/protocols/bgp/server"
	"github.com/bio-routing/bio-rd/route"
	"github.com/bio-routing/bio-rd/routingtable"
	"github.com/bio-routing/bio-rd/routingtable/filter"
	"github.com/bio-routing/bio-rd/routingtable/vrf"

	"verifharness/core"
	"verifharness/wire"
)

// Spec BGPFSM (C07, C19, C20, C21, C22, C23): a real bgpServer with a passive peer; the harness plays the
// remote speaker over an in-memory connection delivered through its own tcp.ListenerManagerI.

// vconn is the in-memory connection (server side view).
type vconn struct {
	mu         sync.Mutex
	cond       *sync.Cond
	in         []byte // bytes the peer sent, not yet read by the server
	out        []byte // bytes the server wrote
	closed     bool
	failWrites bool
	nextTicket int // Read calls are served in arrival order
	serving    int
	peerGone   bool // the peer's end is gone: reads end, writes fail
	local      net.Addr
	remote     net.Addr
}

func newVconn(local, remote net.IP) *vconn {
	c := &vconn{local: &net.TCPAddr{IP: local, Port: 179}, remote: &net.TCPAddr{IP: remote, Port: 40000}}
	c.cond = sync.NewCond(&c.mu)
	return c
}
func (c *vconn) Read(b []byte) (int, error) {
	c.mu.Lock()
	defer c.mu.Unlock()
	// like a socket, one Read call at a time; callers are served in the order in which they arrived (a legal schedule of the
	// runtime's descriptor lock, and the one that separates a reader's header from its body when a second reader is waiting)
	ticket := c.nextTicket
	c.nextTicket++
	for c.serving != ticket {
		c.cond.Wait()
	}
	defer func() {
		c.serving++
		c.cond.Broadcast()
	}()
	for len(c.in) == 0 && !c.closed && !c.peerGone {
		c.cond.Wait()
	}
	if len(c.in) == 0 && (c.closed || c.peerGone) {
		return 0, fmt.Errorf("connection closed")
	}
	n := copy(b, c.in)
	c.in = c.in[n:]
	return n, nil
}
func (c *vconn) Write(b []byte) (int, error) {
	c.mu.Lock()
	defer c.mu.Unlock()
	if c.closed {
		return 0, fmt.Errorf("connection closed")
	}
	if c.failWrites || c.peerGone {
		return 0, fmt.Errorf("write failed")
	}
	c.out = append(c.out, b...)
	return len(b), nil
}
func (c *vconn) Close() error {
	c.mu.Lock()
	c.closed = true
	c.cond.Broadcast()
	c.mu.Unlock()
	return nil
}
func (c *vconn) peerSend(b []byte) {
	c.mu.Lock()
	c.in = append(c.in, b...)
	c.cond.Broadcast()
	c.mu.Unlock()
}
func (c *vconn) snapshot() (out []byte, closed bool, pending int) {
	c.mu.Lock()
	defer c.mu.Unlock()
	return append([]byte{}, c.out...), c.closed, len(c.in)
}
func (c *vconn) LocalAddr() net.Addr                { return c.local }
func (c *vconn) RemoteAddr() net.Addr               { return c.remote }
func (c *vconn) SetDeadline(t time.Time) error      { return nil }
func (c *vconn) SetReadDeadline(t time.Time) error  { return nil }
func (c *vconn) SetWriteDeadline(t time.Time) error { return nil }

// vlm hands connections to the server's incoming connection worker.
type vlm struct{ ch chan tcp.ConnWithVRF }

func (l *vlm) ListenAddrsPerVRF(*vrf.VRF) []string       { return []string{"0.0.0.0:179"} }
func (l *vlm) GetListeners(*vrf.VRF) []tcp.ListenerI     { return nil }
func (l *vlm) CreateListenersIfNotExists(*vrf.VRF) error { return nil }
func (l *vlm) AcceptCh() chan tcp.ConnWithVRF            { return l.ch }

type sessCfg struct {
	IBGP    bool   `json:"ibgp"`
	Hold    int    `json:"hold"`
	Role    string `json:"role"`
	Strict  bool   `json:"strict"`
	AddPath bool   `json:"addpath"`
	RRC     string `json:"rrc"`   // "no" | "default" (cluster id = router id) | "explicit" (cluster id 7)
	Other   bool   `json:"other"` // a session with a second peer (same VRF, same local AS) is established throughout
	Active  bool   `json:"active"` // the peer is not passive: its own FSM is handed the connections and used for every session
	V6Only  bool   `json:"v6only"` // only the IPv6 address family is configured
	name    string // name of the configuration in the spec
}

type sessOpen struct {
	AS      string `json:"as"`
	AS4     string `json:"as4"`
	ID      string `json:"id"`
	Hold    int    `json:"hold"`
	Role    string `json:"role"`
	Version int    `json:"version"`
}

type sessNLRI struct {
	Pfx string `json:"pfx"`
	PID uint32 `json:"pid"`
}
type sessUpd struct {
	OK       bool       `json:"ok"`
	Announce []sessNLRI `json:"announce"`
	Withdraw []sessNLRI `json:"withdraw"`
	Subs     []int      `json:"subs"`
}

type sessState struct {
	St       string     `json:"st"`
	Conn     string     `json:"conn"`
	Attached bool       `json:"attached"`
	AdjIn    []sessNLRI `json:"adjin"`
	Out      []struct {
		Kind string `json:"kind"`
		Code int    `json:"code"`
		Sub  int    `json:"sub"`
	} `json:"out"`
	Hold   int        `json:"hold"`
	NSess  int        `json:"nsess"`
	Imp    string     `json:"imp"`
	Exp    string     `json:"exp"`
	Loc    []sessNLRI `json:"loc"`
	AdjOut []string   `json:"adjout"`
	ASN    bool       `json:"asn"`

	keepalives  int    // KEEPALIVEs the speaker wrote on the current connection
	openProblem string // what is wrong with the OPEN the speaker wrote, given its configuration ("" = nothing)
}

// role numbers of RFC 9234 as used in the capability
var roleCap = map[string]byte{"provider": 0, "rs": 1, "rsclient": 2, "customer": 3, "peer": 4}

var sessPfx = map[string]wire.NLRI{
	"a":  {AFI: wire.AFIIPv4, Len: 16, Addr: []byte{10, 1}},
	"b":  {AFI: wire.AFIIPv4, Len: 16, Addr: []byte{10, 2}},
	"c6": {AFI: wire.AFIIPv6, Len: 48, Addr: []byte{0x20, 0x01, 0x0d, 0xb8, 0, 1}},
	"d6": {AFI: wire.AFIIPv6, Len: 48, Addr: []byte{0x20, 0x01, 0x0d, 0xb8, 0, 2}},
	"l":  {AFI: wire.AFIIPv4, Len: 16, Addr: []byte{10, 3}},  // announced with the local AS in its AS_PATH
	"o1": {AFI: wire.AFIIPv4, Len: 16, Addr: []byte{10, 50}}, // put into the Loc-RIB by another source
	"o2": {AFI: wire.AFIIPv4, Len: 16, Addr: []byte{10, 51}},
}

func sessPfxName(p *bnet.Prefix) string {
	for n, w := range sessPfx {
		if int(p.Len()) == w.Len && p.Addr().IsIPv4() == (w.AFI == wire.AFIIPv4) &&
			fmt.Sprintf("%x", p.Addr().Bytes()[:len(w.Addr)]) == fmt.Sprintf("%x", w.Addr) {
			return n
		}
	}
	return "?" + p.String()
}

type session struct {
	srv     server.BGPServer
	lm      *vlm
	vrf     *vrf.VRF
	cfg     sessCfg
	peerIP  net.IP
	peerAS  uint32
	conn    *vconn
	asn4    bool // negotiated with the current connection
	addpath bool
	peerKey *bnet.IP
	nsess   int
	other   *vconn // connection of the second peer's session, if any
	peerID  uint32 // BGP identifier of the last OPEN the peer sent
	localAS uint32 // the speaker's AS (65000; 4200000001 for the configuration ibgp4)
	noAP    bool   // the OPEN being built leaves out the add-path capability
	openClass string // name of the OPEN class being built
	lostIn  string // state in which the current connection was lost without a NOTIFICATION ("" = it was not)
}

func newSession(cfg sessCfg) *session {
	s := &session{cfg: cfg, peerIP: net.IPv4(10, 0, 0, 201).To4(), peerAS: 65001}
	s.localAS = 65000
	if cfg.name == "ibgp4" {
		s.localAS = 4200000001
	}
	if cfg.IBGP {
		s.peerAS = s.localAS
	}
	s.vrf = vrf.NewUntrackedVRF("main", 0)
	s.vrf.CreateIPv4UnicastLocRIB("inet.0")
	s.vrf.CreateIPv6UnicastLocRIB("inet6.0")
	s.srv = server.NewBGPServer(server.BGPServerConfig{RouterID: 100, DefaultVRF: s.vrf})
	s.lm = &vlm{ch: make(chan tcp.ConnWithVRF)}
	s.srv.SetListenerManager(s.lm)
	s.srv.Start()
	af := func() *server.AddressFamilyConfig {
		return &server.AddressFamilyConfig{ImportFilterChain: filter.NewAcceptAllFilterChain(), ExportFilterChain: filter.NewAcceptAllFilterChain(),
			AddPathSend: routingtable.ClientOptions{BestOnly: true}, AddPathRecv: cfg.AddPath}
	}
	pa, _ := bnet.IPFromBytes(s.peerIP)
	s.peerKey = pa.Dedup()
	pc := server.PeerConfig{AdminEnabled: true, LocalAS: s.localAS, PeerAS: s.peerAS, LocalAddress: bnet.IPv4FromOctets(10, 0, 0, 200).Ptr(),
		PeerAddress: s.peerKey, Passive: !cfg.Active, ReconnectInterval: 5 * time.Millisecond, VRF: s.vrf, RouterID: 100, HoldTime: time.Duration(cfg.Hold) * time.Second,
		KeepAlive: time.Duration(cfg.Hold) * time.Second / 3, IPv4: af(), IPv6: af(), PeerRoleStrictMode: cfg.Strict}
	if cfg.Role != "none" && cfg.Role != "" {
		pc.PeerRole = sessRoleConfig(cfg.Role)
	}
	if cfg.V6Only {
		pc.IPv4 = nil
	}
	if cfg.name == "apTx" { // several paths per prefix towards the peer, one path per prefix from it
		pc.IPv4.AddPathSend = routingtable.ClientOptions{MaxPaths: 2}
		pc.IPv6.AddPathSend = routingtable.ClientOptions{MaxPaths: 2}
	}
	if cfg.RRC == "default" || cfg.RRC == "explicit" {
		pc.RouteReflectorClient = true
		if cfg.RRC == "explicit" {
			pc.RouteReflectorClusterID = 7
		}
	}
	if err := s.srv.AddPeer(pc); err != nil {
		panic("harness: AddPeer: " + err.Error())
	}
	if cfg.Other {
		s.establishOther(af)
	}
	return s
}

// establishOther configures a second passive eBGP peer (10.0.0.202, AS 65002) in the same VRF and brings its session up.
func (s *session) establishOther(af func() *server.AddressFamilyConfig) {
	ip := net.IPv4(10, 0, 0, 202).To4()
	pa, _ := bnet.IPFromBytes(ip)
	key := pa.Dedup()
	pc := server.PeerConfig{AdminEnabled: true, LocalAS: 65000, PeerAS: 65002, LocalAddress: bnet.IPv4FromOctets(10, 0, 0, 200).Ptr(),
		PeerAddress: key, Passive: true, VRF: s.vrf, RouterID: 100, HoldTime: 90 * time.Second, KeepAlive: 30 * time.Second, IPv4: af(), IPv6: af()}
	if err := s.srv.AddPeer(pc); err != nil {
		panic("harness: AddPeer (second peer): " + err.Error())
	}
	vc := newVconn(net.IPv4(10, 0, 0, 200).To4(), ip)
	s.lm.ch <- tcp.ConnWithVRF{Conn: vc, VRF: s.vrf}
	state := func() string {
		f := server.VerifPeerFSMs(s.srv, s.vrf, key)
		if len(f) == 0 {
			return ""
		}
		return f[len(f)-1].State
	}
	wait := func(st string) {
		for t := time.Now(); time.Since(t) < 5*time.Second; time.Sleep(time.Millisecond) {
			if state() == st {
				return
			}
		}
		panic("harness: the second peer's session does not reach " + st + " (is " + state() + ")")
	}
	wait("openSent")
	vc.peerSend(wire.Header(wire.TypeOpen, wire.OpenBody(4, 65002, 90, 202, []wire.Cap{{Code: 1, Value: []byte{0, 2, 0, 1}}, {Code: 65, Value: wire.U32(65002)}})))
	wait("openConfirm")
	vc.peerSend(wire.Header(wire.TypeKeepalive, nil))
	wait("established")
	s.other = vc
}

// current FSM (the newest one)
func (s *session) fsm() *server.VerifFSMInfo {
	f := server.VerifPeerFSMs(s.srv, s.vrf, s.peerKey)
	if len(f) == 0 {
		return nil
	}
	return &f[len(f)-1]
}

func (s *session) openBytes(o sessOpen) []byte {
	as := int(s.peerAS)
	if s.peerAS > 65535 {
		as = 23456 // the 2-octet field cannot hold it
	}
	as4 := s.peerAS
	switch o.AS {
	case "other":
		as = 65099
	case "trans":
		as = 23456
	}
	switch o.AS4 {
	case "other":
		as4 = 65098
	}
	id := uint32(201)
	switch o.ID {
	case "zero":
		id = 0
	case "ours":
		id = 100
	}
	s.peerID = id
	caps := []wire.Cap{{Code: 1, Value: []byte{0, 2, 0, 1}}} // multiprotocol IPv6 unicast
	if o.AS4 != "none" {
		caps = append(caps, wire.Cap{Code: 65, Value: wire.U32(as4)})
	}
	if o.Role == "multi" { // three role capabilities, the last two agree
		caps = append(caps, wire.Cap{Code: 9, Value: []byte{roleCap["customer"]}}, wire.Cap{Code: 9, Value: []byte{roleCap["provider"]}},
			wire.Cap{Code: 9, Value: []byte{roleCap["provider"]}})
	} else if o.Role != "none" {
		caps = append(caps, wire.Cap{Code: 9, Value: []byte{roleCap[o.Role]}})
	}
	if s.openClass == "okOddAP" { // add-path for an address family nobody configured, a SAFI the speaker does not run, an odd mode
		caps = append(caps, wire.Cap{Code: 69, Value: []byte{0, 25, 1, 3, 0, 1, 4, 3, 0, 2, 128, 1, 0, 3, 1, 2}})
	}
	if s.openClass == "okAP3" {
		caps = append(caps, wire.Cap{Code: 69, Value: []byte{0, 1, 1, 3, 0, 2, 1, 3}}) // send and receive for both families
	} else if s.cfg.AddPath && !s.noAP {
		caps = append(caps, wire.Cap{Code: 69, Value: []byte{0, 1, 1, 2, 0, 2, 1, 2}}) // we send several paths for both families
	}
	return wire.Header(wire.TypeOpen, wire.OpenBody(o.Version, as, o.Hold, id, caps))
}

func (s *session) validAttrs(v6 bool) []byte {
	a := wire.Attr(0x40, wire.AttrOrigin, []byte{0}, false)
	asn := uint32(65001)
	if s.cfg.IBGP {
		asn = 65010
	}
	a = append(a, wire.Attr(0x40, wire.AttrASPath, wire.EncASPath([]wire.Segment{{Type: wire.ASSequence, ASNs: []uint32{asn, 65020}}}, s.asn4), false)...)
	if !v6 {
		a = append(a, wire.Attr(0x40, wire.AttrNextHop, []byte{10, 0, 0, 201}, false)...)
	}
	if s.cfg.IBGP {
		a = append(a, wire.Attr(0x40, wire.AttrLocalPref, wire.U32(100), false)...)
	}
	return a
}

func (s *session) nlris(ns []sessNLRI, v6 bool) []wire.NLRI {
	out := []wire.NLRI{}
	for _, n := range ns {
		w := sessPfx[n.Pfx]
		if (w.AFI == wire.AFIIPv6) != v6 {
			continue
		}
		w.PathID = n.PID
		out = append(out, w)
	}
	return out
}

func (s *session) updateBytes(name string, u sessUpd) []byte {
	if name == "annLoop" { // a well-formed UPDATE whose AS_PATH contains the local AS
		a := wire.Attr(0x40, wire.AttrOrigin, []byte{0}, false)
		first := uint32(65001)
		if s.cfg.IBGP {
			first = 65010
		}
		a = append(a, wire.Attr(0x40, wire.AttrASPath, wire.EncASPath([]wire.Segment{{Type: wire.ASSequence, ASNs: []uint32{first, 65000, 65020}}}, s.asn4), false)...)
		a = append(a, wire.Attr(0x40, wire.AttrNextHop, []byte{10, 0, 0, 201}, false)...)
		if s.cfg.IBGP {
			a = append(a, wire.Attr(0x40, wire.AttrLocalPref, wire.U32(100), false)...)
		}
		return wire.Header(wire.TypeUpdate, wire.UpdateBody(nil, a, wire.EncNLRI(s.nlris(u.Announce, false), s.addpath)))
	}
	ap := s.addpath
	ann4, ann6 := s.nlris(u.Announce, false), s.nlris(u.Announce, true)
	wd4, wd6 := s.nlris(u.Withdraw, false), s.nlris(u.Withdraw, true)
	attrs := []byte{}
	var mpreach []byte
	if len(ann6) > 0 {
		v := append([]byte{0, 2, 1, 16}, []byte{0x20, 0x01, 0x0d, 0xb8, 0, 0, 0, 0, 0, 0, 0, 0, 0, 0, 0, 0xc9}...)
		v = append(v, 0)
		v = append(v, wire.EncNLRI(ann6, ap)...)
		mpreach = wire.Attr(0x80, wire.AttrMPReach, v, false)
		attrs = append(attrs, mpreach...)
		attrs = append(attrs, s.validAttrs(true)...)
	}
	if len(wd6) > 0 {
		attrs = append(attrs, wire.Attr(0x80, wire.AttrMPUnreach, append([]byte{0, 2, 1}, wire.EncNLRI(wd6, ap)...), false)...)
	}
	if len(ann4) > 0 {
		attrs = append(attrs, s.validAttrs(false)...)
	}
	wd := wire.EncNLRI(wd4, ap)
	nlri := wire.EncNLRI(ann4, ap)
	origin := wire.Attr(0x40, wire.AttrOrigin, []byte{0}, false)
	aspath := wire.Attr(0x40, wire.AttrASPath, wire.EncASPath([]wire.Segment{{Type: wire.ASSequence, ASNs: []uint32{65001, 65020}}}, s.asn4), false)
	nh := wire.Attr(0x40, wire.AttrNextHop, []byte{10, 0, 0, 201}, false)
	lp := []byte{}
	if s.cfg.IBGP {
		lp = wire.Attr(0x40, wire.AttrLocalPref, wire.U32(100), false)
	}
	cat := func(bs ...[]byte) []byte {
		o := []byte{}
		for _, b := range bs {
			o = append(o, b...)
		}
		return o
	}
	body := wire.UpdateBody(wd, attrs, nlri)
	switch name {
	case "wdLenBeyond":
		body = cat(wire.U16(200), wire.U16(len(attrs)), attrs, nlri)
	case "attrLenBeyond":
		body = cat(wire.U16(0), wire.U16(len(attrs)+500), attrs, nlri)
	case "attrLenShort":
		body = cat(wire.U16(0), wire.U16(len(attrs)-3), attrs, nlri)
	case "originLen2":
		body = wire.UpdateBody(nil, cat(wire.Attr(0x40, wire.AttrOrigin, []byte{0, 0}, false), aspath, nh, lp), nlri)
	case "nextHopLen3":
		body = wire.UpdateBody(nil, cat(origin, aspath, wire.Attr(0x40, wire.AttrNextHop, []byte{10, 0, 0}, false), lp), nlri)
	case "medLen5":
		body = wire.UpdateBody(nil, cat(origin, aspath, nh, lp, wire.Attr(0x80, wire.AttrMED, []byte{0, 0, 0, 0, 5}, false)), nlri)
	case "medLen5ext":
		body = wire.UpdateBody(nil, cat(origin, aspath, nh, lp, wire.Attr(0x80, wire.AttrMED, []byte{0, 0, 0, 0, 5}, true)), nlri)
	case "asPathTrunc":
		sz := 2
		if s.asn4 {
			sz = 4
		}
		v := append([]byte{2, 3}, make([]byte, sz)...) // segment announces 3 ASNs, only one follows
		body = wire.UpdateBody(nil, cat(origin, wire.Attr(0x40, wire.AttrASPath, v, false), nh, lp), nlri)
	case "pfxLen33":
		n := []byte{33, 10, 1, 0, 0, 0x80}
		if ap {
			n = append(wire.U32(0), n...)
		}
		body = wire.UpdateBody(nil, attrs, n)
	case "pfxLen129":
		n := append([]byte{129}, make([]byte, 17)...)
		n[1], n[2] = 0x20, 0x01
		if ap {
			n = append(wire.U32(0), n...)
		}
		v := append([]byte{0, 2, 1, 16}, []byte{0x20, 0x01, 0x0d, 0xb8, 0, 0, 0, 0, 0, 0, 0, 0, 0, 0, 0, 0xc9}...)
		v = append(v, 0)
		v = append(v, n...)
		body = wire.UpdateBody(nil, cat(wire.Attr(0x80, wire.AttrMPReach, v, false), s.validAttrs(true)), nil)
	case "noOrigin":
		body = wire.UpdateBody(nil, cat(aspath, nh, lp), nlri)
	case "noASPath":
		body = wire.UpdateBody(nil, cat(origin, nh, lp), nlri)
	case "noNextHop":
		body = wire.UpdateBody(nil, cat(origin, aspath, lp), nlri)
	case "mpNH32short":
		v := append([]byte{0, 2, 1, 32}, []byte{0x20, 0x01, 0x0d, 0xb8, 0, 0, 0, 0, 0, 0, 0, 0, 0, 0, 0, 0xc9, 0xfe, 0x80, 0, 0}...)
		body = wire.UpdateBody(nil, cat(wire.Attr(0x80, wire.AttrMPReach, v, false), s.validAttrs(true)), nil)
	case "annAas4aggr":
		body = wire.UpdateBody(nil, cat(attrs, wire.Attr(0xc0, 18, append(wire.U32(65001), 10, 0, 0, 9), false)), nlri)
	case "annAas4path":
		body = wire.UpdateBody(nil, cat(attrs, wire.Attr(0xc0, 17, append([]byte{2, 1}, wire.U32(70000)...), false)), nlri)
	case "annAaggr":
		body = wire.UpdateBody(nil, cat(attrs, wire.Attr(0x40, 6, nil, false), wire.Attr(0xc0, 7, []byte{0xfd, 0xe9, 10, 0, 0, 9}, false)), nlri)
	case "annAunk":
		body = wire.UpdateBody(nil, cat(attrs, wire.Attr(0xc0, 99, []byte{1, 2, 3, 4, 5}, false)), nlri)
	case "annAcomm":
		body = wire.UpdateBody(nil, cat(attrs, wire.Attr(0xc0, 8, append(wire.U32(65000<<16|1), wire.U32(65000<<16|2)...), false),
			wire.Attr(0xc0, 32, cat(wire.U32(65000), wire.U32(1), wire.U32(2)), false)), nlri)
	case "mpNoReserved":
		v := append([]byte{0, 2, 1, 16}, []byte{0x20, 0x01, 0x0d, 0xb8, 0, 0, 0, 0, 0, 0, 0, 0, 0, 0, 0, 0xc9}...)
		body = wire.UpdateBody(nil, cat(wire.Attr(0x80, wire.AttrMPReach, v, false), s.validAttrs(true)), nil)
	case "noAttrs":
		body = wire.UpdateBody(nil, nil, nlri)
	case "noNextHopMP": // IPv4 NLRI next to an MP_REACH_NLRI: the IPv6 next hop in there is not the NEXT_HOP of the IPv4 routes
		body = wire.UpdateBody(nil, cat(mpreach, origin, aspath, lp), nlri)
	case "mpNoOrigin":
		body = wire.UpdateBody(nil, cat(mpreach, aspath, lp), nil)
	case "mpNoASPath":
		body = wire.UpdateBody(nil, cat(mpreach, origin, lp), nil)
	case "nlriTrunc":
		n := []byte{24, 10, 1}
		if ap {
			n = append(wire.U32(0), n...)
		}
		body = wire.UpdateBody(nil, attrs, n)
	}
	return wire.Header(wire.TypeUpdate, body)
}

func garbageBytes(g string) []byte {
	k := wire.Header(wire.TypeKeepalive, nil)
	switch g {
	case "badMarker":
		k[3] = 0
	case "lenShort":
		k[16], k[17] = 0, 5
	case "len18":
		k[16], k[17] = 0, 18
	case "lenLong":
		k[16], k[17] = 0x13, 0x88 // 5000
	case "badType":
		k[18] = 9
	case "type0":
		k[18] = 0
	}
	return k
}

// observe projects the real state.
func (s *session) observe() sessState {
	o := sessState{St: "none", Conn: "none", NSess: s.nsess}
	if s.conn == nil {
		return o
	}
	raw, closed, _ := s.conn.snapshot()
	o.Conn = "open"
	if closed {
		o.Conn = "closed"
	}
	// with a short hold time (configured or offered by the peer) the speaker writes a KEEPALIVE every second or so
	shortHold := s.cfg.Hold < 30
	if f := s.fsm(); f != nil && f.HoldTime > 0 && f.HoldTime < 30*time.Second {
		shortHold = true
	}
	msgs, _, err := wire.SplitStream(raw)
	for _, m := range msgs {
		d, derr := wire.Decode(m, wire.Options{ASN4: s.asn4})
		e := struct {
			Kind string `json:"kind"`
			Code int    `json:"code"`
			Sub  int    `json:"sub"`
		}{Kind: "MALFORMED"}
		if derr == nil {
			switch d.Type {
			case wire.TypeOpen:
				e.Kind = "OPEN"
				if d.Open != nil && o.openProblem == "" {
					o.openProblem = s.openProblem(d.Open)
				}
			case wire.TypeKeepalive:
				e.Kind = "KEEPALIVE"
				o.keepalives++
				if shortHold && o.keepalives > 1 {
					continue // the periodic KEEPALIVEs of a short hold time are counted, not listed (the model's outbox has the first one)
				}
			case wire.TypeNotification:
				e.Kind, e.Code, e.Sub = "NOTIFICATION", d.Code, d.Subcode
			case wire.TypeUpdate:
				continue // UPDATEs the speaker sends (end-of-RIB, re-advertisements) are not part of this spec's outbox
			}
		}
		o.Out = append(o.Out, e)
	}
	if err != nil {
		o.Out = append(o.Out, struct {
			Kind string `json:"kind"`
			Code int    `json:"code"`
			Sub  int    `json:"sub"`
		}{Kind: "MALFORMED-STREAM"})
	}
	f := s.fsm()
	if f != nil {
		st := f.State
		if closed && (st == "active" || st == "connect") && (s.cfg.Active || s.lostIn == "OpenSent") {
			// an active peer's FSM starts over on its own; RFC 4271 sends OpenSent to Active when the connection fails. Everything else
			// has to end in Idle: the FSM of an accepted connection must not start dialling
			st = "idle"
		}
		switch st {
		case "idle", "cease":
			o.St = "Idle"
		case "openSent":
			o.St = "OpenSent"
		case "openConfirm":
			o.St = "OpenConfirm"
		case "established":
			o.St = "Established"
		default:
			o.St = f.State
		}
		o.Attached = f.RibsInitialized
		if o.St == "OpenConfirm" || o.St == "Established" {
			o.Hold = int(f.HoldTime / time.Second)
		}
		for _, r := range f.AdjRIBInV4 {
			for _, p := range r.Paths() {
				o.AdjIn = append(o.AdjIn, sessNLRI{Pfx: sessPfxName(r.Prefix()), PID: p.BGPPath.PathIdentifier})
			}
		}
		for _, r := range f.AdjRIBInV6 {
			for _, p := range r.Paths() {
				o.AdjIn = append(o.AdjIn, sessNLRI{Pfx: sessPfxName(r.Prefix()), PID: p.BGPPath.PathIdentifier})
			}
		}
		for _, r := range f.AdjRIBOutV4 {
			o.AdjOut = append(o.AdjOut, sessPfxName(r.Prefix()))
		}
	}
	if o.AdjOut == nil {
		o.AdjOut = []string{}
	}
	sort.Strings(o.AdjOut)
	return o
}

// openProblem compares the OPEN the speaker wrote with its configuration (C17: what it serialises decodes to the same content).
func (s *session) openProblem(o *wire.Open) string {
	hdrAS := int(s.localAS)
	if s.localAS > 65535 {
		hdrAS = 23456 // AS_TRANS
	}
	if o.Version != 4 || o.AS != hdrAS || o.HoldTime != s.cfg.Hold || o.ID != 100 {
		return fmt.Sprintf("version %d AS %d hold time %d identifier %d, configured: 4 / %d / %d / 100", o.Version, o.AS, o.HoldTime, o.ID, hdrAS, s.cfg.Hold)
	}
	role, as4 := -1, -1
	for _, c := range o.Caps {
		switch c.Code {
		case 9:
			if len(c.Value) != 1 {
				return fmt.Sprintf("role capability of %d bytes", len(c.Value))
			}
			role = int(c.Value[0])
		case 65:
			if len(c.Value) == 4 {
				as4 = int(c.Value[0])<<24 | int(c.Value[1])<<16 | int(c.Value[2])<<8 | int(c.Value[3])
			}
		}
	}
	if as4 != int(s.localAS) {
		return fmt.Sprintf("4-octet AS capability %d, configured AS %d", as4, s.localAS)
	}
	want := -1
	if !s.cfg.IBGP && s.cfg.Role != "none" && s.cfg.Role != "" {
		want = int(roleCap[s.cfg.Role])
	}
	if role != want {
		return fmt.Sprintf("role capability %d, configured role %q = %d in RFC 9234 (-1 = no capability)", role, s.cfg.Role, want)
	}
	return ""
}

func nlriKeys(ns []sessNLRI) []string {
	out := []string{}
	for _, n := range ns {
		out = append(out, fmt.Sprintf("%s#%d", n.Pfx, n.PID))
	}
	sort.Strings(out)
	return out
}

// locribKeys lists what the VRF's Loc-RIBs hold (prefix#pid).
func (s *session) locrib() []string {
	out := []string{}
	for _, r := range s.vrf.IPv4UnicastRIB().Dump() {
		for _, p := range r.Paths() {
			out = append(out, fmt.Sprintf("%s#%d", sessPfxName(r.Prefix()), p.BGPPath.PathIdentifier))
		}
	}
	for _, r := range s.vrf.IPv6UnicastRIB().Dump() {
		for _, p := range r.Paths() {
			out = append(out, fmt.Sprintf("%s#%d", sessPfxName(r.Prefix()), p.BGPPath.PathIdentifier))
		}
	}
	sort.Strings(out)
	return out
}

// learnedAttrsProblem checks the attributes of the Loc-RIB routes learned from the peer against what updateBytes sends:
// ORIGIN IGP, AS_PATH (peer AS | 65010 on iBGP, 65020), next hop 10.0.0.201 / 2001:db8::c9, LOCAL_PREF 100, no MED.
func (s *session) learnedAttrsProblem() string {
	first := uint32(65001)
	if s.cfg.IBGP {
		first = 65010
	}
	check := func(r *route.Route, v6 bool) string {
		name := sessPfxName(r.Prefix())
		if name == "o1" || name == "o2" || name == "l" {
			return ""
		}
		for _, p := range r.Paths() {
			b := p.BGPPath
			if p.Type != route.BGPPathType || b == nil || b.BGPPathA == nil {
				return fmt.Sprintf("%s: not a BGP path", name)
			}
			asns := []uint32{}
			if b.ASPath != nil {
				for _, seg := range *b.ASPath {
					asns = append(asns, seg.ASNs...)
				}
			}
			if fmt.Sprint(asns) != fmt.Sprint([]uint32{first, 65020}) {
				return fmt.Sprintf("%s: AS_PATH %v, sent [%d 65020]", name, asns, first)
			}
			wantNH := "10.0.0.201"
			if v6 {
				wantNH = "2001:db8::c9"
			}
			if b.BGPPathA.NextHop == nil || b.BGPPathA.NextHop.String() != wantNH {
				return fmt.Sprintf("%s: next hop %v, sent %s", name, b.BGPPathA.NextHop, wantNH)
			}
			if b.BGPPathA.Origin != 0 || b.BGPPathA.MED != 0 || b.BGPPathA.LocalPref != 100 || b.BGPPathA.EBGP == s.cfg.IBGP {
				return fmt.Sprintf("%s: origin %d MED %d LOCAL_PREF %d eBGP %v", name, b.BGPPathA.Origin, b.BGPPathA.MED, b.BGPPathA.LocalPref, b.BGPPathA.EBGP)
			}
			if b.BGPPathA.Source == nil || b.BGPPathA.Source.String() != "10.0.0.201" || b.BGPPathA.BGPIdentifier != s.peerID {
				return fmt.Sprintf("%s: source %v identifier %d, the peer is 10.0.0.201 / %d", name, b.BGPPathA.Source, b.BGPPathA.BGPIdentifier, s.peerID)
			}
		}
		return ""
	}
	for _, r := range s.vrf.IPv4UnicastRIB().Dump() {
		if p := check(r, false); p != "" {
			return p
		}
	}
	for _, r := range s.vrf.IPv6UnicastRIB().Dump() {
		if p := check(r, true); p != "" {
			return p
		}
	}
	return ""
}

// diff returns the first field in which the observation leaves the expectation ("" if none).
func (s *session) diff(exp sessState, got sessState, subs []int, malformedEarly bool) (field, kind string, want, have interface{}) {
	if exp.St != got.St {
		return "state", "wrong", exp.St, got.St
	}
	if exp.Conn != got.Conn {
		return "connection", "wrong", exp.Conn, got.Conn
	}
	// a KEEPALIVE written just before the NOTIFICATION that rejects an OPEN is not forbidden by the property: ignore it
	if n, m := len(got.Out), len(exp.Out); n == m+1 && m >= 1 && exp.Out[m-1].Kind == "NOTIFICATION" && exp.Out[m-1].Code == 2 &&
		got.Out[n-1].Kind == "NOTIFICATION" && got.Out[n-2].Kind == "KEEPALIVE" {
		got.Out = append(append(got.Out[:0:0], got.Out[:n-2]...), got.Out[n-1])
	}
	if got.openProblem != "" {
		return "open-content", "wrong", "the OPEN carries the configuration", got.openProblem
	}
	if len(exp.Out) != len(got.Out) {
		return "outbox", "wrong", exp.Out, got.Out
	}
	for i := range exp.Out {
		e, g := exp.Out[i], got.Out[i]
		if malformedEarly && i == len(exp.Out)-1 && e.Kind == "NOTIFICATION" && e.Code == 5 && g.Kind == "NOTIFICATION" && (g.Code == 3 || g.Code == 2) {
			continue // a malformed UPDATE / OPEN in a state that does not expect it may be answered as a malformed message or as an FSM error
		}
		if e.Kind != g.Kind || e.Code != g.Code {
			return "outbox", "wrong", exp.Out, got.Out
		}
		if e.Kind == "NOTIFICATION" && e.Code == 3 {
			// RFC 4271 6.3 leaves room in the choice of the UPDATE error subcode: the class lists the acceptable ones
			ok := len(subs) == 0
			for _, x := range subs {
				if x == g.Sub {
					ok = true
				}
			}
			if i == len(exp.Out)-1 && !ok {
				return "notification-subcode", "wrong", subs, g.Sub
			}
		} else if e.Sub != g.Sub {
			return "outbox", "wrong", exp.Out, got.Out
		}
	}
	if exp.Attached != got.Attached {
		return "attached", "wrong", exp.Attached, got.Attached
	}
	if k, _, _ := core.SetDiff(nlriKeys(exp.AdjIn), nlriKeys(got.AdjIn)); k != "" {
		return "adj-rib-in", k, nlriKeys(exp.AdjIn), nlriKeys(got.AdjIn)
	}
	// the Loc-RIB holds what the session learned while it is attached and its import policy accepts, plus the other source's routes
	wantLoc := nlriKeys(exp.Loc)
	if k, _, _ := core.SetDiff(wantLoc, s.locrib()); k != "" {
		return "loc-rib", k, wantLoc, s.locrib()
	}
	// what was learned from the peer carries the attributes the peer sent (C20: every NLRI gets the UPDATE's attributes)
	if p := s.learnedAttrsProblem(); p != "" {
		return "learned-attributes", "wrong", "the attributes of the UPDATE", p
	}
	// the Adj-RIB-Out holds the other source's routes while the session is attached and its export policy accepts
	wantOut := append([]string{}, exp.AdjOut...)
	sort.Strings(wantOut)
	if k, _, _ := core.SetDiff(wantOut, got.AdjOut); k != "" {
		return "adj-rib-out", k, wantOut, got.AdjOut
	}
	if (exp.St == "OpenConfirm" || exp.St == "Established") && exp.Hold != got.Hold {
		return "hold-time", "wrong", exp.Hold, got.Hold
	}
	// loop detection contribution: the local ASN counts as ours exactly while a session of the VRF is attached
	if c := s.vrf.IsContributingASN(s.localAS); c != exp.ASN {
		return "asn-contribution", "wrong", exp.ASN, c
	}
	if s.cfg.RRC == "default" || s.cfg.RRC == "explicit" {
		cid := uint32(100)
		if s.cfg.RRC == "explicit" {
			cid = 7
		}
		if c := s.vrf.IsContributingClusterID(cid); c != exp.Attached {
			return "cluster-id-contribution", "wrong", exp.Attached, c
		}
	}
	return "", "", nil, nil
}

func init() {
	core.Register("session", func(b *core.Behaviour, p core.Params) *core.Divergence {
		var s *session
		settle := time.Duration(p.Int("settle_ms", 40)) * time.Millisecond
		for i, st := range b.Steps {
			a := st.Str("a")
			core.At(i, a)
			var exp sessState
			st.Into("s", &exp)
			var subs []int
			malformedEarly := false
			class := ""
			wait := 3 * time.Second
			switch a {
			case "Config":
				var cfg sessCfg
				st.Into("cfg", &cfg)
				cfg.name = st.Str("cfgname")
				s = newSession(cfg)
			case "Connect":
				s.conn = newVconn(net.IPv4(10, 0, 0, 200).To4(), s.peerIP)
				s.lostIn = ""
				s.asn4, s.addpath = false, false
				s.nsess++
				if s.cfg.Active {
					// the dial of the peer's own FSM "succeeds": the connection is handed over where its TCP connector does it
					if !server.VerifDeliverConn(s.srv, s.vrf, s.peerKey, 0, s.conn, 5*time.Second) {
						return &core.Divergence{Step: i, Action: a, Field: "dial", Kind: "hang", Class: "active", Want: "the peer's own FSM takes its connection"}
					}
					break
				}
				select {
				case s.lm.ch <- tcp.ConnWithVRF{Conn: s.conn, VRF: s.vrf}:
				case <-time.After(3 * time.Second):
					return &core.Divergence{Step: i, Action: a, Field: "accept", Kind: "hang", Want: "connection accepted"}
				}
			case "RecvOpen":
				var o sessOpen
				st.Into("open", &o)
				class = st.Str("o")
				// what this connection negotiates if the OPEN is accepted
				malformedEarly = o.Version != 4 || o.ID == "zero"
				if exp.St != "Idle" {
					s.asn4 = o.AS4 != "none"
					s.addpath = st.Bool("ap") // negotiated: the configuration wants it and the OPEN advertises it
				}
				s.noAP = st.Bool("noap")
				s.openClass = st.Str("o")
				s.conn.peerSend(s.openBytes(o))
			case "RecvKeepalive":
				s.conn.peerSend(wire.Header(wire.TypeKeepalive, nil))
			case "RecvUpdate":
				var u sessUpd
				st.Into("upd", &u)
				class = st.Str("u")
				subs = u.Subs
				malformedEarly = !u.OK
				s.conn.peerSend(s.updateBytes(st.Str("u"), u))
			case "RecvGarbage":
				class = st.Str("g")
				s.conn.peerSend(garbageBytes(st.Str("g")))
			case "RecvNotification":
				class = st.Str("n")
				body := []byte{byte(st.Int("code")), byte(st.Int("sub"))}
				for k := 0; k < st.Int("datalen"); k++ {
					body = append(body, byte(k+1))
				}
				s.conn.peerSend(wire.Header(wire.TypeNotification, body))
			case "SetImport", "SetExport":
				ch := filter.NewAcceptAllFilterChain()
				if st.Str("p") == "reject" {
					ch = filter.NewDrainFilterChain()
				}
				class = a + ":" + st.Str("p")
				var err error
				if a == "SetImport" {
					err = s.srv.ReplaceImportFilterChain(s.vrf, s.peerKey, ch)
				} else {
					err = s.srv.ReplaceExportFilterChain(s.vrf, s.peerKey, ch)
				}
				if err != nil {
					return &core.Divergence{Step: i, Action: a, Field: "api", Kind: "error", Class: class, Got: err.Error()}
				}
			case "Originate", "Unoriginate":
				w := sessPfx[st.Str("x")]
				pfx := bnet.NewPfx(bnet.IPv4FromOctets(w.Addr[0], w.Addr[1], 0, 0), uint8(w.Len)).Ptr()
				p := buildRibPath(ribPath{LP: 100, NH: 77, ASP: []uint32{65077}}, false, true, bnet.IPv4FromOctets(10, 0, 0, 77).Ptr(), nil)
				if a == "Originate" {
					s.vrf.IPv4UnicastRIB().AddPath(pfx, p)
				} else {
					s.vrf.IPv4UnicastRIB().RemovePath(pfx, p)
				}
			case "Sustain":
				// the peer sends a KEEPALIVE every second for longer than the hold time; the speaker must send its own meanwhile
				before := s.observe().keepalives
				secs := st.Int("seconds")
				for k := 0; k < secs; k++ {
					s.conn.peerSend(wire.Header(wire.TypeKeepalive, nil))
					time.Sleep(time.Second)
				}
				if got := s.observe(); got.St == "Established" && got.keepalives-before < secs/2 {
					return &core.Divergence{Step: i, Action: a, Field: "keepalives-sent", Kind: "wrong", Class: class,
						Want: fmt.Sprintf("at least %d KEEPALIVEs in %d s (hold time %d s)", secs/2, secs, exp.Hold), Got: got.keepalives - before}
				}
			case "ConnLost":
				s.lostIn = st.Str("from")
				s.conn.mu.Lock()
				s.conn.peerGone = true
				s.conn.cond.Broadcast()
				s.conn.mu.Unlock()
				wait = 4 * time.Second
			case "Wait":
				time.Sleep(2200 * time.Millisecond) // the periodic timer checks of the FSM run once per second
			case "HoldExpires":
				server.VerifAgeHoldTimer(s.srv, s.vrf, s.peerKey, time.Hour)
				wait = 10 * time.Second // the periodic check runs once per second and competes with the keepalive timer
			case "HoldExpiresNoWrite":
				s.conn.mu.Lock()
				s.conn.failWrites = true
				s.conn.mu.Unlock()
				server.VerifAgeHoldTimer(s.srv, s.vrf, s.peerKey, time.Hour)
				wait = 10 * time.Second
			case "WriteFails":
				s.conn.mu.Lock()
				s.conn.failWrites = true
				s.conn.mu.Unlock()
				wait = 4 * time.Second
			case "ManualStop":
				if !server.VerifFSMEvent(s.srv, s.vrf, s.peerKey, -1, server.ManualStop, 3*time.Second) {
					return &core.Divergence{Step: i, Action: a, Field: "event", Kind: "hang", Want: "FSM takes the ManualStop event"}
				}
			default:
				panic("harness: unknown action " + a)
			}
			// wait until the observation equals the expectation (the FSM runs in its own goroutines), then let it settle
			// and look again: the expected state must be stable
			deadline := time.Now().Add(wait)
			var field, kind string
			var want, have interface{}
			for {
				field, kind, want, have = s.diff(exp, s.observe(), subs, malformedEarly)
				if field == "" || time.Now().After(deadline) {
					break
				}
				time.Sleep(2 * time.Millisecond)
			}
			if field == "" {
				time.Sleep(settle)
				field, kind, want, have = s.diff(exp, s.observe(), subs, malformedEarly)
			}
			if field != "" {
				return &core.Divergence{Step: i, Action: a, Field: field, Kind: kind, Class: class, Want: want, Got: have,
					Detail: fmt.Sprintf("expected state %s; local cfg %+v", exp.St, s.cfg)}
			}
		}
		return nil
	})
}

func sessRoleConfig(r string) uint8 {
	// PeerConfig.PeerRole uses the repository's own numbering (0 = off); see protocols/bgp/server/peer_role.go
	switch r {
	case "provider":
		return server.PeerConfigRoleProvider
	case "rs":
		return server.PeerConfigRoleRS
	case "rsclient":
		return server.PeerConfigRoleRSClient
	case "customer":
		return server.PeerConfigRoleCustomer
	case "peer":
		return server.PeerConfigRolePeer
	}
	return server.PeerConfigRoleOff
}
