package adapters

import (
	"fmt"
	"net"
	"time"

	"github.com/bio-routing/bio-rd/net/tcp"
	"github.com/bio-routing/bio-rd/protocols/bgp/server"
	"github.com/bio-routing/bio-rd/routingtable/filter"

	"verifharness/core"
	"verifharness/wire"
)

// Spec Conc (C25), server level: session control (DisposePeer = peer.stop + removal) and policy replacement through the
// server, concurrent with what the FSM goroutines do, on a real bgpServer with a passive eBGP peer (see collision.go).

func (s *collSession) connect(c int) error {
	vc := newVconn(net.IPv4(10, 0, 0, 200).To4(), s.peerIP)
	vc.remote = &net.TCPAddr{IP: s.peerIP, Port: 40000 + c}
	s.conns[c] = vc
	select {
	case s.lm.ch <- tcp.ConnWithVRF{Conn: vc, VRF: s.vrf}:
		return nil
	case <-time.After(3 * time.Second):
		return fmt.Errorf("connection %d not accepted within 3 s", c)
	}
}

func (s *collSession) openMsg() []byte {
	caps := []wire.Cap{{Code: 65, Value: wire.U32(s.peerAS)}}
	return wire.Header(wire.TypeOpen, wire.OpenBody(4, int(s.peerAS), 90, s.peerID, caps))
}

func (s *collSession) updateMsg(a, b int, announce bool) []byte {
	n := wire.EncNLRI([]wire.NLRI{{AFI: wire.AFIIPv4, Len: 24, Addr: []byte{10, byte(a), byte(b)}}}, false)
	if !announce {
		return wire.Header(wire.TypeUpdate, wire.UpdateBody(n, nil, nil))
	}
	attrs := wire.Attr(0x40, wire.AttrOrigin, []byte{0}, false)
	attrs = append(attrs, wire.Attr(0x40, wire.AttrASPath, wire.EncASPath([]wire.Segment{{Type: wire.ASSequence, ASNs: []uint32{s.peerAS, 65020}}}, true), false)...)
	attrs = append(attrs, wire.Attr(0x40, wire.AttrNextHop, []byte{10, 0, 0, 201}, false)...)
	return wire.Header(wire.TypeUpdate, wire.UpdateBody(nil, attrs, n))
}

// waitState waits until connection c's FSM reports state st.
func (s *collSession) waitState(c int, st string, d time.Duration) error {
	deadline := time.Now().Add(d)
	last := ""
	for time.Now().Before(deadline) {
		o, ok := s.observe(c)
		if !ok {
			return fmt.Errorf("the peer's FSM list cannot be read (a lock is held forever)")
		}
		last = o.CS[c-1].St
		if last == st {
			return nil
		}
		time.Sleep(2 * time.Millisecond)
	}
	return fmt.Errorf("connection %d: state %s, expected %s", c, last, st)
}

func (s *collSession) establish(c int) error {
	if err := s.connect(c); err != nil {
		return err
	}
	if err := s.waitState(c, "OpenSent", 3*time.Second); err != nil {
		return err
	}
	s.conns[c].peerSend(s.openMsg())
	if err := s.waitState(c, "OpenConfirm", 3*time.Second); err != nil {
		return err
	}
	s.conns[c].peerSend(wire.Header(wire.TypeKeepalive, nil))
	return s.waitState(c, "Established", 3*time.Second)
}

func (s *collSession) locHas(a, b int) bool {
	for _, r := range s.vrf.IPv4UnicastRIB().Dump() {
		x := r.Prefix().Addr().Bytes()
		if r.Prefix().Len() == 24 && x[0] == 10 && x[1] == byte(a) && x[2] == byte(b) {
			return true
		}
	}
	return false
}

// within runs f and reports whether it returned in time.
func within(d time.Duration, f func()) bool {
	done := make(chan struct{})
	go func() { f(); close(done) }()
	select {
	case <-done:
		return true
	case <-time.After(d):
		return false
	}
}

func init() {
	core.Register("concsrv", func(b *core.Behaviour, p core.Params) *core.Divergence {
		kind := b.Steps[0].Str("kind")
		core.At(0, "SrvScenario")
		reps := p.Int("reps", 120)
		rounds := p.Int("rounds", 2)
		deadline := time.Duration(p.Int("deadline_ms", 8000)) * time.Millisecond
		hang := func(r int, what string) *core.Divergence {
			return &core.Divergence{Step: 0, Action: "SrvScenario", Field: "completion", Kind: "hang", Class: kind, Want: what + " returns",
				Got: fmt.Sprintf("no return within %s", deadline), Detail: fmt.Sprintf("round %d; goroutines blocked in: %s", r+1, blockedIn())}
		}
		setup := func(r int, err error) *core.Divergence {
			return &core.Divergence{Step: 0, Action: "SrvScenario", Field: "setup", Kind: "wrong", Class: kind, Got: err.Error(), Detail: fmt.Sprintf("round %d", r+1)}
		}
		for r := 0; r < rounds; r++ {
			s := newCollSession("localLower")
			dispose := func() { s.srv.DisposePeer(s.vrf, s.peerKey) }
			switch kind {
			case "dispose-idle":
				if !within(deadline, dispose) {
					return hang(r, "DisposePeer of a peer that never had a connection")
				}
			case "dispose-established":
				if err := s.establish(1); err != nil {
					return setup(r, err)
				}
				s.conns[1].peerSend(s.updateMsg(1, 1, true))
				if !within(deadline, dispose) {
					return hang(r, "DisposePeer of a peer with an established session")
				}
				ok := false
				for t := time.Now(); time.Since(t) < 3*time.Second; time.Sleep(2 * time.Millisecond) {
					if _, closed, _ := s.conns[1].snapshot(); closed && !s.locHas(1, 1) {
						ok = true
						break
					}
				}
				if !ok {
					return &core.Divergence{Step: 0, Action: "SrvScenario", Field: "after-dispose", Kind: "wrong", Class: kind,
						Want: "connection closed and the session's routes gone", Got: "connection open or routes still in the Loc-RIB"}
				}
			case "dispose-after-session":
				if err := s.establish(1); err != nil {
					return setup(r, err)
				}
				s.conns[1].peerSend(wire.Header(wire.TypeNotification, []byte{6, 0}))
				if err := s.waitState(1, "Closed", 3*time.Second); err != nil {
					return setup(r, err)
				}
				if !within(deadline, dispose) {
					return hang(r, "DisposePeer after the peer ended its session")
				}
			case "dispose-after-collision":
				if err := s.connect(1); err != nil {
					return setup(r, err)
				}
				if err := s.connect(2); err != nil {
					return setup(r, err)
				}
				s.conns[1].peerSend(s.openMsg())
				if err := s.waitState(1, "OpenConfirm", 3*time.Second); err != nil {
					return setup(r, err)
				}
				s.conns[2].peerSend(s.openMsg()) // local identifier lower: connection 1 loses
				if err := s.waitState(1, "Closed", 3*time.Second); err != nil {
					return setup(r, err)
				}
				if !within(deadline, dispose) {
					return hang(r, "DisposePeer after a connection collision (one FSM has ceased)")
				}
			case "dispose-during-open":
				if err := s.establish(1); err != nil {
					return setup(r, err)
				}
				if err := s.connect(2); err != nil {
					return setup(r, err)
				}
				if err := s.waitState(2, "OpenSent", 3*time.Second); err != nil {
					return setup(r, err)
				}
				g := collGates.armAt("collision-check-begins", s.conns[2].remote.String())
				s.conns[2].peerSend(s.openMsg())
				select {
				case <-g.arrived:
				case <-time.After(3 * time.Second):
					collGates.releaseAll()
					return setup(r, fmt.Errorf("connection 2 did not reach its collision check"))
				}
				done := make(chan struct{})
				go func() { dispose(); close(done) }()
				time.Sleep(50 * time.Millisecond) // DisposePeer is now handing ManualStop to the FSMs; FSM 2 is about to ask for the FSM list
				collGates.releaseAll()
				select {
				case <-done:
				case <-time.After(deadline):
					return hang(r, "DisposePeer while another connection of the peer handles its OPEN")
				}
			case "dispose-with-queued-cease":
				// the peer's own FSM is in its reconnect pause (it takes no events for a while); a Cease is already waiting for it when
				// DisposePeer hands it ManualStop: the FSM takes the Cease first and ends
				s = newCollSessionPause("localLower", 300*time.Millisecond)
				dispose = func() { s.srv.DisposePeer(s.vrf, s.peerKey) }
				time.Sleep(30 * time.Millisecond)
				go server.VerifFSMEvent(s.srv, s.vrf, s.peerKey, 0, server.Cease, 5*time.Second)
				time.Sleep(30 * time.Millisecond)
				if !within(deadline, dispose) {
					return hang(r, "DisposePeer while a Cease is already queued for an FSM in its reconnect pause")
				}
			case "export-while-updates", "import-while-updates":
				if err := s.establish(1); err != nil {
					return setup(r, err)
				}
				done := make(chan string, 2)
				go func() {
					for i := 0; i < reps; i++ {
						s.conns[1].peerSend(s.updateMsg(1, i%8, true))
						s.conns[1].peerSend(s.updateMsg(1, i%8, false))
					}
					s.conns[1].peerSend(s.updateMsg(2, 2, true))
					done <- "updates"
				}()
				go func() {
					for i := 0; i < reps; i++ {
						for _, ch := range []filter.Chain{filter.NewDrainFilterChain(), filter.NewAcceptAllFilterChain()} {
							if kind == "export-while-updates" {
								s.srv.ReplaceExportFilterChain(s.vrf, s.peerKey, ch)
							} else {
								s.srv.ReplaceImportFilterChain(s.vrf, s.peerKey, ch)
							}
						}
					}
					done <- "policy"
				}()
				for k := 0; k < 2; k++ {
					select {
					case <-done:
					case <-time.After(deadline):
						return hang(r, "policy replacement through the server while the peer sends UPDATEs")
					}
				}
				ok := false
				for t := time.Now(); time.Since(t) < deadline; time.Sleep(2 * time.Millisecond) {
					if s.locHas(2, 2) {
						ok = true
						break
					}
				}
				if !ok {
					return &core.Divergence{Step: 0, Action: "SrvScenario", Field: "completion", Kind: "hang", Class: kind,
						Want: "the session processes all UPDATEs", Got: "the last announced route never reached the Loc-RIB",
						Detail: fmt.Sprintf("round %d; goroutines blocked in: %s", r+1, blockedIn())}
				}
				if !within(deadline, dispose) {
					return hang(r, "DisposePeer afterwards")
				}
			default:
				panic("harness: unknown server scenario " + kind)
			}
			// the server is usable: the peer can be configured again
			if !within(deadline, func() { s.srv.GetPeers() }) {
				return hang(r, "GetPeers afterwards")
			}
		}
		return nil
	})
}
