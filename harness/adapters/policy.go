package adapters

import (
	"encoding/json"
	"fmt"

	bnet "github.com/bio-routing/bio-rd/net"
	"github.com/bio-routing/bio-rd/route"
	"github.com/bio-routing/bio-rd/routingtable/filter"
	"github.com/bio-routing/bio-rd/routingtable/filter/actions"

	"verifharness/core"
)

// Spec Policy / PolicyCases (C14).

type polRF struct {
	Pat []int  `json:"pat"`
	M   string `json:"m"`
	Min int    `json:"min"`
	Max int    `json:"max"`
}
type polCond struct {
	RFs    []polRF   `json:"rfs"`
	PLs    [][][]int `json:"pls"`
	Protos []string  `json:"protos"`
}
type polAct struct {
	K string `json:"k"`
	V uint32 `json:"v"`
	N int    `json:"n"`
}
type polTerm struct {
	From []polCond `json:"from"`
	Then []polAct  `json:"then"`
}
type polChain [][]polTerm

type polPath struct {
	Type string   `json:"type"`
	LP   uint32   `json:"lp"`
	MED  uint32   `json:"med"`
	NH   uint32   `json:"nh"`
	ASP  []uint32 `json:"asp"`
}

func (p polPath) rec() PathRec {
	asn := p.ASP
	if asn == nil {
		asn = []uint32{}
	}
	return PathRec{Type: p.Type, LP: p.LP, MED: p.MED, NH: p.NH, ASN: asn, CL: -1, ID: 1, Src: 1}
}

func buildChain(c polChain, emb Embedding) filter.Chain {
	out := filter.Chain{}
	for fi, f := range c {
		terms := []*filter.Term{}
		for ti, t := range f {
			conds := []*filter.TermCondition{}
			for _, cd := range t.From {
				if len(cd.Protos) > 0 {
					ps := []uint8{}
					for _, p := range cd.Protos {
						if p == "static" {
							ps = append(ps, route.StaticPathType)
						} else {
							ps = append(ps, route.BGPPathType)
						}
					}
					conds = append(conds, filter.NewTermConditionWithProtocols(ps...))
					continue
				}
				pls := []*filter.PrefixList{}
				for _, pl := range cd.PLs {
					ps := []*bnet.Prefix{}
					for _, x := range pl {
						ps = append(ps, emb.Pfx(bitsOf(x)).Dedup())
					}
					pls = append(pls, filter.NewPrefixList(ps...))
				}
				rfs := []*filter.RouteFilter{}
				for _, rf := range cd.RFs {
					var m filter.PrefixMatcher
					switch rf.M {
					case "exact":
						m = filter.NewExactMatcher()
					case "orlonger":
						m = filter.NewOrLongerMatcher()
					case "longer":
						m = filter.NewLongerMatcher()
					case "range":
						m = filter.NewInRangeMatcher(uint8(emb.Offset+rf.Min), uint8(emb.Offset+rf.Max))
					default:
						panic("harness: matcher " + rf.M)
					}
					// patterns are deduplicated (shared pointers) so that RouteFilter.equal, which compares pointers, can succeed
					rfs = append(rfs, filter.NewRouteFilter(emb.Pfx(bitsOf(rf.Pat)).Dedup(), m))
				}
				conds = append(conds, filter.NewTermCondition(pls, rfs))
			}
			acts := []actions.Action{}
			for _, a := range t.Then {
				switch a.K {
				case "accept":
					acts = append(acts, actions.NewAcceptAction())
				case "reject":
					acts = append(acts, actions.NewRejectAction())
				case "lp":
					acts = append(acts, actions.NewSetLocalPrefAction(a.V))
				case "med":
					acts = append(acts, actions.NewSetMEDAction(a.V))
				case "nh":
					acts = append(acts, actions.NewSetNextHopAction(addr(emb.V6, a.V).Ptr()))
				case "prepend":
					acts = append(acts, actions.NewASPathPrependAction(a.V, uint16(a.N)))
				default:
					panic("harness: action " + a.K)
				}
			}
			terms = append(terms, filter.NewTerm(fmt.Sprintf("t%d_%d", fi, ti), conds, acts))
		}
		out = append(out, filter.NewFilter(fmt.Sprintf("f%d", fi), terms))
	}
	return out
}

func projectPolPath(p *route.Path, v6 bool) polPath {
	out := polPath{ASP: []uint32{}}
	if p == nil {
		out.Type = "nil"
		return out
	}
	nhOf := func(ip *bnet.IP) uint32 {
		if ip == nil {
			return 0xffffffff
		}
		if v6 {
			return uint32(ip.Lower())
		}
		return ip.ToUint32() &^ 0x0a000000
	}
	switch p.Type {
	case route.StaticPathType:
		out.Type = "static"
		out.NH = nhOf(p.StaticPath.NextHop)
	case route.BGPPathType:
		out.Type = "bgp"
		out.LP = p.BGPPath.BGPPathA.LocalPref
		out.MED = p.BGPPath.BGPPathA.MED
		out.NH = nhOf(p.BGPPath.BGPPathA.NextHop)
		if p.BGPPath.ASPath != nil {
			for _, seg := range *p.BGPPath.ASPath {
				out.ASP = append(out.ASP, seg.ASNs...)
			}
		}
	}
	return out
}

// firstDiff names the leaf at which two JSON trees differ (class of a chain mutation).
func firstDiff(a, b interface{}, path string) string {
	switch x := a.(type) {
	case map[string]interface{}:
		y, ok := b.(map[string]interface{})
		if !ok {
			return path
		}
		for _, k := range sortedKeys(x) {
			if d := firstDiff(x[k], y[k], k); d != "" {
				return d
			}
		}
	case []interface{}:
		y, ok := b.([]interface{})
		if !ok || len(x) != len(y) {
			return path + "[len]"
		}
		for i := range x {
			if d := firstDiff(x[i], y[i], path); d != "" {
				return d
			}
		}
	default:
		if !core.EqualJSON(a, b) {
			return path
		}
	}
	return ""
}

func init() {
	core.Register("policy", func(b *core.Behaviour, p core.Params) *core.Divergence {
		st := b.Steps[0]
		core.At(0, "Policy")
		emb := getEmbedding(p.Str("emb", "v4o8"))
		var ch polChain
		st.Into("chain", &ch)
		var paths map[string]polPath
		st.Into("paths", &paths)
		var res []struct {
			Pfx  []int  `json:"pfx"`
			Path string `json:"path"`
			Out  struct {
				Path   polPath `json:"path"`
				Reject bool    `json:"reject"`
			} `json:"out"`
		}
		st.Into("res", &res)
		chain := buildChain(ch, emb)
		for _, r := range res {
			in := paths[r.Path].rec().Build(emb.V6)
			snapshot := projectPolPath(in, emb.V6)
			pfx := emb.Pfx(bitsOf(r.Pfx))
			out, reject := chain.Process(pfx, in)
			detail := fmt.Sprintf("emb=%s pfx=/%s (%s) path=%s", emb.Name, bitsOf(r.Pfx), pfx, r.Path)
			if reject != r.Out.Reject {
				return &core.Divergence{Action: "Policy", Field: "verdict", Kind: "wrong", Class: fmt.Sprintf("want-reject=%v", r.Out.Reject),
					Want: r.Out.Reject, Got: reject, Detail: detail}
			}
			if !reject {
				got := projectPolPath(out, emb.V6)
				want := r.Out.Path
				if want.ASP == nil {
					want.ASP = []uint32{}
				}
				if !core.EqualJSON(want, got) {
					return &core.Divergence{Action: "Policy", Field: "rewritten-path", Kind: "wrong", Class: r.Path, Want: want, Got: got, Detail: detail}
				}
			}
			// the input path object must not have been modified by evaluation (C13 overlap, cheap to check here)
			if after := projectPolPath(in, emb.V6); !core.EqualJSON(snapshot, after) {
				return &core.Divergence{Action: "Policy", Field: "input-mutated", Kind: "wrong", Class: r.Path, Want: snapshot, Got: after, Detail: detail}
			}
		}
		// Chain.Equal: chains that compare equal must be outcome-equivalent
		var alts []struct {
			Chain json.RawMessage `json:"chain"`
			Same  bool            `json:"same"`
		}
		st.Into("alts", &alts)
		if !chain.Equal(buildChain(ch, emb)) {
			// an identically rebuilt chain comparing unequal is safe (only costs a refresh): not a violation
			_ = 0
		}
		for _, alt := range alts {
			var d polChain
			if err := json.Unmarshal(alt.Chain, &d); err != nil {
				panic("harness: alt chain: " + err.Error())
			}
			dc := buildChain(d, emb)
			if (chain.Equal(dc) || dc.Equal(chain)) && !alt.Same {
				var ja, jb interface{}
				json.Unmarshal(st["chain"], &ja)
				json.Unmarshal(alt.Chain, &jb)
				return &core.Divergence{Action: "Policy", Field: "chain-equal", Kind: "wrong", Class: firstDiff(ja, jb, ""),
					Want: "Equal = false (outcomes differ)", Got: "Equal = true", Detail: string(alt.Chain)}
			}
		}
		return nil
	})
}
