package adapters

import (
	"fmt"
	"net"
	"sort"
	"sync"
	"time"

	bnet "github.com/bio-routing/bio-rd/net"
	"github.com/bio-routing/bio-rd/net/tcp"
	"github.com/bio-routing/bio-rd/protocols/bgp/server"
	"github.com/bio-routing/bio-rd/routingtable"
	"github.com/bio-routing/bio-rd/routingtable/filter"
	"github.com/bio-routing/bio-rd/routingtable/vrf"

	"verifharness/core"
	"verifharness/wire"
)

// Spec Collision (C24): a real bgpServer with one passive eBGP peer; the harness (the remote speaker) opens several
// connections for that peer through its own tcp.ListenerManagerI. Every accepted connection gets its own FSM
// (server.incomingConnectionWorker); connection k is FSM k-1 of the peer (a passive peer has no FSM of its own).
// With outgoing = true the peer is active: its own FSM dials (tcp.Dial fails offline) and is handed connection 1 through
// the verif hook at the point where its TCP connector would deliver the dialled connection.

type collMsg struct {
	Kind string `json:"kind"`
	Code int    `json:"code"`
}
type collConn struct {
	C   int       `json:"c"`
	St  string    `json:"st"`
	Out []collMsg `json:"out"`
}
type collState struct {
	CS  []collConn `json:"cs"`
	Loc []int      `json:"loc"`
}

type collSession struct {
	srv     server.BGPServer
	lm      *vlm
	vrf     *vrf.VRF
	peerIP  net.IP
	peerKey *bnet.IP
	peerAS  uint32
	peerID  uint32
	conns   map[int]*vconn
}

func newCollSession(order string) *collSession { return newCollSessionDir(order, false) }

// outgoing: the peer is not passive; its own FSM (index 0) waits for the connection its TCP connector dials
func newCollSessionDir(order string, outgoing bool) *collSession {
	return newCollSessionCfg(order, outgoing, 5*time.Millisecond)
}

// newCollSessionPause: an active peer whose own FSM pauses that long in Idle before it starts dialling
func newCollSessionPause(order string, pause time.Duration) *collSession {
	return newCollSessionCfg(order, true, pause)
}

func newCollSessionCfg(order string, outgoing bool, reconnect time.Duration) *collSession {
	s := &collSession{peerIP: net.IPv4(10, 0, 0, 201).To4(), peerAS: 65001, peerID: 201, conns: map[int]*vconn{}}
	switch order { // the speaker: BGP identifier 100, AS 65000
	case "localLower":
	case "localHigher":
		s.peerID = 50
	case "sameIdLocalASLower":
		s.peerID = 100
	case "sameIdLocalASHigher":
		s.peerID, s.peerAS = 100, 64999
	default:
		panic("harness: unknown order " + order)
	}
	s.vrf = vrf.NewUntrackedVRF("main", 0)
	s.vrf.CreateIPv4UnicastLocRIB("inet.0")
	s.vrf.CreateIPv6UnicastLocRIB("inet6.0")
	s.srv = server.NewBGPServer(server.BGPServerConfig{RouterID: 100, DefaultVRF: s.vrf})
	s.lm = &vlm{ch: make(chan tcp.ConnWithVRF)}
	s.srv.SetListenerManager(s.lm)
	s.srv.Start()
	af := func() *server.AddressFamilyConfig {
		return &server.AddressFamilyConfig{ImportFilterChain: filter.NewAcceptAllFilterChain(), ExportFilterChain: filter.NewAcceptAllFilterChain(),
			AddPathSend: routingtable.ClientOptions{BestOnly: true}}
	}
	pa, _ := bnet.IPFromBytes(s.peerIP)
	s.peerKey = pa.Dedup()
	pc := server.PeerConfig{AdminEnabled: true, LocalAS: 65000, PeerAS: s.peerAS, LocalAddress: bnet.IPv4FromOctets(10, 0, 0, 200).Ptr(),
		PeerAddress: s.peerKey, Passive: !outgoing, VRF: s.vrf, RouterID: 100, HoldTime: 90 * time.Second, KeepAlive: 30 * time.Second, IPv4: af()}
	if outgoing {
		pc.ReconnectInterval = reconnect // the peer's own FSM starts dialling on its own after this pause
	}
	if err := s.srv.AddPeer(pc); err != nil {
		panic("harness: AddPeer: " + err.Error())
	}
	return s
}

func collPrefix(c int) wire.NLRI {
	return wire.NLRI{AFI: wire.AFIIPv4, Len: 16, Addr: []byte{10, byte(100 + c)}}
}

// observe projects the real state; ok = false if the server does not answer (a lock is held forever).
func (s *collSession) observe(n int) (collState, bool) {
	type res struct{ fsms []server.VerifFSMInfo }
	ch := make(chan res, 1)
	go func() { ch <- res{server.VerifPeerFSMs(s.srv, s.vrf, s.peerKey)} }()
	var fsms []server.VerifFSMInfo
	select {
	case r := <-ch:
		fsms = r.fsms
	case <-time.After(5 * time.Second):
		return collState{}, false
	}
	o := collState{Loc: []int{}}
	for c := 1; c <= n; c++ {
		cc := collConn{C: c, St: "none", Out: []collMsg{}}
		if vc := s.conns[c]; vc != nil {
			raw, closed, _ := vc.snapshot()
			msgs, _, err := wire.SplitStream(raw)
			for _, m := range msgs {
				d, derr := wire.Decode(m, wire.Options{ASN4: true})
				switch {
				case derr != nil:
					cc.Out = append(cc.Out, collMsg{Kind: "MALFORMED"})
				case d.Type == wire.TypeOpen:
					cc.Out = append(cc.Out, collMsg{Kind: "OPEN"})
				case d.Type == wire.TypeKeepalive:
					cc.Out = append(cc.Out, collMsg{Kind: "KEEPALIVE"})
				case d.Type == wire.TypeNotification:
					cc.Out = append(cc.Out, collMsg{Kind: "NOTIFICATION", Code: d.Code})
				}
			}
			if err != nil {
				cc.Out = append(cc.Out, collMsg{Kind: "MALFORMED-STREAM"})
			}
			st := "no-fsm"
			if c-1 < len(fsms) {
				st = fsms[c-1].State
			}
			if closed && (st == "connect" || st == "active") {
				st = "idle" // the peer's own FSM is ready to dial again
			}
			switch st {
			case "idle", "cease":
				cc.St = "Closed"
				if !closed {
					cc.St = "Closed-but-connection-open"
				}
			case "openSent":
				cc.St = "OpenSent"
			case "openConfirm":
				cc.St = "OpenConfirm"
			case "established":
				cc.St = "Established"
			default:
				cc.St = st
			}
			if closed && (cc.St == "OpenSent" || cc.St == "OpenConfirm" || cc.St == "Established") {
				cc.St += "-but-connection-closed"
			}
		}
		o.CS = append(o.CS, cc)
	}
	for _, r := range s.vrf.IPv4UnicastRIB().Dump() {
		for c := 1; c <= n; c++ {
			w := collPrefix(c)
			if int(r.Prefix().Len()) == w.Len && r.Prefix().Addr().Bytes()[1] == w.Addr[1] {
				o.Loc = append(o.Loc, c)
			}
		}
	}
	sort.Ints(o.Loc)
	return o, true
}

func collDiff(exp, got collState) (field string, want, have interface{}) {
	sort.Slice(exp.CS, func(i, j int) bool { return exp.CS[i].C < exp.CS[j].C })
	est := 0
	for _, g := range got.CS {
		if g.St == "Established" {
			est++
		}
	}
	if est > 1 {
		return "established-sessions", "at most one", est
	}
	for i, e := range exp.CS {
		g := got.CS[i]
		if e.St != g.St {
			return fmt.Sprintf("state"), fmt.Sprintf("connection %d: %s", e.C, e.St), fmt.Sprintf("connection %d: %s", g.C, g.St)
		}
		if fmt.Sprint(e.Out) != fmt.Sprint(g.Out) {
			return "outbox", fmt.Sprintf("connection %d: %v", e.C, e.Out), fmt.Sprintf("connection %d: %v", g.C, g.Out)
		}
	}
	sort.Ints(exp.Loc)
	if fmt.Sprint(exp.Loc) != fmt.Sprint(got.Loc) {
		return "loc-rib", exp.Loc, got.Loc
	}
	return "", nil, nil
}

// collGates parks FSM goroutines at named points (server.VerifGate) of armed connections.
type collGate struct {
	arrived chan struct{}
	release chan struct{}
}
type collGateSet struct {
	mu sync.Mutex
	m  map[string]*collGate
}

var collGates = &collGateSet{m: map[string]*collGate{}}

func (g *collGateSet) arm(remote string) *collGate { return g.armAt("collision-check-passed", remote) }
func (g *collGateSet) armAt(point, remote string) *collGate {
	g.mu.Lock()
	defer g.mu.Unlock()
	x := &collGate{arrived: make(chan struct{}, 1), release: make(chan struct{})}
	g.m[point+"|"+remote] = x
	return x
}
func (g *collGateSet) releaseAll() {
	g.mu.Lock()
	defer g.mu.Unlock()
	for k, x := range g.m {
		close(x.release)
		delete(g.m, k)
	}
}
func (g *collGateSet) hit(point, remote string) {
	g.mu.Lock()
	x := g.m[point+"|"+remote]
	g.mu.Unlock()
	if x == nil {
		return
	}
	x.arrived <- struct{}{}
	select {
	case <-x.release:
	case <-time.After(10 * time.Second):
	}
}

func init() {
	server.VerifGate = collGates.hit
	core.Register("collision", func(b *core.Behaviour, p core.Params) *core.Divergence {
		var s *collSession
		settle := time.Duration(p.Int("settle_ms", 40)) * time.Millisecond
		order := ""
		outgoing := false
		for i, st := range b.Steps {
			a := st.Str("a")
			core.At(i, a)
			var exp collState
			st.Into("s", &exp)
			if exp.Loc == nil {
				exp.Loc = []int{}
			}
			for k := range exp.CS {
				if exp.CS[k].Out == nil {
					exp.CS[k].Out = []collMsg{}
				}
			}
			c := st.Int("c")
			switch a {
			case "Config":
				order = st.Str("order")
				outgoing = st.Bool("outgoing")
				s = newCollSessionDir(order, outgoing)
				if outgoing {
					order += "+outgoing"
				}
			case "Connect":
				vc := newVconn(net.IPv4(10, 0, 0, 200).To4(), s.peerIP)
				vc.remote = &net.TCPAddr{IP: s.peerIP, Port: 40000 + c}
				s.conns[c] = vc
				if outgoing && c == 1 {
					// the dial of the peer's own FSM "succeeds": the connection is handed over where the TCP connector does it
					if !server.VerifDeliverConn(s.srv, s.vrf, s.peerKey, 0, vc, 5*time.Second) {
						return &core.Divergence{Step: i, Action: a, Field: "dial", Kind: "hang", Class: order, Want: "the peer's own FSM takes its connection"}
					}
					break
				}
				select {
				case s.lm.ch <- tcp.ConnWithVRF{Conn: vc, VRF: s.vrf}:
				case <-time.After(3 * time.Second):
					return &core.Divergence{Step: i, Action: a, Field: "accept", Kind: "hang", Class: order, Want: "connection accepted"}
				}
			case "RecvOpen":
				caps := []wire.Cap{{Code: 65, Value: wire.U32(s.peerAS)}}
				s.conns[c].peerSend(wire.Header(wire.TypeOpen, wire.OpenBody(4, int(s.peerAS), 90, s.peerID, caps)))
			case "RecvOpenBoth":
				// both OPENs are in the speaker's hands before either FSM has changed its state: `first` is parked right after its
				// collision check (scheduler gate, verif hook), then the other OPEN is delivered; then both run on
				first := st.Int("first")
				second := c
				if first == c {
					second = st.Int("d")
				}
				caps := []wire.Cap{{Code: 65, Value: wire.U32(s.peerAS)}}
				open := wire.Header(wire.TypeOpen, wire.OpenBody(4, int(s.peerAS), 90, s.peerID, caps))
				g1, g2 := collGates.arm(s.conns[first].remote.String()), collGates.arm(s.conns[second].remote.String())
				s.conns[first].peerSend(open)
				select {
				case <-g1.arrived:
				case <-time.After(3 * time.Second):
					collGates.releaseAll()
					return &core.Divergence{Step: i, Action: a, Field: "gate", Kind: "hang", Class: order,
						Want: fmt.Sprintf("connection %d passes the collision check (its sibling is in OpenSent)", first)}
				}
				s.conns[second].peerSend(open)
				select {
				case <-g2.arrived: // it passed the check as well
				case <-time.After(150 * time.Millisecond): // it lost, or it waits for the parked sibling to take its Cease
				}
				collGates.releaseAll()
			case "RecvKeepalive":
				s.conns[c].peerSend(wire.Header(wire.TypeKeepalive, nil))
			case "RecvUpdate":
				attrs := wire.Attr(0x40, wire.AttrOrigin, []byte{0}, false)
				attrs = append(attrs, wire.Attr(0x40, wire.AttrASPath, wire.EncASPath([]wire.Segment{{Type: wire.ASSequence, ASNs: []uint32{s.peerAS, 65020}}}, true), false)...)
				attrs = append(attrs, wire.Attr(0x40, wire.AttrNextHop, []byte{10, 0, 0, 201}, false)...)
				s.conns[c].peerSend(wire.Header(wire.TypeUpdate, wire.UpdateBody(nil, attrs, wire.EncNLRI([]wire.NLRI{collPrefix(c)}, false))))
			case "PeerCloses":
				s.conns[c].peerSend(wire.Header(wire.TypeNotification, []byte{6, 0}))
			default:
				panic("harness: unknown action " + a)
			}
			n := len(exp.CS)
			deadline := time.Now().Add(3 * time.Second)
			var field string
			var want, have interface{}
			for {
				got, ok := s.observe(n)
				if !ok {
					return &core.Divergence{Step: i, Action: a, Field: "server", Kind: "hang", Class: order,
						Want: "the peer's FSM list can be read", Got: "no answer within 5 s (a lock is held forever)"}
				}
				field, want, have = collDiff(exp, got)
				if field == "" || time.Now().After(deadline) {
					break
				}
				time.Sleep(2 * time.Millisecond)
			}
			if field == "" {
				time.Sleep(settle)
				got, ok := s.observe(n)
				if !ok {
					return &core.Divergence{Step: i, Action: a, Field: "server", Kind: "hang", Class: order, Want: "the peer's FSM list can be read"}
				}
				field, want, have = collDiff(exp, got)
			}
			if field != "" {
				return &core.Divergence{Step: i, Action: a, Field: field, Kind: "wrong", Class: order, Want: want, Got: have,
					Detail: fmt.Sprintf("identifier order %s", order)}
			}

		}
		return nil
	})
}
