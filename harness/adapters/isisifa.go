package adapters

import (
	"bytes"
	"encoding/json"
	"fmt"
	"io"
	"os"
	"os/exec"
	"path/filepath"
	"runtime"
	"sort"
	"strings"
	"time"

	bbclock "github.com/benbjohnson/clock"
	"github.com/sirupsen/logrus"

	bnet "github.com/bio-routing/bio-rd/net"
	"github.com/bio-routing/bio-rd/net/ethernet"
	"github.com/bio-routing/bio-rd/protocols/device"
	"github.com/bio-routing/bio-rd/protocols/isis/packet"
	isisserver "github.com/bio-routing/bio-rd/protocols/isis/server"
	itypes "github.com/bio-routing/bio-rd/protocols/isis/types"
	"github.com/bio-routing/bio-rd/util/log"

	"verifharness/core"
)

// Spec ISISIfa (C33): an IS-IS server with active / passive interfaces under link up / link down events.
//
// The server is assembled as tests/isis_integration_test.go does: isis/server.New with a device updater,
// the mock ethernet interface factory, the benbjohnson mock clock through isis/server.SetClock. Link events
// are real device.Device updates produced by device.MockServer.DeviceUpEvent / DeviceDownEvent (one
// MockServer per subscribed interface, as MockServer remembers a single client). Hellos are read from the
// mock ethernet interface (ReceiveAtRemote), neighbour hellos are injected with SendFromRemote.
//
// The server runs goroutines of its own (hello sender, receiver, LSDB timers); a panic there cannot be
// recovered by the replay core and would take the whole shard (and the attribution) with it. The adapter
// "isisifa" therefore replays every behaviour in a child process of the same binary (adapter
// "isisifa-inproc") and turns a crash of the child into a divergence whose class is the innermost bio-rd
// frame of the crash.

const (
	ifaHelloInterval = 4 // seconds, as in the integration test
	ifaHelloWait     = 4 * time.Second
	ifaAdjWait       = 4 * time.Second
)

var (
	ifaSysID    = itypes.SystemID{12, 12, 12, 13, 13, 13}
	ifaNbrSysID = itypes.SystemID{0xde, 0xad, 0xbe, 0xef, 0xff, 0x01}
	ifaArea     = itypes.AreaID{0x49, 0x00}
)

// ifaUpdater is a device.Updater that remembers the client of every interface.
type ifaUpdater struct {
	clients map[string]device.Client
}

func (u *ifaUpdater) Start() error { return nil }
func (u *ifaUpdater) Subscribe(c device.Client, name string) {
	u.clients[name] = c
}
func (u *ifaUpdater) Unsubscribe(c device.Client, name string) { delete(u.clients, name) }

type ifaDef struct {
	Name    string `json:"name"`
	Passive bool   `json:"passive"`
}

type ifaSys struct {
	clk   *bbclock.Mock
	srv   *isisserver.Server
	upd   *ifaUpdater
	ifs   map[string]ifaDef
	index map[string]int
}

func (s *ifaSys) addrs(name string) []*bnet.Prefix {
	return []*bnet.Prefix{bnet.NewPfx(bnet.IPv4FromOctets(169, 254, 100+uint8(s.index[name]), 0), 31).Ptr()}
}

func (s *ifaSys) nbrIP(name string) uint32 {
	return bnet.IPv4FromOctets(169, 254, 100+uint8(s.index[name]), 1).ToUint32()
}

func (s *ifaSys) nbrMAC(name string) ethernet.MACAddr {
	return ethernet.MACAddr{0xde, 0xad, 0xbe, 0xef, 0x12, 0x30 + uint8(s.index[name])}
}

func (s *ifaSys) class(name string) string {
	c := "active"
	if s.ifs[name].Passive {
		c = "passive"
	}
	if len(s.ifs) > 1 {
		c += "/multi"
	}
	return c
}

func newIfaSys(defs []ifaDef) *ifaSys {
	s := &ifaSys{clk: bbclock.NewMock(), upd: &ifaUpdater{clients: map[string]device.Client{}}, ifs: map[string]ifaDef{}, index: map[string]int{}}
	start, _ := time.Parse("Jan 2, 2006 at 15:04:05.000", "Jan 23, 2023 at 00:00:00.000")
	s.clk.Set(start)
	isisserver.SetClock(s.clk)
	srv, err := isisserver.New([]*itypes.NET{{AreaID: ifaArea, SystemID: ifaSysID, SEL: 0}}, s.upd, 3600)
	if err != nil {
		panic("harness: isis server: " + err.Error())
	}
	s.srv = srv
	srv.Start()
	srv.SetEthernetInterfaceFactory(ethernet.NewMockEthernetInterfaceFactory())
	srv.SetHostnameFunc(func() (string, error) { return "verif", nil })
	sort.Slice(defs, func(i, j int) bool { return defs[i].Name < defs[j].Name })
	for i, d := range defs {
		s.ifs[d.Name] = d
		s.index[d.Name] = i
		err := srv.AddInterface(&isisserver.InterfaceConfig{Name: d.Name, Passive: d.Passive, PointToPoint: true,
			Level2: &isisserver.InterfaceLevelConfig{HelloInterval: ifaHelloInterval, HoldingTimer: 16, Metric: 10, Passive: d.Passive}})
		if err != nil {
			panic("harness: AddInterface: " + err.Error())
		}
		if s.upd.clients[d.Name] == nil {
			panic("harness: the interface did not subscribe for device updates")
		}
	}
	return s
}

func (s *ifaSys) link(name string, up bool) {
	ms := &device.MockServer{C: s.upd.clients[name]} // builds the real device.Device of the event
	if up {
		ms.DeviceUpEvent(name, s.addrs(name))
	} else {
		ms.DeviceDownEvent(name, s.addrs(name))
	}
}

func (s *ifaSys) mock(name string) *ethernet.MockEthernetInterface {
	e := s.srv.GetEthernetInterface(name)
	if e == nil {
		return nil
	}
	m, _ := e.(*ethernet.MockEthernetInterface)
	return m
}

// waitHello reads what the interface sends until a point-to-point hello of this system shows up.
func (s *ifaSys) waitHello(name string) (bool, string) {
	m := s.mock(name)
	if m == nil {
		return false, "the interface has no ethernet handle"
	}
	ch := make(chan string, 1)
	go func() {
		for {
			_, pkt := m.ReceiveAtRemote()
			if len(pkt) < 8 || pkt[4] != packet.P2P_HELLO {
				continue
			}
			p, err := packet.Decode(bytes.NewBuffer(append([]byte{0xfe, 0xfe, 0x03}, pkt...)))
			if err != nil {
				ch <- "hello does not decode: " + err.Error()
				return
			}
			h, ok := p.Body.(*packet.P2PHello)
			if !ok || h.SystemID != ifaSysID {
				ch <- fmt.Sprintf("unexpected hello %+v", p.Body)
				return
			}
			ch <- ""
			return
		}
	}()
	select {
	case msg := <-ch:
		return msg == "", msg
	case <-time.After(ifaHelloWait):
		return false, fmt.Sprintf("no hello on the wire within %v after the clock advanced by the hello interval", ifaHelloWait)
	}
}

func (s *ifaSys) nbrHello(name string, listsUs bool) []byte {
	adj := packet.NewP2PAdjacencyStateTLV(packet.P2PAdjStateDown, 100)
	if listsUs {
		adj.AdjacencyState = packet.P2PAdjStateInit
		adj.NeighborSystemID = ifaSysID
		adj.NeighborExtendedLocalCircuitID = 0 // ifindex of the device the mock device server announces
		adj.TLVLength = packet.P2PAdjacencyStateTLVLenWithNeighbor
	}
	h := &packet.P2PHello{CircuitType: 2, SystemID: ifaNbrSysID, HoldingTimer: 3600, LocalCircuitID: 2, TLVs: []packet.TLV{
		adj,
		packet.NewProtocolsSupportedTLV([]uint8{packet.NLPIDIPv4, packet.NLPIDIPv6}),
		&packet.IPInterfaceAddressesTLV{TLVType: packet.IPInterfaceAddressesTLVType, TLVLength: 4, IPv4Addresses: []uint32{s.nbrIP(name)}},
		packet.NewAreaAddressesTLV([]itypes.AreaID{ifaArea}),
	}}
	hdr := packet.ISISHeader{ProtoDiscriminator: 0x83, LengthIndicator: packet.P2PHelloMinLen, ProtocolIDExtension: 1, PDUType: packet.P2P_HELLO, Version: 1}
	buf := bytes.NewBuffer([]byte{0xfe, 0xfe, 0x03})
	hdr.Serialize(buf)
	h.Serialize(buf)
	return buf.Bytes()
}

func (s *ifaSys) adjacency(name string) (found bool, status uint8) {
	for _, a := range s.srv.GetAdjacencies() {
		if a.InterfaceName == name && a.SystemID == ifaNbrSysID {
			return true, a.Status
		}
	}
	return false, 0
}

func (s *ifaSys) adjUp() []string {
	out := []string{}
	for _, a := range s.srv.GetAdjacencies() {
		if a.Status == packet.P2PAdjStateUp {
			out = append(out, a.InterfaceName)
		}
	}
	sort.Strings(out)
	return out
}

func waitFor(d time.Duration, f func() bool) bool {
	end := time.Now().Add(d)
	for {
		if f() {
			return true
		}
		if time.Now().After(end) {
			return false
		}
		time.Sleep(time.Millisecond)
	}
}

// formAdj plays the neighbour's side of the three-way handshake.
func (s *ifaSys) formAdj(name string) string {
	m := s.mock(name)
	if m == nil {
		return "the interface has no ethernet handle"
	}
	m.SendFromRemote(s.nbrMAC(name), s.nbrHello(name, false))
	if !waitFor(ifaAdjWait, func() bool { f, _ := s.adjacency(name); return f }) {
		return "the neighbour's hello did not create an adjacency (receiver not running?)"
	}
	m.SendFromRemote(s.nbrMAC(name), s.nbrHello(name, true))
	if !waitFor(ifaAdjWait, func() bool { f, st := s.adjacency(name); return f && st == packet.P2PAdjStateUp }) {
		_, st := s.adjacency(name)
		return fmt.Sprintf("the adjacency did not come up after the neighbour listed this system (status %d)", st)
	}
	return ""
}

func settle() {
	for i := 0; i < 20; i++ {
		runtime.Gosched()
	}
	time.Sleep(3 * time.Millisecond)
}

type ifaState struct {
	Oper    map[string]string `json:"oper"`
	Senders []string          `json:"senders"`
	AdjUp   []string          `json:"adjup"`
	Hellos  []string          `json:"hellos"`
	Alive   bool              `json:"alive"`
}

func ifaInproc(b *core.Behaviour, p core.Params) *core.Divergence {
	l := logrus.New()
	l.SetOutput(io.Discard)
	log.SetLogger(log.NewLogrusWrapper(l))
	var sys *ifaSys
	for i, st := range b.Steps {
		a := st.Str("a")
		core.At(i, a)
		core.HangClass = a
		name := st.Str("i")
		fmt.Fprintf(os.Stderr, "STEP %d %s\n", i, a)
		var want ifaState
		st.Into("st", &want)
		switch a {
		case "Init":
			var defs []ifaDef
			st.Into("ifs", &defs)
			sys = newIfaSys(defs)
		case "LinkUp":
			core.HangClass = sys.class(name)
			sys.link(name, true)
		case "LinkDown":
			core.HangClass = sys.class(name)
			sys.link(name, false)
		case "HelloTick":
			for n := range sys.ifs {
				if m := sys.mock(n); m != nil {
					m.DrainBuffer() // only hellos produced by this tick count
				}
			}
			sys.clk.Add(ifaHelloInterval * time.Second)
			settle()
			for _, n := range want.Hellos {
				if ok, msg := sys.waitHello(n); !ok {
					return &core.Divergence{Step: i, Action: a, Field: "hello", Kind: "missing", Class: sys.class(n), Want: want.Hellos, Detail: n + ": " + msg}
				}
			}
		case "FormAdj":
			core.HangClass = sys.class(name)
			if msg := sys.formAdj(name); msg != "" {
				return &core.Divergence{Step: i, Action: a, Field: "adjacency", Kind: "missing", Class: sys.class(name), Detail: name + ": " + msg}
			}
		default:
			panic("harness: unknown action " + a)
		}
		settle()
		// the server answers: the configured interfaces are there, the adjacencies are what the spec says
		names := sys.srv.GetInterfaceNames()
		sort.Strings(names)
		wantNames := sortedStrings(func() map[string]bool {
			m := map[string]bool{}
			for n := range sys.ifs {
				m[n] = true
			}
			return m
		}())
		if fmt.Sprint(names) != fmt.Sprint(wantNames) {
			return &core.Divergence{Step: i, Action: a, Field: "interfaces", Kind: "wrong", Class: "server", Want: wantNames, Got: names}
		}
		sort.Strings(want.AdjUp)
		if want.AdjUp == nil {
			want.AdjUp = []string{}
		}
		var got []string
		if !waitFor(time.Second, func() bool { got = sys.adjUp(); return fmt.Sprint(got) == fmt.Sprint(want.AdjUp) }) {
			kind, _, _ := core.SetDiff(want.AdjUp, got)
			cl := "server"
			if name != "" {
				cl = sys.class(name)
			}
			return &core.Divergence{Step: i, Action: a, Field: "adjacency", Kind: kind, Class: cl, Want: want.AdjUp, Got: got,
				Detail: "interfaces whose adjacency is up"}
		}
	}
	return nil
}

// ifaIsolated replays one behaviour in a child process and converts a crash of the child into a divergence.
func ifaIsolated(b *core.Behaviour, p core.Params) *core.Divergence {
	core.At(0, "Init")
	exe, err := os.Executable()
	if err != nil {
		panic("harness: " + err.Error())
	}
	dir, err := os.MkdirTemp("", "isisifa")
	if err != nil {
		panic("harness: " + err.Error())
	}
	defer os.RemoveAll(dir)
	in := filepath.Join(dir, "b.ndjson")
	line, _ := json.Marshal(map[string]interface{}{"id": b.ID, "steps": b.Raw})
	if err := os.WriteFile(in, append(line, '\n'), 0o644); err != nil {
		panic("harness: " + err.Error())
	}
	pj, _ := json.Marshal(p)
	cmd := exec.Command(exe, "replay", "--adapter", "isisifa-inproc", "--in", in, "--params", string(pj), "--timeout", fmt.Sprint(p.Int("inner_timeout", 25)))
	cmd.Env = append(os.Environ(), "GOMAXPROCS=2") // many children run side by side; the server needs no parallelism
	var stdout, stderr bytes.Buffer
	cmd.Stdout, cmd.Stderr = &stdout, &stderr
	runErr := cmd.Run()
	step, action := 0, "Init"
	for _, l := range strings.Split(stderr.String(), "\n") {
		if strings.HasPrefix(l, "STEP ") {
			fmt.Sscanf(l, "STEP %d %s", &step, &action)
		}
	}
	core.At(step, action)
	done := false
	for _, l := range strings.Split(stdout.String(), "\n") {
		if !strings.HasPrefix(l, "{") {
			continue
		}
		var rec struct {
			Done bool `json:"done"`
			core.Divergence
		}
		if err := json.Unmarshal([]byte(l), &rec); err != nil {
			continue
		}
		if rec.Done {
			done = true
			continue
		}
		d := rec.Divergence
		return &d
	}
	if done {
		return nil
	}
	if ee, ok := runErr.(*exec.ExitError); ok && ee.ExitCode() == 4 {
		panic("harness: child reported a harness bug: " + tail(stderr.String(), 3000))
	}
	// the child died: a panic in a goroutine of the server (or a fatal runtime error such as a deadlock)
	text := stderr.String()
	at := strings.Index(text, "panic: ")
	if f := strings.Index(text, "fatal error: "); at < 0 || (f >= 0 && f < at) {
		at = f
	}
	if at < 0 {
		panic(fmt.Sprintf("harness: child ended without a result (%v): %s", runErr, tail(text, 3000)))
	}
	crash := text[at:]
	first := crash
	if i := strings.Index(first, "\n"); i > 0 {
		first = first[:i]
	}
	return &core.Divergence{Step: step, Action: action, Field: "process", Kind: "panic", Class: crashClass(crash),
		Detail: "the IS-IS server crashed the process: " + first + "\n" + tail2(crash, 6000)}
}

func tail(s string, n int) string {
	if len(s) > n {
		return s[len(s)-n:]
	}
	return s
}

func tail2(s string, n int) string {
	if len(s) > n {
		return s[:n]
	}
	return s
}

func init() {
	core.Register("isisifa", ifaIsolated)
	core.Register("isisifa-inproc", ifaInproc)
}
