package adapters

import (
	"fmt"
	"sort"
	"sync"
	"time"

	"github.com/bio-routing/bio-rd/protocols/isis/packet"
	isis "github.com/bio-routing/bio-rd/protocols/isis/server"
	"github.com/bio-routing/bio-rd/protocols/isis/types"

	"verifharness/core"
)

// Spec ISISLSDB (C32): LSPs, CSNPs and PSNPs received on two point-to-point circuits with Up adjacencies, aging ticks,
// transmission rounds and regenerations against the real level-2 LSDB of an isis/server.Server.
//
// PDUs go in through the ethernet seam (and therefore through packet.Decode, netIfa.processPkt and validatePkt); the
// database is read with Server.GetLSDB plus the verif accessors for the SRM/SSN flags; transmitted PDUs are read from
// the ethernet seam. The mock clock is never advanced: the periodic routines of the LSDB are driven one round at a
// time through VerifAgeTick / VerifSendLSPs / VerifSendPSNPs (they call exactly what the tickers call).

type lsdbEntryRec struct {
	ID   string   `json:"id"`
	Seq  int      `json:"seq"`
	Life int      `json:"life"`
	SRM  []string `json:"srm"`
	SSN  []string `json:"ssn"`
}

type lsdbState struct {
	DB []lsdbEntryRec `json:"db"`
}

type snpEntryRec struct {
	ID   string `json:"id"`
	Seq  int    `json:"seq"`
	Life int    `json:"life"`
}

type sentRec struct {
	Ifa string `json:"ifa"`
	ID  string `json:"id"`
	Seq int    `json:"seq"`
}

var lsdbSysIDs = map[string]types.SystemID{
	"r1":  {0, 0, 0, 0, 0, 0x20}, // below the local system id
	"own": isisOwnSysID,
	"r2":  {0, 0, 0, 0, 0, 0x70}, // above
}

func lsdbName(id packet.LSPID) string {
	for n, s := range lsdbSysIDs {
		if id.SystemID == s && id.PseudonodeID == 0 && id.LSPNumber == 0 {
			return n
		}
	}
	return "unknown:" + id.String()
}

func (r lsdbEntryRec) key() string {
	s := append([]string{}, r.SRM...)
	n := append([]string{}, r.SSN...)
	sort.Strings(s)
	sort.Strings(n)
	return fmt.Sprintf("%s seq=%d life=%d srm=%v ssn=%v", r.ID, r.Seq, r.Life, s, n)
}

// isisGates parks goroutines of the IS-IS server at named points (isis.VerifGate).
type isisGateSet struct {
	mu sync.Mutex
	m  map[string]*collGate
}

var isisGates = &isisGateSet{m: map[string]*collGate{}}

func (g *isisGateSet) arm(point string) *collGate {
	g.mu.Lock()
	defer g.mu.Unlock()
	x := &collGate{arrived: make(chan struct{}, 1), release: make(chan struct{})}
	g.m[point] = x
	return x
}
func (g *isisGateSet) releaseAll() {
	g.mu.Lock()
	defer g.mu.Unlock()
	for k, x := range g.m {
		close(x.release)
		delete(g.m, k)
	}
}
func (g *isisGateSet) hit(point string) {
	g.mu.Lock()
	x := g.m[point]
	g.mu.Unlock()
	if x == nil {
		return
	}
	select {
	case x.arrived <- struct{}{}:
	default:
	}
	select {
	case <-x.release:
	case <-time.After(10 * time.Second):
	}
}

func init() {
	isis.VerifGate = isisGates.hit

	core.Register("isislsdb", func(b *core.Behaviour, p core.Params) *core.Divergence {
		var env *isisEnv
		defer func() {
			if env != nil {
				env.shutdown()
			}
		}()
		off := 0 // real sequence number of the local LSP = abstract + off
		ifaOrder := []string{}
		nbrOf := map[string]*isisNbr{}
		realSeq := func(id string, s int) uint32 {
			if id == "own" {
				return uint32(s + off)
			}
			return uint32(s)
		}
		absSeq := func(id string, s uint32) int {
			if id == "own" {
				return int(s) - off
			}
			return int(s)
		}
		lspid := func(id string) packet.LSPID {
			sid, ok := lsdbSysIDs[id]
			if !ok {
				panic("harness: unknown LSP id " + id)
			}
			return packet.LSPID{SystemID: sid}
		}
		project := func() []lsdbEntryRec {
			out := []lsdbEntryRec{}
			for _, e := range env.srv.GetLSDB() {
				l := e.GetLSPDU()
				id := lsdbName(l.LSPID)
				out = append(out, lsdbEntryRec{ID: id, Seq: absSeq(id, l.SequenceNumber), Life: int(l.RemainingLifetime),
					SRM: e.VerifSRMFlags(), SSN: e.VerifSSNFlags()})
			}
			return out
		}
		keys := func(es []lsdbEntryRec) []string {
			ks := []string{}
			for _, e := range es {
				ks = append(ks, e.key())
			}
			sort.Strings(ks)
			return ks
		}
		// quiescent: no regeneration request queued and the stored local LSP carries the last sequence number handed out
		quiet := func() bool {
			return !env.srv.VerifLSPUpdatePending() && env.ownSeq() == env.srv.VerifSequenceNumberL2()
		}
		// compare classifies the first difference coarsely: which part of which kind of entry
		compare := func(i int, a string, want lsdbState) *core.Divergence {
			wk := keys(want.DB)
			same := func() bool {
				if !quiet() {
					return false
				}
				gk := keys(project())
				if len(gk) != len(wk) {
					return false
				}
				for j := range gk {
					if gk[j] != wk[j] {
						return false
					}
				}
				return true
			}
			if same() || isisWaitFor(same) {
				return nil
			}
			got := project()
			gm := map[string]lsdbEntryRec{}
			for _, e := range got {
				gm[e.ID] = e
			}
			kindOf := func(id string) string {
				if id == "own" {
					return "local-lsp"
				}
				return "remote-lsp"
			}
			wids := []string{}
			for _, w := range want.DB {
				wids = append(wids, w.ID)
			}
			sort.Strings(wids)
			wm := map[string]lsdbEntryRec{}
			for _, w := range want.DB {
				wm[w.ID] = w
			}
			for _, id := range wids {
				w := wm[id]
				g, ok := gm[id]
				switch {
				case !ok:
					return &core.Divergence{Step: i, Action: a, Field: "entry", Kind: "missing", Class: kindOf(id), Want: wk, Got: keys(got)}
				case g.Seq != w.Seq:
					return &core.Divergence{Step: i, Action: a, Field: "sequence-number", Kind: "wrong", Class: kindOf(id), Want: wk, Got: keys(got)}
				case g.Life != w.Life:
					return &core.Divergence{Step: i, Action: a, Field: "remaining-lifetime", Kind: "wrong", Class: kindOf(id), Want: wk, Got: keys(got)}
				}
				if k, _, _ := core.SetDiff(w.SRM, g.SRM); k != "" {
					return &core.Divergence{Step: i, Action: a, Field: "srm", Kind: k, Class: kindOf(id), Want: wk, Got: keys(got)}
				}
				if k, _, _ := core.SetDiff(w.SSN, g.SSN); k != "" {
					return &core.Divergence{Step: i, Action: a, Field: "ssn", Kind: k, Class: kindOf(id), Want: wk, Got: keys(got)}
				}
			}
			for _, g := range got {
				if _, ok := wm[g.ID]; !ok {
					c := kindOf(g.ID)
					if len(g.ID) > 7 && g.ID[:7] == "unknown" {
						c = "unknown-id"
					}
					return &core.Divergence{Step: i, Action: a, Field: "entry", Kind: "extra", Class: c, Want: wk, Got: keys(got)}
				}
			}
			if !quiet() {
				return &core.Divergence{Step: i, Action: a, Field: "local-lsp", Kind: "extra", Class: "regeneration-pending", Want: wk, Got: keys(got),
					Detail: "a regeneration of the local LSP is still requested although the database equals the expected one"}
			}
			return nil
		}
		entries := func(es []snpEntryRec) []*packet.LSPEntry {
			sort.Slice(es, func(x, y int) bool { l := lspid(es[x].ID); return l.Compare(lspid(es[y].ID)) < 0 })
			out := []*packet.LSPEntry{}
			for _, e := range es {
				out = append(out, &packet.LSPEntry{RemainingLifetime: uint16(e.Life), LSPID: lspid(e.ID), SequenceNumber: realSeq(e.ID, e.Seq), LSPChecksum: 0x1234})
			}
			return out
		}
		inject := func(i int, a, ifa string, frame []byte) *core.Divergence {
			nb := nbrOf[ifa]
			if nb == nil {
				panic("harness: no neighbour on " + ifa)
			}
			if !nb.ifa.eth.inject(nb.mac, frame) {
				return &core.Divergence{Step: i, Action: a, Field: "receiver", Kind: "hang", Class: "pdu-not-processed",
					Detail: "the interface's receiver did not come back for the next packet"}
			}
			return nil
		}
		// sentSet decodes what the server transmitted since the last call
		sentSet := func(pduType uint8) ([]string, error) {
			out := []string{}
			for _, name := range ifaOrder {
				for _, fr := range env.ifas[name].eth.takeSent() {
					pkt, err := decodeSent(fr)
					if err != nil {
						return nil, fmt.Errorf("undecodable PDU sent on %s: %v", name, err)
					}
					if pkt.Header.PDUType != pduType {
						out = append(out, fmt.Sprintf("%s unexpected-pdu-type-%d", name, pkt.Header.PDUType))
						continue
					}
					switch body := pkt.Body.(type) {
					case *packet.LSPDU:
						id := lsdbName(body.LSPID)
						out = append(out, fmt.Sprintf("%s %s seq=%d", name, id, absSeq(id, body.SequenceNumber)))
					case *packet.PSNP:
						for _, e := range body.GetLSPEntries() {
							id := lsdbName(e.LSPID)
							out = append(out, fmt.Sprintf("%s %s seq=%d", name, id, absSeq(id, e.SequenceNumber)))
						}
					}
				}
			}
			sort.Strings(out)
			return out, nil
		}
		wantSent := func(st core.Step) []string {
			var rs []sentRec
			st.Into("sent", &rs)
			out := []string{}
			for _, r := range rs {
				out = append(out, fmt.Sprintf("%s %s seq=%d", r.Ifa, r.ID, r.Seq))
			}
			sort.Strings(out)
			return out
		}
		compareSent := func(i int, a string, st core.Step, pduType uint8) *core.Divergence {
			got, err := sentSet(pduType)
			if err != nil {
				return &core.Divergence{Step: i, Action: a, Field: "transmitted", Kind: "error", Class: "undecodable", Detail: err.Error()}
			}
			want := wantSent(st)
			if k, _, _ := core.SetDiff(want, got); k != "" {
				return &core.Divergence{Step: i, Action: a, Field: "transmitted", Kind: k, Class: "", Want: want, Got: got}
			}
			return nil
		}

		for i, st := range b.Steps {
			a := st.Str("a")
			core.At(i, a)
			var want lsdbState
			st.Into("st", &want)
			switch a {
			case "Config":
				c := isis.VerifConstants()
				if c["defaultLifetimeSeconds"] != st.Int("ownLifetime") || c["lspRefreshThresholdSeconds"] != st.Int("threshold") {
					panic(fmt.Sprintf("harness: spec constants OwnLifetime=%d Threshold=%d are not the code's %d / %d (binding out of date)",
						st.Int("ownLifetime"), st.Int("threshold"), c["defaultLifetimeSeconds"], c["lspRefreshThresholdSeconds"]))
				}
				st.Into("ifaces", &ifaOrder)
				sort.Strings(ifaOrder)
				env = newISISEnv(ifaOrder, false)
				// one Up adjacency per circuit: the first hello creates the neighbour, the second (listing us) brings it Up,
				// which regenerates the local LSP
				for k, name := range ifaOrder {
					nb := env.addNbr("n"+name, byte(k+1), name)
					nbrOf[name] = nb
					seq := env.ownSeq()
					ok := env.sendHello(nb, "none", 30000) && env.sendHello(nb, "us", 30000)
					if !ok || !env.waitRegenerated(seq) {
						return &core.Divergence{Step: i, Action: a, Field: "setup", Kind: "error", Class: "adjacency-not-up",
							Detail: "no Up adjacency / regenerated local LSP after two hellos on " + name}
					}
				}
				if !isisWaitFor(quiet) {
					return &core.Divergence{Step: i, Action: a, Field: "setup", Kind: "error", Class: "not-quiescent"}
				}
				off = int(env.ownSeq()) - 1
				for _, name := range ifaOrder {
					env.ifas[name].eth.takeSent()
				}
			case "RecvLSP":
				id := st.Str("id")
				l := &packet.LSPDU{
					RemainingLifetime: uint16(st.Int("life")),
					LSPID:             lspid(id),
					SequenceNumber:    realSeq(id, st.Int("seq")),
					TLVs:              []packet.TLV{packet.NewAreaAddressesTLV([]types.AreaID{isisArea})},
				}
				l.UpdateLength()
				l.SetChecksum()
				if d := inject(i, a, st.Str("ifa"), isisFrame(packet.L2_LS_PDU_TYPE, packet.LSPDUMinLen, l)); d != nil {
					return d
				}
			case "RecvOwnBurst":
				// both copies are processed before the updater routine regenerates the local LSP: the updater is parked at its gate
				g := isisGates.arm("lsp-update-begins")
				for _, k := range []string{"seq1", "seq2"} {
					l := &packet.LSPDU{RemainingLifetime: uint16(st.Int("life")), LSPID: lspid("own"), SequenceNumber: realSeq("own", st.Int(k)),
						TLVs: []packet.TLV{packet.NewAreaAddressesTLV([]types.AreaID{isisArea})}}
					l.UpdateLength()
					l.SetChecksum()
					if d := inject(i, a, st.Str("ifa"), isisFrame(packet.L2_LS_PDU_TYPE, packet.LSPDUMinLen, l)); d != nil {
						isisGates.releaseAll()
						return d
					}
				}
				select {
				case <-g.arrived:
				case <-time.After(200 * time.Millisecond): // no regeneration was requested: the comparison below reports it
				}
				isisGates.releaseAll()
				// the two requests may make the updater regenerate twice: any number above both copies satisfies the property; the
				// model continues from the number the code chose
				wantOwn := 0
				for _, e := range want.DB {
					if e.ID == "own" {
						wantOwn = e.Seq
					}
				}
				isisWaitFor(func() bool { return quiet() && absSeq("own", env.ownSeq()) >= wantOwn })
				time.Sleep(5 * time.Millisecond)
				isisWaitFor(quiet)
				if extra := absSeq("own", env.ownSeq()) - wantOwn; extra > 0 && extra <= 2 {
					off += extra
				}
			case "RecvPSNP", "RecvCSNP":
				var es []snpEntryRec
				st.Into("entries", &es)
				nb := nbrOf[st.Str("ifa")]
				tlvs := []packet.TLV{}
				if le := entries(es); len(le) > 0 {
					tlvs = append(tlvs, packet.NewLSPEntriesTLV(le))
				}
				src := types.SourceID{SystemID: nb.sysID}
				var frame []byte
				if a == "RecvPSNP" {
					frame = isisFrame(packet.L2_PSNP_TYPE, packet.PSNPMinLen,
						&packet.PSNP{PDULength: uint16(packet.PSNPMinLen + 2 + 16*len(es)), SourceID: src, TLVs: tlvs})
				} else {
					lo := packet.LSPID{}
					hi := packet.LSPID{SystemID: types.SystemID{0xff, 0xff, 0xff, 0xff, 0xff, 0xff}, PseudonodeID: 0xff, LSPNumber: 0xff}
					switch st.Str("range") {
					case "all":
					case "lo":
						hi = lspid("own")
					case "hi":
						lo = lspid("own")
					default:
						panic("harness: unknown range " + st.Str("range"))
					}
					frame = isisFrame(packet.L2_CSNP_TYPE, packet.CSNPMinLen,
						&packet.CSNP{PDULength: uint16(packet.CSNPMinLen + 2 + 16*len(es)), SourceID: src, StartLSPID: lo, EndLSPID: hi, TLVs: tlvs})
				}
				if d := inject(i, a, st.Str("ifa"), frame); d != nil {
					return d
				}
			case "Tick":
				var at []int
				st.Into("refreshAt", &at)
				ai := 0
				for u := 1; u <= st.Int("k"); u++ {
					before := env.srv.VerifSequenceNumberL2()
					env.srv.VerifAgeTick()
					if ai < len(at) && at[ai] == u {
						ai++
						// the refresh is carried out by the updater routine: wait for its result
						if !isisWaitFor(func() bool { return env.srv.VerifSequenceNumberL2() > before && quiet() }) {
							return &core.Divergence{Step: i, Action: a, Field: "local-lsp", Kind: "missing", Class: "not-refreshed",
								Want: fmt.Sprintf("regeneration in second %d of the step", u), Got: keys(project())}
						}
					} else if env.srv.VerifLSPUpdatePending() || env.srv.VerifSequenceNumberL2() != before {
						isisWaitFor(quiet)
						return &core.Divergence{Step: i, Action: a, Field: "local-lsp", Kind: "extra", Class: "unexpected-regeneration",
							Want: fmt.Sprintf("no regeneration in second %d of the step", u), Got: keys(project())}
					}
				}
			case "SendLSPs":
				for _, name := range ifaOrder {
					env.ifas[name].eth.takeSent()
				}
				env.srv.VerifSendLSPs()
				if d := compareSent(i, a, st, packet.L2_LS_PDU_TYPE); d != nil {
					return d
				}
			case "SendPSNPs":
				for _, name := range ifaOrder {
					env.ifas[name].eth.takeSent()
				}
				env.srv.VerifSendPSNPs()
				if d := compareSent(i, a, st, packet.L2_PSNP_TYPE); d != nil {
					return d
				}
			case "Refresh":
				before := env.srv.VerifSequenceNumberL2()
				env.srv.VerifRequestLSPUpdate()
				if !isisWaitFor(func() bool { return env.srv.VerifSequenceNumberL2() > before && quiet() }) {
					return &core.Divergence{Step: i, Action: a, Field: "local-lsp", Kind: "missing", Class: "not-regenerated", Got: keys(project())}
				}
			default:
				panic("harness: unknown action " + a)
			}
			if d := compare(i, a, want); d != nil {
				return d
			}
		}
		return nil
	})
}
