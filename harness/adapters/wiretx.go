package adapters

import (
	"bytes"
	"fmt"
	"sort"

	bnet "github.com/bio-routing/bio-rd/net"
	"github.com/bio-routing/bio-rd/protocols/bgp/packet"
	"github.com/bio-routing/bio-rd/protocols/bgp/server"
	"github.com/bio-routing/bio-rd/protocols/bgp/types"
	"github.com/bio-routing/bio-rd/route"

	"verifharness/core"
	"verifharness/wire"
)

// Spec WireTx (C17, C18, wire clauses of C09).

type txCase struct {
	Sess    string `json:"sess"`
	AS      int    `json:"as"`
	Comm    int    `json:"comm"`
	LComm   int    `json:"lcomm"`
	CL      int    `json:"cl"`
	Unk     int    `json:"unk"`
	NPfx    int    `json:"npfx"`
	PLen    int    `json:"plen"`
	Flavour string `json:"flavour"`
}

type txSess struct {
	V6      bool `json:"v6"`
	AddPath bool `json:"addpath"`
	IBGP    bool `json:"ibgp"`
	RRC     bool `json:"rrc"`
	ASN4    bool `json:"asn4"`
}

func txASNs(n int) []uint32 {
	out := make([]uint32, n)
	for i := range out {
		out[i] = 64000 + uint32(i%1000)
	}
	return out
}

func txPath(c txCase, s txSess, med, otc uint32, unknowns []int) *route.Path {
	asns := txASNs(c.AS)
	ap := types.ASPath{}
	for len(asns) > 0 { // a long path is held in segments of at most 255 ASNs, as it would arrive from the wire
		n := len(asns)
		if n > 255 {
			n = 255
		}
		ap = append(ap, types.ASPathSegment{Type: types.ASSequence, ASNs: append([]uint32{}, asns[:n]...)})
		asns = asns[n:]
	}
	b := &route.BGPPath{
		BGPPathA: &route.BGPPathA{NextHop: addr(s.V6, 9).Ptr(), Source: addr(s.V6, 5).Ptr(), LocalPref: 100, MED: med, EBGP: !s.IBGP,
			OnlyToCustomer: otc, BGPIdentifier: 5},
		ASPath: &ap,
	}
	if s.AddPath {
		b.PathIdentifier = 7
	}
	if c.Comm > 0 {
		cs := make(types.Communities, c.Comm)
		for i := range cs {
			cs[i] = 65000<<16 | uint32(i+1)
		}
		b.Communities = &cs
	}
	if c.LComm > 0 {
		ls := make(types.LargeCommunities, c.LComm)
		for i := range ls {
			ls[i] = types.LargeCommunity{GlobalAdministrator: 65000, DataPart1: uint32(i), DataPart2: 3}
		}
		b.LargeCommunities = &ls
	}
	if c.CL > 0 {
		cl := make(types.ClusterList, c.CL)
		for i := range cl {
			cl[i] = 1000 + uint32(i)
		}
		b.ClusterList = &cl
		b.BGPPathA.OriginatorID = 9
	}
	for i, sz := range unknowns {
		v := make([]byte, sz)
		for j := range v {
			v[j] = byte(j + i)
		}
		b.UnknownAttributes = append(b.UnknownAttributes, types.UnknownPathAttribute{Optional: true, Transitive: true, TypeCode: uint8(200 + i), Value: v})
	}
	if c.Flavour == "prepend-full-segment" {
		b.ASPathLen = b.ASPath.Length()
		b.Prepend(65000, 1)
	}
	if c.Flavour == "prepend-many" {
		b.ASPathLen = b.ASPath.Length()
		b.Prepend(65000, 10)
	}
	b.ASPathLen = b.ASPath.Length()
	return &route.Path{Type: route.BGPPathType, BGPPath: b}
}

func txPrefixes(n, plen int, v6 bool) []*bnet.Prefix {
	out := []*bnet.Prefix{}
	for i := 0; i < n; i++ {
		var ip bnet.IP
		if v6 {
			hi, lo := uint64(0x20010db800000000), uint64(0)
			if plen <= 64 {
				hi |= (uint64(i+1) << (64 - uint(plen))) & 0x00000000ffffffff
				if plen < 34 {
					hi = uint64(i+1) << (64 - uint(plen))
				}
			} else {
				lo = uint64(i+1) << (128 - uint(plen))
			}
			ip = bnet.IPv6(hi, lo)
		} else {
			ip = bnet.IPv4(uint32(i+1) << (32 - uint(plen)))
		}
		out = append(out, bnet.NewPfx(ip, uint8(plen)).Ptr())
	}
	return out
}

func flattenSegs(s []wire.Segment) []uint32 {
	out := []uint32{}
	for _, g := range s {
		out = append(out, g.ASNs...)
	}
	return out
}

func init() {
	core.Register("wiretx", func(b *core.Behaviour, p core.Params) *core.Divergence {
		st := b.Steps[0]
		core.At(0, "Tx")
		var c txCase
		var s txSess
		st.Into("case", &c)
		st.Into("sess", &s)
		var unknowns []int
		st.Into("unknowns", &unknowns)
		var typesWant, optTypes []int
		st.Into("types", &typesWant)
		st.Into("opttypes", &optTypes)
		med, otc := uint32(st.Int("med")), uint32(st.Int("otc"))
		base, perpfx, fits := st.Int("base"), st.Int("perpfx"), st.Bool("fits")
		ss := senderSess{V6: s.V6, AddPath: s.AddPath, IBGP: s.IBGP, RRC: s.RRC, ASN4: s.ASN4}
		class := fmt.Sprintf("%s", c.Flavour)
		dv := func(field, kind string, want, got interface{}, detail string) *core.Divergence {
			return &core.Divergence{Action: "Tx", Field: field, Kind: kind, Class: class, Want: want, Got: got,
				Detail: fmt.Sprintf("case=%+v %s", c, detail)}
		}
		con := &captureConn{}
		u := server.VerifNewUpdateSender(con, ss.cfg())
		path := txPath(c, s, med, otc, unknowns)
		wantASNs := []uint32{}
		for _, seg := range *path.BGPPath.ASPath {
			wantASNs = append(wantASNs, seg.ASNs...)
		}
		if len(wantASNs) != st.Int("asn") {
			panic(fmt.Sprintf("harness: built %d ASNs, spec says %d", len(wantASNs), st.Int("asn")))
		}
		pfxs := txPrefixes(c.NPfx, c.PLen, s.V6)
		for _, pf := range pfxs {
			u.AddPath(pf, path)
		}
		u.EndOfRIB()
		raw := con.bytes()
		msgs, rest, err := wire.SplitStream(raw)
		if err != nil || len(rest) != 0 {
			return dv("framing", "wrong", "a sequence of complete messages of 19..4096 bytes", fmt.Sprint(err, " trailing=", len(rest)), "")
		}
		seen := map[string]int{}
		for i, m := range msgs {
			d, err := wire.Decode(m, ss.wireOpt())
			if err != nil {
				return dv("malformed:"+errCategory(err.Error()), "wrong", "well-formed message", err.Error(), fmt.Sprintf("message %d of %d bytes", i, len(m)))
			}
			if d.Update == nil {
				return dv("type", "wrong", "UPDATE", d.Type, "")
			}
			up := d.Update
			if len(up.Announced) == 0 {
				continue // end-of-RIB marker
			}
			if len(m) > 4096 {
				return dv("size", "wrong", "<= 4096", len(m), "")
			}
			for _, n := range up.Announced {
				seen[n.Key()]++
				wantPid := uint32(0)
				if s.AddPath {
					wantPid = 7
				}
				if n.PathID != wantPid {
					return dv("path-id", "wrong", wantPid, n.PathID, "")
				}
			}
			// attributes
			gotTypes := []int{}
			extra := 0
			for _, t := range up.Attrs.Order {
				opt := false
				for _, o := range optTypes {
					if o == t {
						opt = true
					}
				}
				if opt {
					if t == wire.AttrOriginatorID {
						extra += 7
					}
					continue
				}
				gotTypes = append(gotTypes, t)
			}
			sort.Ints(gotTypes)
			wt := append([]int{}, typesWant...)
			sort.Ints(wt)
			if !core.EqualJSON(wt, gotTypes) {
				return dv("attribute-set", "wrong", wt, gotTypes, "")
			}
			if got := flattenSegs(up.Attrs.ASPath); !core.EqualJSON(wantASNs, got) {
				return dv("as-path", "wrong", fmt.Sprintf("%d ASNs %v...", len(wantASNs), head(wantASNs)), fmt.Sprintf("%d ASNs %v...", len(got), head(got)), "")
			}
			if s.IBGP && up.Attrs.LocalPref != 100 {
				return dv("local-pref", "wrong", 100, up.Attrs.LocalPref, "")
			}
			if up.Attrs.MED != med || up.Attrs.OTC != otc {
				return dv("med-otc", "wrong", []uint32{med, otc}, []uint32{up.Attrs.MED, up.Attrs.OTC}, "")
			}
			if len(up.Attrs.Communities) != c.Comm || len(up.Attrs.LargeComm) != c.LComm {
				return dv("communities", "wrong", []int{c.Comm, c.LComm}, []int{len(up.Attrs.Communities), len(up.Attrs.LargeComm)}, "")
			}
			// the content, not only the amount, comes back
			for k, v := range up.Attrs.Communities {
				if v != 65000<<16|uint32(k+1) {
					return dv("communities", "wrong", 65000<<16|uint32(k+1), v, fmt.Sprintf("value of community %d", k))
				}
			}
			for k, v := range up.Attrs.LargeComm {
				if v != [3]uint32{65000, uint32(k), 3} {
					return dv("communities", "wrong", [3]uint32{65000, uint32(k), 3}, v, fmt.Sprintf("value of large community %d", k))
				}
			}
			if s.RRC && c.CL > 0 && (len(up.Attrs.ClusterList) != c.CL || up.Attrs.OriginatorID != 9) {
				return dv("cluster-list", "wrong", c.CL, len(up.Attrs.ClusterList), "")
			}
			if s.RRC && c.CL > 0 {
				for k, v := range up.Attrs.ClusterList {
					if v != 1000+uint32(k) {
						return dv("cluster-list", "wrong", 1000+uint32(k), v, fmt.Sprintf("value of entry %d", k))
					}
				}
			}
			if up.Attrs.Origin != 0 {
				return dv("origin", "wrong", 0, up.Attrs.Origin, "")
			}
			wantNH := addr(s.V6, 9).Bytes()
			if !s.V6 {
				wantNH = wantNH[len(wantNH)-4:]
			}
			if fmt.Sprintf("%x", up.Attrs.NextHop) != fmt.Sprintf("%x", wantNH) {
				return dv("next-hop", "wrong", fmt.Sprintf("%x", wantNH), fmt.Sprintf("%x", up.Attrs.NextHop), "")
			}
			for k, r := range up.Attrs.Unknown {
				if r.Type != 200+k || r.Flags&0xc0 != 0xc0 {
					return dv("unknown-attributes", "wrong", fmt.Sprintf("type %d, optional transitive", 200+k), fmt.Sprintf("type %d flags %#x", r.Type, r.Flags), "")
				}
			}
			if len(up.Attrs.Unknown) != len(unknowns) {
				return dv("unknown-attributes", "wrong", len(unknowns), len(up.Attrs.Unknown), "")
			}
			for k, r := range up.Attrs.Unknown {
				if len(r.Value) != unknowns[k] || (len(r.Value) > 3 && r.Value[3] != byte(3+k)) {
					return dv("unknown-attributes", "wrong", unknowns[k], len(r.Value), "content or length")
				}
			}
			// byte-exact sizes as defined by the spec
			k := len(up.Announced)
			wantAttr, wantLen := base, 23+base+k*perpfx
			if s.V6 {
				mp := 21 + k*perpfx
				if mp > 255 {
					mp += 4
				} else {
					mp += 3
				}
				wantAttr, wantLen = base+mp, 23+base+mp
			}
			// how an AS_PATH is cut into segments (of at most 255 ASNs) is the encoder's choice: 2 bytes per extra segment
			segExtra := 2 * (len(up.Attrs.ASPath) - st.Int("segs"))
			if segExtra < 0 {
				segExtra = 0
			}
			wantAttr, wantLen = wantAttr+extra+segExtra, wantLen+extra+segExtra
			if up.AttrBytes != wantAttr || len(m) != wantLen {
				return dv("size-arithmetic", "wrong", []int{wantAttr, wantLen}, []int{up.AttrBytes, len(m)}, fmt.Sprintf("k=%d", k))
			}
			// the repository's own decoder must read it back with the session's options
			dm, err := packet.Decode(bytes.NewBuffer(m), &packet.DecodeOptions{AddPathIPv4Unicast: s.AddPath && !s.V6,
				AddPathIPv6Unicast: s.AddPath && s.V6, Use32BitASN: s.ASN4})
			if err != nil {
				return dv("self-decode", "wrong", "packet.Decode succeeds", err.Error(), "")
			}
			bu := dm.Body.(*packet.BGPUpdate)
			cnt := 0
			for n := bu.NLRI; n != nil; n = n.Next {
				cnt++
			}
			for pa := bu.PathAttributes; pa != nil; pa = pa.Next {
				if pa.TypeCode == packet.MultiProtocolReachNLRIAttr {
					for n := pa.Value.(packet.MultiProtocolReachNLRI).NLRI; n != nil; n = n.Next {
						cnt++
					}
				}
				if pa.TypeCode == packet.ASPathAttr {
					got := []uint32{}
					for _, seg := range *pa.Value.(*types.ASPath) {
						got = append(got, seg.ASNs...)
					}
					if !core.EqualJSON(wantASNs, got) {
						return dv("self-decode", "wrong", len(wantASNs), len(got), "AS_PATH read back differs")
					}
				}
			}
			if cnt != k {
				return dv("self-decode", "wrong", k, cnt, "number of NLRI read back")
			}
		}
		if !fits {
			if len(seen) > 0 {
				return dv("oversize", "wrong", "nothing emitted (a single prefix does not fit into 4096 bytes)", len(seen), "")
			}
			return nil
		}
		// C18: exactly the queued prefixes, each once
		want := []string{}
		for _, pf := range pfxs {
			afi := wire.AFIIPv4
			if s.V6 {
				afi = wire.AFIIPv6
			}
			n := wire.NLRI{AFI: afi, Len: int(pf.Len()), Addr: pf.Addr().Bytes()[:(int(pf.Len())+7)/8]}
			want = append(want, n.Key())
		}
		got := []string{}
		for k, n := range seen {
			for i := 0; i < n; i++ {
				got = append(got, k)
			}
		}
		if kind, missing, extra := core.SetDiff(want, got); kind != "" {
			return dv("prefix-set", kind, len(want), len(got), fmt.Sprintf("missing=%d extra=%d e.g. %v %v", len(missing), len(extra), head2(missing), head2(extra)))
		}
		return nil
	})
}

func head(a []uint32) []uint32 {
	if len(a) > 4 {
		return a[:4]
	}
	return a
}
func head2(a []string) []string {
	if len(a) > 2 {
		return a[:2]
	}
	return a
}

// errCategory keeps the stable words of a reference decoder error (no numbers).
func errCategory(e string) string {
	out := []rune{}
	for _, r := range e {
		if (r >= 'a' && r <= 'z') || (r >= 'A' && r <= 'Z') || r == '_' || r == ' ' {
			out = append(out, r)
		}
		if len(out) > 40 {
			break
		}
	}
	return string(out)
}
