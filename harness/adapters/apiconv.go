package adapters

import (
	"fmt"

	bnet "github.com/bio-routing/bio-rd/net"
	"github.com/bio-routing/bio-rd/protocols/bgp/types"
	"github.com/bio-routing/bio-rd/route"
	routeapi "github.com/bio-routing/bio-rd/route/api"

	"verifharness/core"
)

// Spec ApiConv (C34).

type convRec struct {
	Type   string `json:"type"`
	NH     uint32 `json:"nh"`
	LP     uint32 `json:"lp"`
	ASP    string `json:"asp"`
	Origin uint8  `json:"origin"`
	MED    uint32 `json:"med"`
	EBGP   bool   `json:"ebgp"`
	ID     uint32 `json:"id"`
	Src    uint32 `json:"src"`
	Comm   string `json:"comm"`
	LComm  string `json:"lcomm"`
	OID    uint32 `json:"oid"`
	CL     string `json:"cl"`
	Unk    string `json:"unk"`
	PID    uint32 `json:"pid"`
	Post   bool   `json:"post"`
	OTC    uint32 `json:"otc"`
	Hidden uint8  `json:"hidden"`
}

func (r convRec) build(v6 bool) *route.Path {
	if r.Type == "static" {
		return &route.Path{Type: route.StaticPathType, HiddenReason: r.Hidden, StaticPath: &route.StaticPath{NextHop: addr(v6, r.NH).Ptr()}}
	}
	b := &route.BGPPath{BGPPathA: &route.BGPPathA{NextHop: addr(v6, r.NH).Ptr(), Source: addr(v6, r.Src).Ptr(), LocalPref: r.LP, MED: r.MED,
		BGPIdentifier: r.ID, OriginatorID: r.OID, EBGP: r.EBGP, Origin: r.Origin, OnlyToCustomer: r.OTC},
		PathIdentifier: r.PID, BMPPostPolicy: r.Post}
	switch r.ASP {
	case "empty":
		b.ASPath = &types.ASPath{}
	case "seq":
		b.ASPath = types.NewASPath([]uint32{65001, 65002})
	case "seqset":
		b.ASPath = &types.ASPath{{Type: types.ASSequence, ASNs: []uint32{65001}}, {Type: types.ASSet, ASNs: []uint32{65003, 65004}}}
	}
	if b.ASPath != nil {
		b.ASPathLen = b.ASPath.Length()
	}
	switch r.Comm {
	case "empty":
		b.Communities = &types.Communities{}
	case "two":
		b.Communities = &types.Communities{65000<<16 | 1, types.WellKnownCommunityNoExport}
	}
	switch r.LComm {
	case "empty":
		b.LargeCommunities = &types.LargeCommunities{}
	case "two":
		b.LargeCommunities = &types.LargeCommunities{{GlobalAdministrator: 1, DataPart1: 2, DataPart2: 3}, {GlobalAdministrator: 4, DataPart1: 5, DataPart2: 6}}
	}
	switch r.CL {
	case "empty":
		b.ClusterList = &types.ClusterList{}
	case "one":
		b.ClusterList = &types.ClusterList{11}
	case "two":
		b.ClusterList = &types.ClusterList{11, 12}
	}
	switch r.Unk {
	case "one":
		b.UnknownAttributes = []types.UnknownPathAttribute{{Optional: true, Transitive: true, TypeCode: 99, Value: []byte{1, 2, 3}}}
	case "two":
		b.UnknownAttributes = []types.UnknownPathAttribute{{Optional: true, Transitive: true, TypeCode: 99, Value: []byte{1, 2, 3}},
			{Optional: true, Transitive: true, Partial: true, TypeCode: 100, Value: []byte{}}}
	}
	return &route.Path{Type: route.BGPPathType, HiddenReason: r.Hidden, BGPPath: b}
}

// classify a real path back into the record of field classes; content of lists is checked against what build() put there
func classifyConv(p *route.Path, v6 bool) (map[string]interface{}, string) {
	if p == nil {
		return nil, "nil path"
	}
	if p.Type == route.StaticPathType {
		if p.StaticPath == nil {
			return nil, "static path without StaticPath"
		}
		return map[string]interface{}{"type": "static", "nh": nhNum(p.StaticPath.NextHop, v6)}, ""
	}
	if p.Type != route.BGPPathType || p.BGPPath == nil || p.BGPPath.BGPPathA == nil {
		return nil, fmt.Sprintf("type %d / nil BGP path", p.Type)
	}
	b, a := p.BGPPath, p.BGPPath.BGPPathA
	out := map[string]interface{}{"type": "bgp", "nh": nhNum(a.NextHop, v6), "lp": a.LocalPref, "origin": a.Origin, "med": a.MED, "ebgp": a.EBGP,
		"id": a.BGPIdentifier, "src": nhNum(a.Source, v6), "oid": a.OriginatorID, "pid": b.PathIdentifier, "post": b.BMPPostPolicy, "otc": a.OnlyToCustomer}
	asp := "empty"
	if b.ASPath != nil && len(*b.ASPath) > 0 {
		s := fmt.Sprint(*b.ASPath)
		switch s {
		case fmt.Sprint(*types.NewASPath([]uint32{65001, 65002})):
			asp = "seq"
		case fmt.Sprint(types.ASPath{{Type: types.ASSequence, ASNs: []uint32{65001}}, {Type: types.ASSet, ASNs: []uint32{65003, 65004}}}):
			asp = "seqset"
		default:
			asp = "?" + s
		}
	}
	out["asp"] = asp
	comm := "empty"
	if b.Communities != nil && len(*b.Communities) > 0 {
		comm = "?" + fmt.Sprint(*b.Communities)
		if fmt.Sprint(*b.Communities) == fmt.Sprint(types.Communities{65000<<16 | 1, types.WellKnownCommunityNoExport}) {
			comm = "two"
		}
	}
	out["comm"] = comm
	lc := "empty"
	if b.LargeCommunities != nil && len(*b.LargeCommunities) > 0 {
		lc = "?" + fmt.Sprint(*b.LargeCommunities)
		if fmt.Sprint(*b.LargeCommunities) == fmt.Sprint(types.LargeCommunities{{GlobalAdministrator: 1, DataPart1: 2, DataPart2: 3}, {GlobalAdministrator: 4, DataPart1: 5, DataPart2: 6}}) {
			lc = "two"
		}
	}
	out["lcomm"] = lc
	cl := "empty"
	if b.ClusterList != nil && len(*b.ClusterList) > 0 {
		switch fmt.Sprint([]uint32(*b.ClusterList)) {
		case "[11]":
			cl = "one"
		case "[11 12]":
			cl = "two"
		default:
			cl = "?" + fmt.Sprint(*b.ClusterList)
		}
	}
	out["cl"] = cl
	unk := "empty"
	if len(b.UnknownAttributes) > 0 {
		unk = "?" + fmt.Sprint(b.UnknownAttributes)
		u := b.UnknownAttributes
		ok1 := u[0].Optional && u[0].Transitive && !u[0].Partial && u[0].TypeCode == 99 && fmt.Sprint(u[0].Value) == "[1 2 3]"
		if len(u) == 1 && ok1 {
			unk = "one"
		}
		if len(u) == 2 && ok1 && u[1].Optional && u[1].Transitive && u[1].Partial && u[1].TypeCode == 100 && len(u[1].Value) == 0 {
			unk = "two"
		}
	}
	out["unk"] = unk
	return out, ""
}

func init() {
	core.Register("apiconv", func(b *core.Behaviour, p core.Params) *core.Divergence {
		st := b.Steps[0]
		core.At(0, "Conv")
		var rec convRec
		st.Into("p", &rec)
		var want map[string]interface{}
		st.Into("api", &want)
		v6 := p.Bool("v6", false)
		emb := getEmbedding("v4o8")
		if v6 {
			emb = getEmbedding("v6o60")
		}
		pfx := emb.Pfx("0110")
		path := rec.build(v6)
		var ar *routeapi.Route
		ar = route.NewRoute(pfx, path).ToProto()
		back := route.RouteFromProtoRoute(ar, p.Bool("dedup", false))
		if !back.Prefix().Equal(pfx) {
			return &core.Divergence{Action: "Conv", Field: "prefix", Kind: "wrong", Want: pfx.String(), Got: back.Prefix().String()}
		}
		if len(back.Paths()) != 1 {
			return &core.Divergence{Action: "Conv", Field: "paths", Kind: "wrong", Want: 1, Got: len(back.Paths())}
		}
		got, errs := classifyConv(back.Paths()[0], v6)
		if errs != "" {
			return &core.Divergence{Action: "Conv", Field: "path", Kind: "wrong", Class: rec.Type, Want: want, Got: errs}
		}
		for _, k := range sortedKeys(want) {
			if !core.EqualJSON(want[k], got[k]) {
				return &core.Divergence{Action: "Conv", Field: "attribute", Kind: "wrong", Class: k, Want: want[k], Got: got[k],
					Detail: fmt.Sprintf("record=%+v", rec)}
			}
		}
		if st.Bool("hidden") && ar.Paths[0].HiddenReason == routeapi.Path_HiddenReasonNone {
			return &core.Divergence{Action: "Conv", Field: "hidden", Kind: "wrong", Class: fmt.Sprintf("reason=%d", rec.Hidden),
				Want: "API hidden reason != none", Got: "HiddenReasonNone"}
		}
		if !st.Bool("hidden") && ar.Paths[0].HiddenReason != routeapi.Path_HiddenReasonNone {
			return &core.Divergence{Action: "Conv", Field: "hidden", Kind: "wrong", Class: "visible-reported-hidden", Want: "none", Got: ar.Paths[0].HiddenReason.String()}
		}
		return nil
	})
}

var _ = bnet.IP{}
