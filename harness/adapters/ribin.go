package adapters

import (
	"encoding/json"
	"fmt"
	"sort"
	"sync"

	bnet "github.com/bio-routing/bio-rd/net"
	"github.com/bio-routing/bio-rd/protocols/bgp/packet"
	"github.com/bio-routing/bio-rd/protocols/bgp/types"
	"github.com/bio-routing/bio-rd/route"
	"github.com/bio-routing/bio-rd/routingtable"
	"github.com/bio-routing/bio-rd/routingtable/adjRIBIn"
	"github.com/bio-routing/bio-rd/routingtable/filter"
	"github.com/bio-routing/bio-rd/routingtable/locRIB"
	"github.com/bio-routing/bio-rd/routingtable/vrf"

	"verifharness/core"
)

// Spec RibIn (C05, C06, C12 import side).

// ribPath is the abstract path record of RibIn / RibOut.
type ribPath struct {
	Type string   `json:"type"`
	LP   uint32   `json:"lp"`
	MED  uint32   `json:"med"`
	NH   uint32   `json:"nh"`
	ASP  []uint32 `json:"asp"`
	OID  uint32   `json:"oid"`
	CL   []uint32 `json:"cl"`
	OTC  uint32   `json:"otc"`
	PID  uint32   `json:"pid"`
}

func (r ribPath) norm() ribPath {
	if r.ASP == nil {
		r.ASP = []uint32{}
	}
	if r.CL == nil {
		r.CL = []uint32{}
	}
	return r
}

var roleByName = map[string]uint8{
	"provider": packet.PeerRoleRoleProvider, "rs": packet.PeerRoleRoleRS, "rsclient": packet.PeerRoleRoleRSClient,
	"customer": packet.PeerRoleRoleCustomer, "peer": packet.PeerRoleRolePeer,
}

func nhNum(ip *bnet.IP, v6 bool) uint32 {
	if ip == nil {
		return 0xffffffff
	}
	if v6 {
		return uint32(ip.Lower())
	}
	return ip.ToUint32() &^ 0x0a000000
}

func buildRibPath(r ribPath, v6, ebgp bool, src *bnet.IP, comm []uint32) *route.Path {
	b := &route.BGPPath{
		BGPPathA: &route.BGPPathA{
			NextHop:        addr(v6, r.NH).Ptr(),
			Source:         src,
			LocalPref:      r.LP,
			MED:            r.MED,
			OriginatorID:   r.OID,
			EBGP:           ebgp,
			OnlyToCustomer: r.OTC,
			BGPIdentifier:  uint32(src.Lower() & 0xffff),
		},
		PathIdentifier: r.PID,
	}
	if len(r.ASP) == 0 {
		b.ASPath = &types.ASPath{}
	} else {
		b.ASPath = types.NewASPath(append([]uint32{}, r.ASP...))
	}
	b.ASPathLen = b.ASPath.Length()
	if len(r.CL) > 0 {
		cl := types.ClusterList(append([]uint32{}, r.CL...))
		b.ClusterList = &cl
	}
	if len(comm) > 0 {
		c := types.Communities(append([]uint32{}, comm...))
		b.Communities = &c
	}
	return &route.Path{Type: route.BGPPathType, BGPPath: b}
}

func projectRibPath(p *route.Path, v6 bool) ribPath {
	out := ribPath{ASP: []uint32{}, CL: []uint32{}}
	if p == nil {
		out.Type = "nil"
		return out
	}
	switch p.Type {
	case route.StaticPathType:
		out.Type = "static"
		if p.StaticPath != nil {
			out.NH = nhNum(p.StaticPath.NextHop, v6)
		}
	case route.BGPPathType:
		out.Type = "bgp"
		a := p.BGPPath.BGPPathA
		out.LP, out.MED, out.OID, out.OTC = a.LocalPref, a.MED, a.OriginatorID, a.OnlyToCustomer
		out.NH = nhNum(a.NextHop, v6)
		out.PID = p.BGPPath.PathIdentifier
		if p.BGPPath.ASPath != nil {
			for _, seg := range *p.BGPPath.ASPath {
				out.ASP = append(out.ASP, seg.ASNs...)
			}
		}
		if p.BGPPath.ClusterList != nil {
			out.CL = append(out.CL, (*p.BGPPath.ClusterList)...)
		}
	default:
		out.Type = fmt.Sprint("type", p.Type)
	}
	return out
}

type ribEntry struct {
	Pfx  []int   `json:"pfx"`
	Path ribPath `json:"path"`
}

func entryKey(pfxBits string, p ribPath) string {
	j, _ := json.Marshal(p.norm())
	return "/" + pfxBits + " " + string(j)
}

// pathRecorder is a consumer that stores projected paths (multiset).
type pathRecorder struct {
	mu     sync.Mutex
	emb    Embedding
	have   map[string]int
	events []string
}

func newPathRecorder(emb Embedding) *pathRecorder {
	return &pathRecorder{emb: emb, have: map[string]int{}}
}
func (c *pathRecorder) key(pfx *bnet.Prefix, p *route.Path) string {
	return entryKey(c.emb.Bits(pfx), projectRibPath(p, c.emb.V6))
}
func (c *pathRecorder) AddPath(pfx *bnet.Prefix, p *route.Path) error {
	c.mu.Lock()
	defer c.mu.Unlock()
	k := c.key(pfx, p)
	c.have[k]++
	c.events = append(c.events, "add "+k)
	return nil
}
func (c *pathRecorder) AddPathInitialDump(pfx *bnet.Prefix, p *route.Path) error {
	return c.AddPath(pfx, p)
}
func (c *pathRecorder) EndOfRIB() {}
func (c *pathRecorder) RemovePath(pfx *bnet.Prefix, p *route.Path) bool {
	c.mu.Lock()
	defer c.mu.Unlock()
	k := c.key(pfx, p)
	c.events = append(c.events, "remove "+k)
	if c.have[k] == 0 {
		c.have["!withdrawn-unknown "+k]++
		return false
	}
	c.have[k]--
	if c.have[k] == 0 {
		delete(c.have, k)
	}
	return true
}
func (c *pathRecorder) ReplacePath(pfx *bnet.Prefix, o, n *route.Path) {
	c.RemovePath(pfx, o)
	c.AddPath(pfx, n)
}
func (c *pathRecorder) RefreshRoute(*bnet.Prefix, []*route.Path) {}
func (c *pathRecorder) Dispose()                                 {}
func (c *pathRecorder) keys() []string {
	c.mu.Lock()
	defer c.mu.Unlock()
	out := []string{}
	for k, n := range c.have {
		for i := 0; i < n; i++ {
			out = append(out, k)
		}
	}
	sort.Strings(out)
	return out
}

var _ routingtable.RouteTableClient = (*pathRecorder)(nil)

func locribKeys(lr *locRIB.LocRIB, emb Embedding) []string {
	out := []string{}
	for _, r := range lr.Dump() {
		for _, p := range r.Paths() {
			out = append(out, entryKey(emb.Bits(r.Prefix()), projectRibPath(p, emb.V6)))
		}
	}
	sort.Strings(out)
	return out
}

func entriesKeys(es []ribEntry) []string {
	out := []string{}
	for _, e := range es {
		out = append(out, entryKey(bitsOf(e.Pfx), e.Path))
	}
	sort.Strings(out)
	return out
}

type ribinCfg struct {
	IBGP    bool   `json:"ibgp"`
	AddPath bool   `json:"addpath"`
	Roles   bool   `json:"roles"`
	Remote  string `json:"remote"`
}

func init() {
	core.Register("ribin", func(b *core.Behaviour, p core.Params) *core.Divergence {
		emb := getEmbedding(p.Str("emb", "v4o8"))
		var (
			in      *adjRIBIn.AdjRIBIn
			lr      *locRIB.LocRIB
			late    *pathRecorder
			cfg     ribinCfg
			peerIP  = addr(emb.V6, 201).Ptr()
			localIP = addr(emb.V6, 200).Ptr()
		)
		for i, st := range b.Steps {
			a := st.Str("a")
			core.At(i, a)
			switch a {
			case "Config":
				st.Into("cfg", &cfg)
				var ch polChain
				st.Into("chain", &ch)
				v := vrf.NewUntrackedVRF("verif", 0)
				v.AddContributingASN(65000)
				v.AddContributingClusterID(88)
				peerASN := uint32(65001)
				if cfg.IBGP {
					peerASN = 65000
				}
				sa := routingtable.SessionAttrs{
					RouterID: 77, PeerIP: peerIP, LocalIP: localIP, Type: route.BGPPathType, IBGP: cfg.IBGP,
					LocalASN: 65000, PeerASN: peerASN, ClusterID: 88, AddPathRX: cfg.AddPath,
					PeerRoleEnabled: cfg.Roles, PeerRoleAdvByPeer: cfg.Roles, PeerRoleRemote: roleByName[cfg.Remote],
				}
				in = adjRIBIn.New(buildChain(ch, emb), v, sa)
				lr = locRIB.New("verif")
				in.Register(lr)
				late = newPathRecorder(emb)
			case "Announce":
				var br ribPath
				st.Into("br", &br)
				br.PID = uint32(st.Int("pid"))
				var pfx []int
				st.Into("pfx", &pfx)
				in.AddPath(emb.Pfx(bitsOf(pfx)), buildRibPath(br, emb.V6, !cfg.IBGP, peerIP, nil))
			case "Withdraw":
				var pfx []int
				st.Into("pfx", &pfx)
				in.RemovePath(emb.Pfx(bitsOf(pfx)), &route.Path{Type: route.BGPPathType,
					BGPPath: &route.BGPPath{PathIdentifier: uint32(st.Int("pid"))}})
			case "Flush":
				in.Flush()
			case "Register":
				if st.Str("c") == "loc" {
					in.Register(lr)
				} else {
					late = newPathRecorder(emb)
					in.Register(late)
				}
			case "Unregister":
				if st.Str("c") == "loc" {
					in.Unregister(lr)
				} else {
					in.Unregister(late)
				}
			case "ReplacePolicy":
				var ch polChain
				st.Into("chain", &ch)
				in.ReplaceFilterChain(buildChain(ch, emb))
			default:
				panic("harness: unknown action " + a)
			}
			var exp struct {
				AdjIn []struct {
					Pfx []int  `json:"pfx"`
					PID int    `json:"pid"`
					B   string `json:"b"`
				} `json:"adjin"`
				Reg map[string]bool       `json:"reg"`
				Got map[string][]ribEntry `json:"got"`
			}
			st.Into("st", &exp)
			// Adj-RIB-In content: (prefix, path id) keys
			wantIn := []string{}
			for _, e := range exp.AdjIn {
				wantIn = append(wantIn, fmt.Sprintf("/%s#%d", bitsOf(e.Pfx), e.PID))
			}
			gotIn := []string{}
			for _, r := range in.Dump() {
				for _, pth := range r.Paths() {
					gotIn = append(gotIn, fmt.Sprintf("/%s#%d", emb.Bits(r.Prefix()), pth.BGPPath.PathIdentifier))
				}
			}
			if kind, _, _ := core.SetDiff(wantIn, gotIn); kind != "" {
				return &core.Divergence{Step: i, Action: a, Field: "adj-rib-in", Kind: kind, Want: wantIn, Got: gotIn}
			}
			for _, c := range []string{"loc", "late"} {
				want := entriesKeys(exp.Got[c])
				var got []string
				if c == "loc" {
					got = locribKeys(lr, emb)
				} else {
					got = late.keys()
				}
				if kind, missing, extra := core.SetDiff(want, got); kind != "" {
					class := c
					if !exp.Reg[c] {
						class += ":unregistered"
					}
					return &core.Divergence{Step: i, Action: a, Field: "consumer", Kind: kind, Class: class,
						Want: want, Got: got, Detail: fmt.Sprintf("missing=%v extra=%v", missing, extra)}
				}
			}
		}
		return nil
	})
}

var _ = filter.Chain{}
