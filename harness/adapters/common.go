// Package adapters binds the TLA+ specifications in /verif/specs to the real bio-rd code.
package adapters

import (
	"fmt"
	"sort"

	bnet "github.com/bio-routing/bio-rd/net"
	"github.com/bio-routing/bio-rd/protocols/bgp/types"
	"github.com/bio-routing/bio-rd/route"
)

// ---------------------------------------------------------------- prefixes

// Embedding places an abstract bit string (bits, most significant first) behind a
// fixed stem of `Offset` bits in an IPv4 or IPv6 address.
type Embedding struct {
	Name   string
	V6     bool
	Offset int
	Stem   [2]uint64 // stem bits, left aligned (for IPv4 only the top 32 bits of Stem[0] are used)
}

// Embeddings places the abstract universe around the interesting boundaries of
// the real address space (bit 0, byte boundary, bits 32/64/128).
var Embeddings = map[string]Embedding{
	"v4o0":   {Name: "v4o0", V6: false, Offset: 0},
	"v4o8":   {Name: "v4o8", V6: false, Offset: 8, Stem: [2]uint64{0x0a00000000000000, 0}},
	"v4o27":  {Name: "v4o27", V6: false, Offset: 27, Stem: [2]uint64{0xc0a8ffe000000000, 0}},
	"v4o28":  {Name: "v4o28", V6: false, Offset: 28, Stem: [2]uint64{0xc0a8fff000000000, 0}},
	"v6o0":   {Name: "v6o0", V6: true, Offset: 0},
	"v6o28":  {Name: "v6o28", V6: true, Offset: 28, Stem: [2]uint64{0x20010db000000000, 0}},
	"v6o30":  {Name: "v6o30", V6: true, Offset: 30, Stem: [2]uint64{0x20010db800000000, 0}},
	"v6o60":  {Name: "v6o60", V6: true, Offset: 60, Stem: [2]uint64{0x20010db8aaaa5550, 0}},
	"v6o62":  {Name: "v6o62", V6: true, Offset: 62, Stem: [2]uint64{0x20010db8aaaa5554, 0}},
	"v6o123": {Name: "v6o123", V6: true, Offset: 123, Stem: [2]uint64{0x20010db8aaaa5555, 0xffff0000ffff0fe0}},
	"v6o124": {Name: "v6o124", V6: true, Offset: 124, Stem: [2]uint64{0x20010db8aaaa5555, 0xffff0000ffff0ff0}},
}

// Pfx maps the abstract prefix (bit string such as "", "0", "01", "0110") to a real prefix.
func (e Embedding) Pfx(bits string) *bnet.Prefix {
	hi, lo := e.Stem[0], e.Stem[1]
	for i, c := range bits {
		if c != '1' {
			continue
		}
		pos := e.Offset + i
		if pos < 64 {
			hi |= 1 << uint(63-pos)
		} else {
			lo |= 1 << uint(127-pos)
		}
	}
	l := uint8(e.Offset + len(bits))
	if e.V6 {
		return bnet.NewPfx(bnet.IPv6(hi, lo), l).Ptr()
	}
	return bnet.NewPfx(bnet.IPv4(uint32(hi>>32)), l).Ptr()
}

// Bits is the inverse of Pfx ("?" + string if the prefix is not in the image).
func (e Embedding) Bits(p *bnet.Prefix) string {
	if p == nil {
		return "?nil"
	}
	if p.Addr().IsIPv4() == e.V6 || int(p.Len()) < e.Offset {
		return "?" + p.String()
	}
	n := int(p.Len()) - e.Offset
	out := make([]byte, n)
	a := p.Addr()
	for i := 0; i < n; i++ {
		pos := e.Offset + i
		var bit bool
		if e.V6 {
			if pos < 64 {
				bit = a.Higher()&(1<<uint(63-pos)) != 0
			} else {
				bit = a.Lower()&(1<<uint(127-pos)) != 0
			}
		} else {
			bit = a.ToUint32()&(1<<uint(31-pos)) != 0
		}
		if bit {
			out[i] = '1'
		} else {
			out[i] = '0'
		}
	}
	if !e.Pfx(string(out)).Equal(p) {
		return "?" + p.String()
	}
	return string(out)
}

func getEmbedding(name string) Embedding {
	e, ok := Embeddings[name]
	if !ok {
		panic("harness: unknown embedding " + name)
	}
	return e
}

// ---------------------------------------------------------------- paths

// PathRec is the abstract path record shared by the specs (all fields optional).
type PathRec struct {
	Name  string   `json:"name,omitempty"`
	Type  string   `json:"type,omitempty"` // "bgp" (default) | "static"
	LP    uint32   `json:"lp"`
	ASLen int      `json:"aslen"`
	ASN   []uint32 `json:"asn,omitempty"` // explicit AS path (overrides ASLen)
	NAS   int      `json:"nas,omitempty"` // neighbour AS class (first AS of the generated AS path)
	Orig  uint8    `json:"origin"`
	MED   uint32   `json:"med"`
	EBGP  bool     `json:"ebgp"`
	ID    uint32   `json:"id"`
	OID   uint32   `json:"oid"`
	CL    int      `json:"cl"` // -1 absent, 0 empty, n>0 n entries
	CLV   []uint32 `json:"clv,omitempty"`
	Src   uint32   `json:"src"`
	NH    uint32   `json:"nh"`
	PID   uint32   `json:"pid"`
	Comm  []uint32 `json:"comm,omitempty"`
	OTC   uint32   `json:"otc"`
}

// Build creates a fresh route.Path (fresh pointers on every call).
func (r PathRec) Build(v6 bool) *route.Path {
	if r.Type == "static" {
		return &route.Path{Type: route.StaticPathType, StaticPath: &route.StaticPath{NextHop: addr(v6, r.NH).Ptr()}}
	}
	asns := r.ASN
	if asns == nil {
		asns = make([]uint32, r.ASLen)
		for i := range asns {
			asns[i] = 65000 + uint32(i)
		}
		if r.NAS > 0 && len(asns) > 0 {
			asns[0] = 64000 + uint32(r.NAS) // the neighbour AS
		}
	}
	b := &route.BGPPath{
		BGPPathA: &route.BGPPathA{
			NextHop:        addr(v6, r.NH).Ptr(),
			Source:         addr(v6, r.Src).Ptr(),
			LocalPref:      r.LP,
			MED:            r.MED,
			BGPIdentifier:  r.ID,
			OriginatorID:   r.OID,
			EBGP:           r.EBGP,
			Origin:         r.Orig,
			OnlyToCustomer: r.OTC,
		},
		PathIdentifier: r.PID,
	}
	if len(asns) == 0 {
		b.ASPath = &types.ASPath{}
	} else {
		b.ASPath = types.NewASPath(asns)
	}
	b.ASPathLen = b.ASPath.Length()
	switch {
	case r.CLV != nil:
		cl := types.ClusterList(append([]uint32{}, r.CLV...))
		b.ClusterList = &cl
	case r.CL == 0:
		cl := types.ClusterList{}
		b.ClusterList = &cl
	case r.CL > 0:
		cl := make(types.ClusterList, r.CL)
		for i := range cl {
			cl[i] = 900 + uint32(i)
		}
		b.ClusterList = &cl
	}
	if len(r.Comm) > 0 {
		c := types.Communities(append([]uint32{}, r.Comm...))
		b.Communities = &c
	}
	return &route.Path{Type: route.BGPPathType, BGPPath: b}
}

func addr(v6 bool, v uint32) bnet.IP {
	if v6 {
		return bnet.IPv6(0x20010db800000000, uint64(v))
	}
	return bnet.IPv4(0x0a000000 | v)
}

func sortedStrings(m map[string]bool) []string {
	out := make([]string, 0, len(m))
	for k := range m {
		out = append(out, k)
	}
	sort.Strings(out)
	return out
}

func sfmt(f string, a ...interface{}) string { return fmt.Sprintf(f, a...) }

// panicClassFromStack names the innermost bio-rd frame of a stack trace.
func panicClassFromStack(stack string) string {
	lines := []string{}
	cur := ""
	for _, r := range stack {
		if r == '\n' {
			lines = append(lines, cur)
			cur = ""
		} else {
			cur += string(r)
		}
	}
	for _, l := range lines {
		const pfx = "github.com/bio-routing/bio-rd/"
		for len(l) > 0 && (l[0] == ' ' || l[0] == '\t') {
			l = l[1:]
		}
		if len(l) > len(pfx) && l[:len(pfx)] == pfx {
			fn := l[len(pfx):]
			for i := len(fn) - 1; i > 0; i-- {
				if fn[i] == '(' {
					fn = fn[:i]
					break
				}
			}
			return fn
		}
	}
	return "?"
}
