package adapters

import (
	"fmt"

	"verifharness/core"
)

func sign(x int8) int {
	switch {
	case x > 0:
		return 1
	case x < 0:
		return -1
	}
	return 0
}

// Spec Decision (C02, C03): pairs of paths with the expected preference.
func init() {
	core.Register("decision", func(b *core.Behaviour, p core.Params) *core.Divergence {
		st := b.Steps[0]
		core.At(0, "Pair")
		var pr, qr PathRec
		st.Into("p", &pr)
		st.Into("q", &qr)
		want := st.Int("cmp")
		step := st.Str("step")
		v6 := p.Bool("v6", false)
		P, Q := pr.Build(v6), qr.Build(v6)
		pq, qp := sign(P.Select(Q)), sign(Q.Select(P))
		dv := func(field string, w, g interface{}) *core.Divergence {
			return &core.Divergence{Action: "Pair", Field: field, Kind: "wrong", Class: step, Want: w, Got: g,
				Detail: fmt.Sprintf("p=%+v q=%+v", pr, qr)}
		}
		if pq != -qp {
			return dv("antisymmetry", "Select(p,q) = -Select(q,p)", fmt.Sprintf("Select(p,q)=%d Select(q,p)=%d", pq, qp))
		}
		if step == "nexthop" {
			// the direction of the final next-hop comparison is not prescribed: only "distinguished"
			if pq == 0 {
				return dv("select", "non-zero", pq)
			}
		} else if pq != want {
			return dv("select", want, pq)
		}
		if pr.Type == qr.Type {
			if got := P.ECMP(Q); got != st.Bool("ecmp") {
				return dv("ecmp", st.Bool("ecmp"), got)
			}
		}
		return nil
	})
}
