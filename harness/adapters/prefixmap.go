package adapters

import (
	"fmt"
	"sort"
	"strings"

	bnet "github.com/bio-routing/bio-rd/net"
	"github.com/bio-routing/bio-rd/route"
	"github.com/bio-routing/bio-rd/routingtable"
	"github.com/bio-routing/bio-rd/routingtable/locRIB"

	"verifharness/core"
)

// Spec PrefixMap (C01).

func bitsOf(seq []int) string {
	var sb strings.Builder
	for _, b := range seq {
		if b == 1 {
			sb.WriteByte('1')
		} else {
			sb.WriteByte('0')
		}
	}
	return sb.String()
}

func bitsList(seqs [][]int) []string {
	out := make([]string, 0, len(seqs))
	for _, s := range seqs {
		out = append(out, "/"+bitsOf(s))
	}
	sort.Strings(out)
	return out
}

type pmTable interface {
	AddPath(*bnet.Prefix, *route.Path) error
	Get(*bnet.Prefix) *route.Route
	LPM(*bnet.Prefix) []*route.Route
	GetLonger(*bnet.Prefix) []*route.Route
	Dump() []*route.Route
}

type pmQueries struct {
	Dump  [][]int `json:"dump"`
	Count int     `json:"count"`
	Qs    []struct {
		Q      []int    `json:"q"`
		Get    []string `json:"get"`
		LPM    [][]int  `json:"lpm"`
		Longer [][]int  `json:"longer"`
	} `json:"qs"`
}

var pmPaths = map[string]PathRec{
	"x": {LP: 100, ASLen: 2, ID: 1, Src: 1, NH: 1, CL: -1},
	"y": {LP: 200, ASLen: 1, ID: 2, Src: 2, NH: 2, CL: -1},
	"z": {LP: 100, ASLen: 3, ID: 3, Src: 3, NH: 3, CL: -1},
}

func init() {
	core.Register("prefixmap", func(b *core.Behaviour, p core.Params) *core.Divergence {
		emb := getEmbedding(p.Str("emb", "v4o8"))
		via := p.Str("via", "table")
		pb := newPathBook(emb.V6)
		for n, r := range pmPaths {
			pb.learn(n, r)
		}
		rt := routingtable.NewRoutingTable()
		lr := locRIB.New("verif")
		var tbl pmTable = rt
		if via == "locrib" {
			tbl = lr
		}
		routeNames := func(rs []*route.Route) []string {
			out := []string{}
			for _, r := range rs {
				out = append(out, "/"+emb.Bits(r.Prefix()))
			}
			sort.Strings(out)
			return out
		}
		for i, st := range b.Steps {
			a := st.Str("a")
			core.At(i, a)
			var pfxSeq []int
			st.Into("pfx", &pfxSeq)
			pfx := emb.Pfx(bitsOf(pfxSeq))
			id := st.Str("id")
			switch a {
			case "AddPath":
				tbl.AddPath(pfx, pb.build(id))
			case "RemovePath":
				if via == "locrib" {
					lr.RemovePath(pfx, pb.build(id))
				} else {
					rt.RemovePath(pfx, pb.build(id))
				}
			case "ReplacePath":
				rt.ReplacePath(pfx, pb.build(id))
			case "RemovePfx":
				rt.RemovePfx(pfx)
			default:
				panic("harness: unknown action " + a)
			}
			if !st.Has("q") {
				continue
			}
			var q pmQueries
			st.Into("q", &q)
			class := func(qbits string, stored bool) string {
				s := "query-stored"
				if !stored {
					s = "query-absent"
				}
				return s
			}
			dv := func(field, kind, cls string, want, got interface{}, q string) *core.Divergence {
				return &core.Divergence{Step: i, Action: a, Field: field, Kind: kind, Class: cls, Want: want, Got: got,
					Detail: fmt.Sprintf("emb=%s query=/%s (%s)", emb.Name, q, emb.Pfx(q))}
			}
			wantDump := bitsList(q.Dump)
			gotDump := routeNames(tbl.Dump())
			if kind, _, _ := core.SetDiff(wantDump, gotDump); kind != "" {
				return dv("dump", kind, "", wantDump, gotDump, "")
			}
			var cnt int
			if via == "locrib" {
				cnt = int(lr.Count())
			} else {
				cnt = int(rt.GetRouteCount())
			}
			if cnt != q.Count {
				return dv("count", "wrong", "", q.Count, cnt, "")
			}
			stored := map[string]bool{}
			for _, d := range wantDump {
				stored[d] = true
			}
			for _, qq := range q.Qs {
				qb := bitsOf(qq.Q)
				qp := emb.Pfx(qb)
				cls := class(qb, stored["/"+qb])
				// exact lookup
				r := tbl.Get(qp)
				got := []string{}
				if r != nil {
					for _, pth := range r.Paths() {
						got = append(got, pb.nameOf(pth))
					}
				}
				sort.Strings(got)
				want := append([]string{}, qq.Get...)
				sort.Strings(want)
				if kind, _, _ := core.SetDiff(want, got); kind != "" {
					return dv("get", kind, cls, want, got, qb)
				}
				if r != nil && !r.Prefix().Equal(qp) {
					return dv("get", "wrong", cls, qp.String(), r.Prefix().String(), qb)
				}
				wl, gl := bitsList(qq.LPM), routeNames(tbl.LPM(qp))
				if kind, _, _ := core.SetDiff(wl, gl); kind != "" {
					return dv("lpm", kind, cls, wl, gl, qb)
				}
				wg, gg := bitsList(qq.Longer), routeNames(tbl.GetLonger(qp))
				if kind, _, _ := core.SetDiff(wg, gg); kind != "" {
					return dv("getlonger", kind, cls, wg, gg, qb)
				}
			}
		}
		return nil
	})
}
