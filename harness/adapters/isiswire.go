package adapters

import (
	"bytes"
	"encoding/hex"
	"encoding/json"
	"fmt"
	"hash/fnv"
	"math/rand"
	"runtime/debug"
	"sort"
	"strings"

	bnet "github.com/bio-routing/bio-rd/net"
	"github.com/bio-routing/bio-rd/protocols/isis/packet"
	itypes "github.com/bio-routing/bio-rd/protocols/isis/types"

	"verifharness/core"
)

// Spec ISISWire (C30): IS-IS PDU round trip and decoding totality.
//
// A case carries an abstract PDU (kind, class of fixed values, TLV descriptors [k, n, w]). The adapter
// concretises it: values come from a generator that is deterministic in (params.fill, the case), the real
// structures are built with the package's own constructors (as the IS-IS server does), serialised with the
// package's Serialize behind the LLC header the ethernet layer adds, and handed to packet.Decode.

type wTLV struct {
	K string `json:"k"`
	N int    `json:"n"`
	W int    `json:"w"`
}

type wPDU struct {
	Kind string `json:"kind"`
	Fix  string `json:"fix"`
	TLVs []wTLV `json:"tlvs"`
}

type wMut struct {
	Class string `json:"class"`
	At    int    `json:"at"`
	Off   int    `json:"off"`
	W     int    `json:"w"`
	Val   int    `json:"val"`
	N     int    `json:"n"`
}

// valGen produces field values: all zero, all ones, or seeded random ("typ").
type valGen struct {
	fix string
	r   *rand.Rand
}

func newValGen(fix string, fill int, key []byte) *valGen {
	h := fnv.New64a()
	h.Write(key)
	return &valGen{fix: fix, r: rand.New(rand.NewSource(int64(h.Sum64()) ^ int64(fill)*7919))}
}

func (g *valGen) u32() uint32 {
	switch g.fix {
	case "zero":
		return 0
	case "max":
		return 0xffffffff
	}
	return g.r.Uint32()
}
func (g *valGen) u16() uint16 { return uint16(g.u32()) }
func (g *valGen) u8() uint8   { return uint8(g.u32()) }
func (g *valGen) bytes(n int) []byte {
	b := make([]byte, n)
	for i := range b {
		b[i] = g.u8()
	}
	return b
}
func (g *valGen) sysID() (s itypes.SystemID) {
	copy(s[:], g.bytes(6))
	return
}

// group is the canonical content of a run of adjacent TLVs of one type: the items of typed TLVs in order,
// or the raw value bytes for TLVs the decoder hands back opaquely. How the content is split over several
// TLVs of the same type is left open.
type group struct {
	Typ   uint8    `json:"typ"`
	Items []string `json:"items,omitempty"`
	Raw   string   `json:"raw,omitempty"`
	NTLV  int      `json:"ntlv"`
	Len   int      `json:"len"` // sum of declared lengths
	kind  string
	typed bool // Items is meaningful (expected side: the kind has typed content; decoded side: the decoder returned a typed TLV)
}

func lspEntryStr(e *packet.LSPEntry) string {
	return fmt.Sprintf("%d/%x.%d.%d/%d/%d", e.RemainingLifetime, e.LSPID.SystemID[:], e.LSPID.PseudonodeID, e.LSPID.LSPNumber, e.SequenceNumber, e.LSPChecksum)
}

func (g *valGen) lspEntry() *packet.LSPEntry {
	return &packet.LSPEntry{RemainingLifetime: g.u16(), LSPID: packet.LSPID{SystemID: g.sysID(), PseudonodeID: g.u8(), LSPNumber: g.u8()},
		SequenceNumber: g.u32(), LSPChecksum: g.u16()}
}

// buildTLV builds the real TLV through the package's constructor and the content expected after decoding.
func buildTLV(t wTLV, g *valGen) (packet.TLV, group) {
	gr := group{kind: t.K, NTLV: 1}
	var tlv packet.TLV
	switch t.K {
	case "area":
		areas := []itypes.AreaID{}
		for i := 0; i < t.N; i++ {
			a := itypes.AreaID(g.bytes(t.W))
			areas = append(areas, a)
			gr.Items = append(gr.Items, hex.EncodeToString(a))
		}
		tlv = packet.NewAreaAddressesTLV(areas)
	case "proto":
		ids := g.bytes(t.N)
		if g.fix == "typ" {
			for i := range ids {
				ids[i] = []byte{packet.NLPIDIPv4, packet.NLPIDIPv6, 0x81}[i%3]
			}
		}
		for _, p := range ids {
			gr.Items = append(gr.Items, fmt.Sprint(p))
		}
		tlv = packet.NewProtocolsSupportedTLV(ids) // a value, as the server uses it
	case "ipaddr":
		pfxs := []*bnet.Prefix{}
		for i := 0; i < t.N; i++ {
			a := g.u32()
			pfxs = append(pfxs, bnet.NewPfx(bnet.IPv4(a), 32).Ptr())
			gr.Items = append(gr.Items, fmt.Sprint(a))
		}
		tlv = packet.NewIPInterfaceAddressesTLV(pfxs)
	case "p2padj":
		state := g.u8()
		if g.fix == "typ" {
			state = uint8(g.r.Intn(3))
		}
		x := packet.NewP2PAdjacencyStateTLV(state, g.u32())
		if t.N == 1 { // as hello_sender.go fills in a known neighbour
			x.NeighborSystemID = g.sysID()
			x.NeighborExtendedLocalCircuitID = g.u32()
			x.TLVLength = packet.P2PAdjacencyStateTLVLenWithNeighbor
			gr.Items = []string{fmt.Sprintf("%d/%d/%x/%d", x.AdjacencyState, x.ExtendedLocalCircuitID, x.NeighborSystemID[:], x.NeighborExtendedLocalCircuitID)}
		} else {
			gr.Items = []string{fmt.Sprintf("%d/%d", x.AdjacencyState, x.ExtendedLocalCircuitID)}
		}
		tlv = x
	case "hostname":
		name := g.bytes(t.N)
		gr.Items = []string{hex.EncodeToString(name)}
		tlv = packet.NewDynamicHostnameTLV(name)
	case "extip":
		x := packet.NewExtendedIPReachabilityTLV()
		for i := 0; i < t.N; i++ {
			addr := g.u32()
			if t.W < 32 {
				addr &^= (uint32(1) << uint(32-t.W)) - 1 // host bits are not on the wire
			}
			e := packet.NewExtendedIPReachability(g.u32(), uint8(t.W), addr)
			x.AddExtendedIPReachability(e)
			gr.Items = append(gr.Items, fmt.Sprintf("%d/%d/%d", e.Metric, t.W, addr))
		}
		tlv = x
	case "extis":
		x := packet.NewExtendedISReachabilityTLV()
		for i := 0; i < t.N; i++ {
			n := packet.NewExtendedISReachabilityNeighbor(itypes.SourceID{SystemID: g.sysID(), CircuitID: g.u8()}, g.u32()&0xffffff)
			s := fmt.Sprintf("%x.%d/%d", n.NeighborID.SystemID[:], n.NeighborID.CircuitID, n.Metric)
			if t.W == 22 { // the sub-TLVs neighbor.extendedISReachabilityNeighbor adds
				a, b, l, r := g.u32(), g.u32(), g.u32(), g.u32()
				n.AddSubTLV(packet.NewIPv4InterfaceAddressSubTLV(a))
				n.AddSubTLV(packet.NewIPv4NeighborAddressSubTLV(b))
				n.AddSubTLV(packet.NewLinkLocalRemoteIdentifiersSubTLV(l, r))
				s += fmt.Sprintf("/%d/%d/%d/%d", a, b, l, r)
			}
			x.AddNeighbor(n)
			gr.Items = append(gr.Items, s)
		}
		tlv = x
	case "entries":
		es := []*packet.LSPEntry{}
		for i := 0; i < t.N; i++ {
			e := g.lspEntry()
			es = append(es, e)
			gr.Items = append(gr.Items, lspEntryStr(e))
		}
		tlv = packet.NewLSPEntriesTLV(es)
	case "unknown":
		v := g.bytes(t.N)
		tlv = &packet.UnknownTLV{TLVType: uint8(t.W), TLVLength: uint8(t.N), TLVValue: v}
	case "padding":
		tlv = packet.NewPaddingTLV(uint8(t.N))
	case "checksum":
		x := &packet.ChecksumTLV{TLVType: packet.ChecksumTLVType, TLVLength: 2, Checksum: g.u16()}
		gr.Items = []string{fmt.Sprint(x.Checksum)}
		tlv = x
	case "isneigh":
		x := &packet.ISNeighborsTLV{TLVType: packet.ISNeighborsTLVType, TLVLength: 6, NeighborSNPA: g.sysID()}
		gr.Items = []string{hex.EncodeToString(x.NeighborSNPA[:])}
		tlv = x
	case "terid":
		tlv = packet.NewTrafficEngineeringRouterIDTLV(g.u32())
	default:
		panic("harness: unknown TLV kind " + t.K)
	}
	switch t.K {
	case "area", "proto", "ipaddr", "p2padj", "hostname", "extip", "extis", "entries", "checksum", "isneigh":
		gr.typed = true
	}
	gr.Typ = tlv.Type()
	gr.Len = int(tlv.Length())
	// what the TLV itself writes behind its two header bytes: the expected content where the decoder is opaque
	b := bytes.NewBuffer(nil)
	tlv.Serialize(b)
	if b.Len() >= 2 {
		gr.Raw = hex.EncodeToString(b.Bytes()[2:])
	}
	return tlv, gr
}

// projectTLV is the content of a decoded TLV.
func projectTLV(tlv packet.TLV) group {
	gr := group{Typ: tlv.Type(), NTLV: 1, Len: int(tlv.Length()), Items: []string{}, typed: true}
	rawOf := func() string {
		b := bytes.NewBuffer(nil)
		tlv.Serialize(b)
		if b.Len() >= 2 {
			return hex.EncodeToString(b.Bytes()[2:])
		}
		return ""
	}
	switch x := tlv.(type) {
	case *packet.AreaAddressesTLV:
		for _, a := range x.AreaIDs {
			gr.Items = append(gr.Items, hex.EncodeToString(a))
		}
	case *packet.ProtocolsSupportedTLV:
		for _, p := range x.NetworkLayerProtocolIDs {
			gr.Items = append(gr.Items, fmt.Sprint(p))
		}
	case *packet.IPInterfaceAddressesTLV:
		for _, a := range x.IPv4Addresses {
			gr.Items = append(gr.Items, fmt.Sprint(a))
		}
	case *packet.P2PAdjacencyStateTLV:
		if x.TLVLength == packet.P2PAdjacencyStateTLVLenWithNeighbor {
			gr.Items = []string{fmt.Sprintf("%d/%d/%x/%d", x.AdjacencyState, x.ExtendedLocalCircuitID, x.NeighborSystemID[:], x.NeighborExtendedLocalCircuitID)}
		} else {
			gr.Items = []string{fmt.Sprintf("%d/%d", x.AdjacencyState, x.ExtendedLocalCircuitID)}
		}
	case *packet.DynamicHostNameTLV:
		gr.Items = []string{hex.EncodeToString(x.Hostname)}
	case *packet.LSPEntriesTLV:
		for _, e := range x.LSPEntries {
			gr.Items = append(gr.Items, lspEntryStr(e))
		}
	case *packet.ChecksumTLV:
		gr.Items = []string{fmt.Sprint(x.Checksum)}
	case *packet.ISNeighborsTLV:
		gr.Items = []string{hex.EncodeToString(x.NeighborSNPA[:])}
	case *packet.ExtendedIPReachabilityTLV:
		for _, e := range x.ExtendedIPReachabilities {
			gr.Items = append(gr.Items, fmt.Sprintf("%d/%d/%d", e.Metric, e.UDSubBitPfxLen, e.Address))
		}
	case *packet.UnknownTLV:
		gr.typed = false
		gr.Raw = hex.EncodeToString(x.TLVValue)
		return gr
	default:
		// a typed TLV this adapter has no projection for: compare what it serialises
		gr.typed = false
	}
	gr.Raw = rawOf()
	return gr
}

// mergeGroups joins adjacent TLVs of one type (the split of a list over several TLVs of a type is free).
func mergeGroups(gs []group) []group {
	out := []group{}
	for _, g := range gs {
		if n := len(out); n > 0 && out[n-1].Typ == g.Typ {
			o := &out[n-1]
			if o.typed == g.typed {
				o.Items = append(append([]string{}, o.Items...), g.Items...)
				o.Raw += g.Raw
				o.NTLV += g.NTLV
				o.Len += g.Len
				continue
			}
		}
		out = append(out, g)
	}
	return out
}

type builtPDU struct {
	hdr    packet.ISISHeader
	body   packet.Serializable
	fixed  string // canonical fixed part (without PDU length and LSP checksum)
	groups []group
	wire   []byte
}

var pduTypeOf = map[string]uint8{"hello": packet.P2P_HELLO, "lsp": packet.L2_LS_PDU_TYPE, "csnp": packet.L2_CSNP_TYPE, "psnp": packet.L2_PSNP_TYPE}

func isisHeader(kind string, g *valGen) packet.ISISHeader {
	// the header isis/server.getHeader builds; the other classes only vary the values Decode does not interpret
	minLen := map[string]uint8{"hello": packet.P2PHelloMinLen, "lsp": packet.LSPDUMinLen, "csnp": packet.CSNPMinLen, "psnp": packet.PSNPMinLen}
	h := packet.ISISHeader{ProtoDiscriminator: 0x83, LengthIndicator: minLen[kind], ProtocolIDExtension: 1, IDLength: 0,
		PDUType: pduTypeOf[kind], Version: 1, MaxAreaAddresses: 0}
	if g.fix != "typ" {
		h.ProtoDiscriminator, h.LengthIndicator, h.ProtocolIDExtension, h.IDLength, h.Version, h.MaxAreaAddresses = g.u8(), g.u8(), g.u8(), g.u8(), g.u8(), g.u8()
	}
	return h
}

func hdrStr(h *packet.ISISHeader) string {
	return fmt.Sprintf("hdr %d/%d/%d/%d/%d/%d/%d", h.ProtoDiscriminator, h.LengthIndicator, h.ProtocolIDExtension, h.IDLength, h.PDUType, h.Version, h.MaxAreaAddresses)
}

func lspidStr(l packet.LSPID) string {
	return fmt.Sprintf("%x.%d.%d", l.SystemID[:], l.PseudonodeID, l.LSPNumber)
}

func wireOf(h packet.ISISHeader, body packet.Serializable) []byte {
	buf := bytes.NewBuffer([]byte{0xfe, 0xfe, 0x03}) // LLC header written by ethernet.SendPacket (isis/server.getISISLLC)
	h.Serialize(buf)
	body.Serialize(buf)
	return buf.Bytes()
}

// buildPDU concretises an abstract hello / LSP (or a single sequence-number PDU for the mutation cases).
func buildPDU(p wPDU, fill int) *builtPDU {
	key, _ := json.Marshal(p)
	g := newValGen(p.Fix, fill, key)
	out := &builtPDU{hdr: isisHeader(p.Kind, g)}
	tlvs := []packet.TLV{}
	for _, t := range p.TLVs {
		tlv, gr := buildTLV(t, g)
		tlvs = append(tlvs, tlv)
		out.groups = append(out.groups, gr)
	}
	tlvLen := 0
	for _, t := range tlvs {
		tlvLen += 2 + int(t.Length())
	}
	switch p.Kind {
	case "hello":
		h := &packet.P2PHello{CircuitType: g.u8(), SystemID: g.sysID(), HoldingTimer: g.u16(), PDULength: packet.P2PHelloMinLen, LocalCircuitID: g.u8(), TLVs: tlvs}
		out.fixed = fmt.Sprintf("%d/%x/%d/%d", h.CircuitType, h.SystemID[:], h.HoldingTimer, h.LocalCircuitID)
		out.body = h
	case "lsp":
		l := &packet.LSPDU{RemainingLifetime: g.u16(), LSPID: packet.LSPID{SystemID: g.sysID(), PseudonodeID: g.u8(), LSPNumber: g.u8()},
			SequenceNumber: g.u32(), TypeBlock: g.u8(), TLVs: tlvs}
		l.UpdateLength() // as Server.generateLocalLSP
		l.SetChecksum()
		out.fixed = fmt.Sprintf("%d/%s/%d/%d", l.RemainingLifetime, lspidStr(l.LSPID), l.SequenceNumber, l.TypeBlock)
		out.body = l
	case "csnp":
		c := &packet.CSNP{PDULength: uint16(packet.CSNPMinLen + tlvLen), SourceID: itypes.SourceID{SystemID: g.sysID(), CircuitID: g.u8()},
			StartLSPID: packet.LSPID{SystemID: g.sysID(), PseudonodeID: g.u8(), LSPNumber: g.u8()},
			EndLSPID:   packet.LSPID{SystemID: g.sysID(), PseudonodeID: g.u8(), LSPNumber: g.u8()}, TLVs: tlvs}
		out.fixed = fmt.Sprintf("%x.%d/%s/%s", c.SourceID.SystemID[:], c.SourceID.CircuitID, lspidStr(c.StartLSPID), lspidStr(c.EndLSPID))
		out.body = c
	case "psnp":
		c := &packet.PSNP{PDULength: uint16(packet.PSNPMinLen + tlvLen), SourceID: itypes.SourceID{SystemID: g.sysID(), CircuitID: g.u8()}, TLVs: tlvs}
		out.fixed = fmt.Sprintf("%x.%d", c.SourceID.SystemID[:], c.SourceID.CircuitID)
		out.body = c
	default:
		panic("harness: unknown PDU kind " + p.Kind)
	}
	out.wire = wireOf(out.hdr, out.body)
	return out
}

// projectPDU is the content of a decoded PDU: header, fixed part, PDU length, checksum, TLVs.
func projectPDU(pkt *packet.ISISPacket) (hdr, fixed string, pdulen int, csum int, tlvs []packet.TLV, ok bool) {
	hdr = hdrStr(pkt.Header)
	csum = -1
	switch b := pkt.Body.(type) {
	case *packet.P2PHello:
		return hdr, fmt.Sprintf("%d/%x/%d/%d", b.CircuitType, b.SystemID[:], b.HoldingTimer, b.LocalCircuitID), int(b.PDULength), csum, b.TLVs, true
	case *packet.LSPDU:
		return hdr, fmt.Sprintf("%d/%s/%d/%d", b.RemainingLifetime, lspidStr(b.LSPID), b.SequenceNumber, b.TypeBlock), int(b.Length), int(b.Checksum), b.TLVs, true
	case *packet.CSNP:
		return hdr, fmt.Sprintf("%x.%d/%s/%s", b.SourceID.SystemID[:], b.SourceID.CircuitID, lspidStr(b.StartLSPID), lspidStr(b.EndLSPID)), int(b.PDULength), csum, b.TLVs, true
	case *packet.PSNP:
		return hdr, fmt.Sprintf("%x.%d", b.SourceID.SystemID[:], b.SourceID.CircuitID), int(b.PDULength), csum, b.TLVs, true
	}
	return hdr, "", 0, csum, nil, false
}

func compareGroups(class string, want, got []group) *core.Divergence {
	want, got = mergeGroups(want), mergeGroups(got)
	types := func(gs []group) []int {
		o := []int{}
		for _, g := range gs {
			o = append(o, int(g.Typ))
		}
		return o
	}
	if fmt.Sprint(types(want)) != fmt.Sprint(types(got)) {
		return &core.Divergence{Field: "tlv-framing", Kind: "wrong", Class: class, Want: types(want), Got: types(got),
			Detail: "the decoded PDU carries a different sequence of TLV types than the serialised one"}
	}
	for i := range want {
		w, g := want[i], got[i]
		cl := class + ":" + w.kind
		if g.typed && w.typed { // typed by the decoder: item by item
			if strings.Join(w.Items, " ") != strings.Join(g.Items, " ") || len(w.Items) != len(g.Items) {
				return &core.Divergence{Field: "tlv-content", Kind: "wrong", Class: cl, Want: w.Items, Got: g.Items, Detail: fmt.Sprintf("TLV type %d", w.Typ)}
			}
		} else if w.Raw != g.Raw { // opaque on either side: the value bytes the TLV serialised must come back
			return &core.Divergence{Field: "tlv-content", Kind: "wrong", Class: cl, Want: w.Raw, Got: g.Raw, Detail: fmt.Sprintf("TLV type %d (value bytes)", w.Typ)}
		}
		if w.NTLV == 1 && g.NTLV == 1 && w.Len != g.Len {
			return &core.Divergence{Field: "tlv-length", Kind: "wrong", Class: cl, Want: w.Len, Got: g.Len, Detail: fmt.Sprintf("TLV type %d", w.Typ)}
		}
	}
	return nil
}

func decodeWire(b []byte) (pkt *packet.ISISPacket, err error) {
	return packet.Decode(bytes.NewBuffer(append([]byte{}, b...)))
}

func wireRoundTrip(st core.Step, fill int) *core.Divergence {
	var p wPDU
	st.Into("pdu", &p)
	class := p.Kind
	bp := buildPDU(p, fill)
	if len(bp.wire) != st.Int("total") {
		return &core.Divergence{Action: "RoundTrip", Field: "length", Kind: "wrong", Class: class, Want: st.Int("total"), Got: len(bp.wire),
			Detail: "serialised size differs from the sum of the field sizes: " + hex.EncodeToString(bp.wire)}
	}
	pkt, err := decodeWire(bp.wire)
	if err != nil || pkt == nil || pkt.Header == nil {
		return &core.Divergence{Action: "RoundTrip", Field: "decode", Kind: "error", Class: class, Got: fmt.Sprint(err), Detail: hex.EncodeToString(bp.wire)}
	}
	hdr, fixed, pdulen, csum, tlvs, ok := projectPDU(pkt)
	if !ok {
		return &core.Divergence{Action: "RoundTrip", Field: "body", Kind: "missing", Class: class, Got: fmt.Sprintf("%T", pkt.Body)}
	}
	if hdr != hdrStr(&bp.hdr) {
		return &core.Divergence{Action: "RoundTrip", Field: "header", Kind: "wrong", Class: class, Want: hdrStr(&bp.hdr), Got: hdr}
	}
	if fixed != bp.fixed {
		return &core.Divergence{Action: "RoundTrip", Field: "fixed", Kind: "wrong", Class: class, Want: bp.fixed, Got: fixed}
	}
	if pdulen != st.Int("pdulen") {
		return &core.Divergence{Action: "RoundTrip", Field: "pdulen", Kind: "wrong", Class: class, Want: st.Int("pdulen"), Got: pdulen}
	}
	if l, isLSP := bp.body.(*packet.LSPDU); isLSP && csum != int(l.Checksum) {
		return &core.Divergence{Action: "RoundTrip", Field: "checksum", Kind: "wrong", Class: class, Want: l.Checksum, Got: csum}
	}
	got := []group{}
	for _, t := range tlvs {
		got = append(got, projectTLV(t))
	}
	if d := compareGroups(class, bp.groups, got); d != nil {
		d.Action = "RoundTrip"
		d.Detail += " wire=" + hex.EncodeToString(bp.wire)
		return d
	}
	return nil
}

// wireSNP: n LSP entries through NewCSNPs / NewPSNPs with a maximum PDU length; every PDU produced is
// serialised and decoded; the entries decoded over all PDUs must be exactly the entries handed in.
func wireSNP(st core.Step, fill int) *core.Divergence {
	kind, n, per, maxlen := st.Str("kind"), st.Int("n"), st.Int("per"), st.Int("maxlen")
	key, _ := json.Marshal(map[string]interface{}{"k": kind, "n": n, "per": per, "fix": st.Str("fix")})
	g := newValGen(st.Str("fix"), fill, key)
	perEff := per
	if per == 0 {
		perEff = (maxlen - 35) / 16
	}
	class := kind + ":single-pdu"
	if n > perEff {
		class = kind + ":multi-pdu"
	}
	if n > 15 && perEff > 15 {
		class += "-over15"
	}
	core.HangClass = class
	src := itypes.SourceID{SystemID: g.sysID(), CircuitID: g.u8()}
	entries := []*packet.LSPEntry{}
	want := []string{}
	for i := 0; i < n; i++ {
		e := g.lspEntry()
		if g.fix == "typ" {
			e.LSPID.SystemID[5] = byte(i * 37) // distinct identifiers in no particular order
			e.LSPID.SystemID[4] = byte(i / 7)
		}
		entries = append(entries, e)
		want = append(want, lspEntryStr(e))
	}
	type one struct {
		hdr   packet.ISISHeader
		body  packet.Serializable
		fixed string
		plen  int
	}
	var pdus []one
	func() {
		defer func() {
			if r := recover(); r != nil {
				panic(&core.Divergence{Action: "SNP", Field: "construct", Kind: "panic", Class: crashClass(string(debug.Stack())),
					Detail: fmt.Sprintf("%s: New%ss(%d entries, max PDU length %d): %v", class, strings.ToUpper(kind), n, maxlen, r)})
			}
		}()
		if kind == "csnp" {
			cs := packet.NewCSNPs(src, entries, maxlen)
			for i := range cs {
				c := &cs[i]
				pdus = append(pdus, one{isisHeader("csnp", g), c, fmt.Sprintf("%x.%d/%s/%s", c.SourceID.SystemID[:], c.SourceID.CircuitID, lspidStr(c.StartLSPID), lspidStr(c.EndLSPID)), int(c.PDULength)})
			}
		} else {
			ps := packet.NewPSNPs(src, entries, maxlen)
			for i := range ps {
				c := &ps[i]
				pdus = append(pdus, one{isisHeader("psnp", g), c, fmt.Sprintf("%x.%d", c.SourceID.SystemID[:], c.SourceID.CircuitID), int(c.PDULength)})
			}
		}
	}()
	got := []string{}
	for i, p := range pdus {
		wire := wireOf(p.hdr, p.body)
		pkt, err := decodeWire(wire)
		if err != nil || pkt == nil || pkt.Header == nil {
			return &core.Divergence{Action: "SNP", Field: "decode", Kind: "error", Class: class, Got: fmt.Sprint(err),
				Detail: fmt.Sprintf("PDU %d of %d (%d entries, max PDU length %d) wire=%s", i+1, len(pdus), n, maxlen, hex.EncodeToString(wire))}
		}
		_, fixed, pdulen, _, tlvs, ok := projectPDU(pkt)
		if !ok || pkt.Header.PDUType != pduTypeOf[kind] {
			return &core.Divergence{Action: "SNP", Field: "body", Kind: "missing", Class: class, Got: fmt.Sprintf("%T", pkt.Body)}
		}
		if fixed != p.fixed || pdulen != p.plen { // self round trip of the fixed part
			return &core.Divergence{Action: "SNP", Field: "fixed", Kind: "wrong", Class: class, Want: fmt.Sprint(p.fixed, " len ", p.plen), Got: fmt.Sprint(fixed, " len ", pdulen)}
		}
		for _, t := range tlvs {
			gr := projectTLV(t)
			if gr.Typ != packet.LSPEntriesTLVType || !gr.typed {
				return &core.Divergence{Action: "SNP", Field: "tlv-framing", Kind: "wrong", Class: class, Want: "LSP entries TLVs only", Got: fmt.Sprintf("TLV type %d", gr.Typ),
					Detail: fmt.Sprintf("PDU %d of %d wire=%s", i+1, len(pdus), hex.EncodeToString(wire))}
			}
			got = append(got, gr.Items...)
		}
	}
	sort.Strings(want)
	sort.Strings(got)
	kindDiff, missing, extra := core.SetDiff(want, got)
	if kindDiff != "" {
		return &core.Divergence{Action: "SNP", Field: "entries", Kind: kindDiff, Class: class, Want: len(want), Got: len(got),
			Detail: fmt.Sprintf("%d entries, max PDU length %d, %d PDUs; missing %v extra %v", n, maxlen, len(pdus), trunc(missing, 3), trunc(extra, 3))}
	}
	return nil
}

func trunc(s []string, n int) []string {
	if len(s) > n {
		return append(append([]string{}, s[:n]...), fmt.Sprintf("... (%d)", len(s)))
	}
	return s
}

// wireMutate: Decode of the mutated bytes returns a PDU or an error; panics and hangs are caught by the core.
func wireMutate(st core.Step, fill int) *core.Divergence {
	var p wPDU
	var m wMut
	st.Into("pdu", &p)
	st.Into("mut", &m)
	class := p.Kind + ":" + m.Class
	core.HangClass = class
	bp := buildPDU(p, fill)
	if len(bp.wire) != st.Int("total") {
		return &core.Divergence{Action: "Mutate", Field: "length", Kind: "wrong", Class: p.Kind, Want: st.Int("total"), Got: len(bp.wire),
			Detail: "serialised size differs from the sum of the field sizes: " + hex.EncodeToString(bp.wire)}
	}
	b := append([]byte{}, bp.wire...)
	switch m.Class {
	case "trunc":
		b = b[:m.At]
	case "append":
		g := newValGen("typ", fill, []byte(fmt.Sprint("append", m.N, p)))
		b = append(b, g.bytes(m.N)...)
	default:
		if m.Off+m.W > len(b) || m.W < 1 || m.W > 2 {
			panic(fmt.Sprintf("harness: mutation out of range: %+v on %d bytes", m, len(b)))
		}
		if m.W == 2 {
			b[m.Off], b[m.Off+1] = byte(m.Val>>8), byte(m.Val)
		} else {
			b[m.Off] = byte(m.Val)
		}
	}
	var pkt *packet.ISISPacket
	var err error
	func() {
		defer func() {
			if r := recover(); r != nil {
				panic(&core.Divergence{Action: "Mutate", Field: "process", Kind: "panic", Class: crashClass(string(debug.Stack())),
					Detail: fmt.Sprintf("%s: %v; input %s", class, r, hex.EncodeToString(b))})
			}
		}()
		pkt, err = decodeWire(b)
	}()
	if err == nil && (pkt == nil || pkt.Header == nil) {
		return &core.Divergence{Action: "Mutate", Field: "decode", Kind: "missing", Class: class, Detail: "neither a PDU nor an error; input " + hex.EncodeToString(b)}
	}
	return nil
}

func init() {
	core.Register("isiswire", func(b *core.Behaviour, p core.Params) *core.Divergence {
		st := b.Steps[0]
		a := st.Str("a")
		core.At(0, a)
		core.HangClass = a
		fill := p.Int("fill", 0)
		switch a {
		case "RoundTrip":
			return wireRoundTrip(st, fill)
		case "SNP":
			return wireSNP(st, fill)
		case "Mutate":
			return wireMutate(st, fill)
		}
		panic("harness: unknown case " + a)
	})
}
