package adapters

import (
	"fmt"

	bnet "github.com/bio-routing/bio-rd/net"

	"verifharness/core"
)

// Spec BitNet (C15): one case = two prefixes + the results of the bit-level definitions.

type pfxJSON struct {
	W   []uint64 `json:"w"`
	Len int      `json:"len"`
}

func ipFromWords(w []uint64) bnet.IP {
	if len(w) == 2 {
		return bnet.IPv4(uint32(w[0]<<16 | w[1]))
	}
	hi := w[0]<<48 | w[1]<<32 | w[2]<<16 | w[3]
	lo := w[4]<<48 | w[5]<<32 | w[6]<<16 | w[7]
	return bnet.IPv6(hi, lo)
}

func (p pfxJSON) pfx() *bnet.Prefix { return bnet.NewPfx(ipFromWords(p.W), uint8(p.Len)).Ptr() }

func lenBucket(l int) string {
	switch {
	case l <= 32:
		return "len<=32"
	case l < 64:
		return "len33-63"
	case l == 64:
		return "len=64"
	default:
		return "len>64"
	}
}

func init() {
	core.Register("bitnet", func(b *core.Behaviour, _ core.Params) *core.Divergence {
		st := b.Steps[0]
		core.At(0, "Pair")
		var p, x, sup pfxJSON
		st.Into("p", &p)
		st.Into("x", &x)
		st.Into("sup", &sup)
		var basep, basex []uint64
		st.Into("basep", &basep)
		st.Into("basex", &basex)
		width := st.Int("width")
		fam := "v4"
		if width == 128 {
			fam = "v6"
		}
		P, X := p.pfx(), x.pfx()
		dv := func(field, class string, want, got interface{}) *core.Divergence {
			return &core.Divergence{Action: "Pair", Field: field, Kind: "wrong", Class: fam + ":" + class, Want: want, Got: fmt.Sprint(got),
				Detail: fmt.Sprintf("p=%s x=%s", P, X)}
		}
		if got := P.Contains(X); got != st.Bool("cpx") {
			return dv("contains", lenBucket(p.Len), st.Bool("cpx"), got)
		}
		if got := X.Contains(P); got != st.Bool("cxp") {
			return dv("contains", lenBucket(x.Len), st.Bool("cxp"), got)
		}
		if got := P.Equal(X); got != st.Bool("eq") {
			return dv("equal", "", st.Bool("eq"), got)
		}
		if got := P.Valid(); got != st.Bool("validp") {
			return dv("valid", lenBucket(p.Len), st.Bool("validp"), got)
		}
		if got := X.Valid(); got != st.Bool("validx") {
			return dv("valid", lenBucket(x.Len), st.Bool("validx"), got)
		}
		if got := P.BaseAddr(); got != ipFromWords(basep) {
			return dv("base", lenBucket(p.Len), ipFromWords(basep).String(), got.String())
		}
		if got := X.BaseAddr(); got != ipFromWords(basex) {
			return dv("base", lenBucket(x.Len), ipFromWords(basex).String(), got.String())
		}
		pa, xa := P.Addr(), X.Addr()
		if got := int(pa.Compare(&xa)); got != st.Int("cmp") {
			return dv("compare", "", st.Int("cmp"), got)
		}
		if got := int(xa.Compare(&pa)); got != -st.Int("cmp") {
			return dv("compare", "", -st.Int("cmp"), got)
		}
		// bit-at-position against the definition on the words (1 = most significant bit)
		for i := 1; i <= width; i++ {
			want := x.W[(i-1)/16]>>(15-uint((i-1)%16))&1 == 1
			if got := xa.BitAtPosition(uint8(i)); got != want {
				return dv("bitat", fmt.Sprintf("pos%s", lenBucket(i)[3:]), want, got)
			}
		}
		if st.Bool("inc") {
			want := sup.pfx()
			got := P.GetSupernet(X)
			if !got.Equal(want) {
				return dv("supernet", "common-"+lenBucket(sup.Len), want.String(), got.String())
			}
			got2 := X.GetSupernet(P)
			if !got2.Equal(want) {
				return dv("supernet", "common-"+lenBucket(sup.Len), want.String(), got2.String())
			}
		}
		// print -> parse identity
		for _, q := range []*bnet.Prefix{P, X} {
			s := q.String()
			back, err := bnet.PrefixFromString(s)
			if err != nil || !back.Equal(q) {
				return dv("print-parse-prefix", "", s, fmt.Sprint(back, err))
			}
			a := q.Addr()
			ip, err := bnet.IPFromString(a.String())
			if err != nil || ip != a {
				return dv("print-parse-ip", "", a.String(), fmt.Sprint(ip, err))
			}
			ip2, err := bnet.IPFromBytes(a.Bytes())
			if err != nil || ip2 != a {
				return dv("bytes-roundtrip", "", a.String(), fmt.Sprint(ip2, err))
			}
		}
		return nil
	})
}
