package adapters

import (
	"encoding/json"
	"fmt"
	"sort"

	bnet "github.com/bio-routing/bio-rd/net"
	"github.com/bio-routing/bio-rd/protocols/bgp/types"
	"github.com/bio-routing/bio-rd/route"
	"github.com/bio-routing/bio-rd/routingtable"
	"github.com/bio-routing/bio-rd/routingtable/adjRIBIn"
	"github.com/bio-routing/bio-rd/routingtable/adjRIBOut"
	"github.com/bio-routing/bio-rd/routingtable/filter"
	"github.com/bio-routing/bio-rd/routingtable/locRIB"
	"github.com/bio-routing/bio-rd/routingtable/vrf"

	"verifharness/core"
)

// Spec RibOut (C08, C09, C11, C12 export side, C13).

type outRec struct { // Loc-RIB path record of RibOut
	Type string   `json:"type"`
	LP   uint32   `json:"lp"`
	ASP  []uint32 `json:"asp"`
	MED  uint32   `json:"med"`
	EBGP bool     `json:"ebgp"`
	ID   uint32   `json:"id"`
	OID  uint32   `json:"oid"`
	CLV  []uint32 `json:"clv"`
	Src  uint32   `json:"src"`
	NH   uint32   `json:"nh"`
	Comm []string `json:"comm"`
	OTC  uint32   `json:"otc"`
	Aggr bool     `json:"aggr"`
	Unk  bool     `json:"unk"`
}

var commByName = map[string]uint32{"noexport": types.WellKnownCommunityNoExport, "noadvertise": types.WellKnownCommunityNoAdvertise,
	"c1": 65000<<16 | 1}

func commName(c uint32) string {
	for n, v := range commByName {
		if v == c {
			return n
		}
	}
	return fmt.Sprint(c)
}

func (r outRec) build(v6 bool) *route.Path {
	if r.Type == "static" {
		return &route.Path{Type: route.StaticPathType, StaticPath: &route.StaticPath{NextHop: addr(v6, r.NH).Ptr()}}
	}
	comm := []uint32{}
	for _, c := range r.Comm {
		comm = append(comm, commByName[c])
	}
	sort.Slice(comm, func(i, j int) bool { return (comm[i] < comm[j]) == (r.ID%2 == 0) })
	p := buildRibPath(ribPath{LP: r.LP, MED: r.MED, NH: r.NH, ASP: r.ASP, OID: r.OID, CL: r.CLV, OTC: r.OTC}, v6, r.EBGP,
		addr(v6, r.Src).Ptr(), comm)
	p.BGPPath.BGPPathA.BGPIdentifier = r.ID
	if r.Aggr {
		p.BGPPath.BGPPathA.Aggregator = &types.Aggregator{Address: 0x0a000009, ASN: 65001}
	}
	if r.Unk {
		p.BGPPath.UnknownAttributes = []types.UnknownPathAttribute{{Optional: true, Transitive: true, TypeCode: 200, Value: []byte{1, 2}}}
	}
	return p
}

type wireRec struct {
	ASP         []uint32 `json:"asp"`
	NH          uint32   `json:"nh"`
	LP          uint32   `json:"lp"`
	MED         uint32   `json:"med"`
	OID         uint32   `json:"oid"`
	CLV         []uint32 `json:"clv"`
	Comm        []string `json:"comm"`
	OTC         uint32   `json:"otc"`
	EBGPLearned bool     `json:"ebgpLearned"`
	Redist      bool     `json:"redist"`
	ID          uint32   `json:"id"`
	Src         uint32   `json:"src"`
	Aggr        bool     `json:"aggr"`
	Unk         bool     `json:"unk"`
}

func (w wireRec) key(maskRR bool) string {
	if w.ASP == nil {
		w.ASP = []uint32{}
	}
	if w.CLV == nil {
		w.CLV = []uint32{}
	}
	if w.Comm == nil {
		w.Comm = []string{}
	}
	sort.Strings(w.Comm)
	if maskRR && w.EBGPLearned {
		// whether an eBGP-learned route sent to a route-reflector client carries ORIGINATOR_ID / CLUSTER_LIST
		// is not prescribed by the property (only reflected routes are): not compared
		w.OID, w.CLV = 0, []uint32{}
	}
	j, _ := json.Marshal(w)
	return string(j)
}

func projectWire(p *route.Path, v6 bool) wireRec {
	w := wireRec{ASP: []uint32{}, CLV: []uint32{}, Comm: []string{}}
	if p == nil || p.BGPPath == nil {
		return w
	}
	a := p.BGPPath.BGPPathA
	w.LP, w.MED, w.OID, w.OTC, w.EBGPLearned = a.LocalPref, a.MED, a.OriginatorID, a.OnlyToCustomer, a.EBGP
	if !v6 && w.OID&0xff000000 == 0x0a000000 {
		w.OID &^= 0x0a000000 // an ORIGINATOR_ID derived from the (embedded) source address
	}
	w.NH = nhNum(a.NextHop, v6)
	w.Aggr = a.Aggregator != nil
	w.Unk = len(p.BGPPath.UnknownAttributes) > 0
	if p.BGPPath.ASPath != nil {
		for _, seg := range *p.BGPPath.ASPath {
			w.ASP = append(w.ASP, seg.ASNs...)
		}
	}
	if p.BGPPath.ClusterList != nil {
		w.CLV = append(w.CLV, (*p.BGPPath.ClusterList)...)
	}
	if p.BGPPath.Communities != nil {
		for _, c := range *p.BGPPath.Communities {
			w.Comm = append(w.Comm, commName(c))
		}
	}
	w.Redist = p.IsRedistributed()
	w.ID = a.BGPIdentifier
	w.Src = nhNum(a.Source, v6)
	return w
}

// outClient records what the Adj-RIB-Out tells its client (the update sender), keyed as a peer would key it.
type outClient struct {
	emb    Embedding
	ap     bool
	view   map[string]string // "/pfx#pid" -> wire key
	errs   []string
	events []string
	mask   bool
}

func (c *outClient) k(pfx *bnet.Prefix, p *route.Path) string {
	pid := uint32(0)
	if c.ap && p != nil && p.BGPPath != nil {
		pid = p.BGPPath.PathIdentifier
	}
	return fmt.Sprintf("/%s#%d", c.emb.Bits(pfx), pid)
}
func (c *outClient) AddPath(pfx *bnet.Prefix, p *route.Path) error {
	k := c.k(pfx, p)
	c.view[k] = projectWire(p, c.emb.V6).key(c.mask)
	c.events = append(c.events, "add "+k)
	return nil
}
func (c *outClient) AddPathInitialDump(pfx *bnet.Prefix, p *route.Path) error {
	return c.AddPath(pfx, p)
}
func (c *outClient) EndOfRIB() {}
func (c *outClient) RemovePath(pfx *bnet.Prefix, p *route.Path) bool {
	k := c.k(pfx, p)
	c.events = append(c.events, "remove "+k)
	if _, ok := c.view[k]; !ok {
		return false // a withdrawal of something the peer does not hold leaves its view unchanged
	}
	delete(c.view, k)
	return true
}
func (c *outClient) ReplacePath(pfx *bnet.Prefix, o, n *route.Path) {
	c.RemovePath(pfx, o)
	c.AddPath(pfx, n)
}
func (c *outClient) RefreshRoute(*bnet.Prefix, []*route.Path) {}
func (c *outClient) Dispose()                                 {}

type riboutSess struct {
	IBGP   bool   `json:"ibgp"`
	RSC    bool   `json:"rsc"`
	RRC    bool   `json:"rrc"`
	N      int    `json:"n"`
	Roles  bool   `json:"roles"`
	Remote string `json:"remote"`
}

func init() {
	core.Register("ribout", func(b *core.Behaviour, p core.Params) *core.Divergence {
		emb := getEmbedding(p.Str("emb", "v4o8"))
		idStart := p.Int("idstart", 0)
		var (
			lr    *locRIB.LocRIB
			out   *adjRIBOut.AdjRIBOut
			cl    *outClient
			sess  riboutSess
			sa    routingtable.SessionAttrs
			chain polChain
			recs  = map[string]outRec{}
		)
		// C13 extension: paths reach the Loc-RIB through one Adj-RIB-In per source peer, and a second session's
		// Adj-RIB-Out hangs off the same Loc-RIB; both are snapshotted around export-side operations
		viaIn := p.Bool("viaIn", false)
		ins := map[uint32]*adjRIBIn.AdjRIBIn{}
		var other *adjRIBOut.AdjRIBOut
		var vr *vrf.VRF
		inFor := func(src uint32) *adjRIBIn.AdjRIBIn {
			if in, ok := ins[src]; ok {
				return in
			}
			in := adjRIBIn.New(filter.NewAcceptAllFilterChain(), vr, routingtable.SessionAttrs{RouterID: 77, PeerIP: addr(emb.V6, src).Ptr(),
				LocalIP: addr(emb.V6, 200).Ptr(), Type: route.BGPPathType, IBGP: true, LocalASN: 65000, PeerASN: 65000, ClusterID: 88})
			in.Register(lr)
			ins[src] = in
			return in
		}
		tableSnapshot := func() []string {
			out := []string{}
			for src, in := range ins {
				for _, r := range in.Dump() {
					for _, pth := range r.Paths() {
						j, _ := json.Marshal(projectFull(pth, emb.V6))
						out = append(out, fmt.Sprintf("in%d /%s %s", src, emb.Bits(r.Prefix()), j))
					}
				}
			}
			if other != nil {
				for _, r := range other.Dump() {
					for _, pth := range r.Paths() {
						j, _ := json.Marshal(projectFull(pth, emb.V6))
						out = append(out, fmt.Sprintf("other /%s %s", emb.Bits(r.Prefix()), j))
					}
				}
			}
			sort.Strings(out)
			return out
		}
		newOut := func() {
			out = adjRIBOut.New(lr, sa, buildChain(chain, emb))
			if idStart > 0 {
				// the session's history starts close to the wrap of the identifier allocation counter
				out.VerifSetLastPathID(uint32(idStart))
			}
			cl = &outClient{emb: emb, ap: sess.N > 1, view: map[string]string{}, mask: sess.RRC}
			out.Register(cl)
			opt := routingtable.ClientOptions{BestOnly: true}
			if sess.N > 1 {
				opt = routingtable.ClientOptions{MaxPaths: uint(sess.N)}
			}
			lr.RegisterWithOptions(out, opt)
		}
		var pending *core.Divergence // the first occurrence of the recorded add-path over-withdrawal in this behaviour
		tainted := false
		for i, st := range b.Steps {
			a := st.Str("a")
			core.At(i, a)
			if st.Has("pr") {
				var r outRec
				st.Into("pr", &r)
				recs[st.Str("p")] = r
			}
			var pfx []int
			if st.Has("pfx") {
				st.Into("pfx", &pfx)
			}
			exportSide := a == "ReplaceExport" || a == "Down" || a == "Up"
			var before []string
			if viaIn && exportSide {
				before = tableSnapshot()
			}
			switch a {
			case "Config":
				st.Into("sess", &sess)
				st.Into("chain", &chain)
				peerASN := uint32(65001)
				if sess.IBGP {
					peerASN = 65000
				}
				sa = routingtable.SessionAttrs{
					RouterID: 77, PeerIP: addr(emb.V6, 201).Ptr(), LocalIP: addr(emb.V6, 200).Ptr(), Type: route.BGPPathType,
					IBGP: sess.IBGP, LocalASN: 65000, PeerASN: peerASN, RouteServerClient: sess.RSC, RouteReflectorClient: sess.RRC,
					ClusterID: 88, AddPathTX: sess.N > 1, PeerRoleEnabled: sess.Roles, PeerRoleAdvByPeer: sess.Roles,
					PeerRoleRemote: roleByName[sess.Remote],
				}
				lr = locRIB.New("verif")
				if viaIn {
					vr = vrf.NewUntrackedVRF("verif", 0)
					osa := sa
					osa.IBGP, osa.PeerASN, osa.RouteReflectorClient, osa.RouteServerClient, osa.AddPathTX = !sa.IBGP, 65000, !sa.IBGP, false, true
					if sa.IBGP {
						osa.PeerASN = 65002
					}
					osa.PeerIP = addr(emb.V6, 202).Ptr()
					osa.PeerRoleEnabled = false
					other = adjRIBOut.New(lr, osa, filter.NewAcceptAllFilterChain())
					lr.RegisterWithOptions(other, routingtable.ClientOptions{MaxPaths: 4})
				}
				newOut()
			case "AddPath":
				r := recs[st.Str("p")]
				if viaIn && r.Type != "static" {
					inFor(r.Src).AddPath(emb.Pfx(bitsOf(pfx)), r.build(emb.V6))
				} else {
					lr.AddPath(emb.Pfx(bitsOf(pfx)), r.build(emb.V6))
				}
			case "RemovePath":
				r := recs[st.Str("p")]
				if viaIn && r.Type != "static" {
					inFor(r.Src).RemovePath(emb.Pfx(bitsOf(pfx)), &route.Path{Type: route.BGPPathType, BGPPath: &route.BGPPath{}})
				} else {
					lr.RemovePath(emb.Pfx(bitsOf(pfx)), r.build(emb.V6))
				}
			case "Down":
				lr.Unregister(out)
				out.Unregister(cl)
				out, cl = nil, nil
			case "Up":
				newOut()
			case "ReplaceExport":
				st.Into("chain", &chain)
				out.ReplaceFilterChain(buildChain(chain, emb))
			default:
				panic("harness: unknown action " + a)
			}
			if viaIn && exportSide {
				after := tableSnapshot()
				if kind, missing, extra := core.SetDiff(before, after); kind != "" {
					return &core.Divergence{Step: i, Action: a, Field: "other-table-altered", Kind: kind, Want: before, Got: after,
						Detail: fmt.Sprintf("missing=%v extra=%v", missing, extra)}
				}
			}
			var exp struct {
				Rib []struct {
					Pfx   []int    `json:"pfx"`
					Paths []string `json:"paths"`
				} `json:"rib"`
				Up  bool `json:"up"`
				Out []struct {
					Pfx   []int     `json:"pfx"`
					Paths []wireRec `json:"paths"`
				} `json:"out"`
				Other []struct {
					Pfx   []int     `json:"pfx"`
					Paths []wireRec `json:"paths"`
				} `json:"other"`
			}
			st.Into("st", &exp)
			// C13: the second session's Adj-RIB-Out is what its own export rules give, whatever the first session did
			if viaIn && other != nil {
				for _, e := range exp.Other {
					bits := bitsOf(e.Pfx)
					want, got := []string{}, []string{}
					for _, w := range e.Paths {
						want = append(want, w.key(!sess.IBGP))
					}
					for _, pth := range other.Get(emb.Pfx(bits)).Paths() {
						got = append(got, projectWire(pth, emb.V6).key(!sess.IBGP))
					}
					if kind, missing, extra := core.SetDiff(want, got); kind != "" {
						return &core.Divergence{Step: i, Action: a, Field: "other-session-adj-rib-out", Kind: kind, Want: want, Got: got,
							Detail: fmt.Sprintf("pfx=/%s missing=%v extra=%v", bits, missing, extra)}
					}
				}
			}
			// C13: the Loc-RIB still holds exactly the paths that were added, attribute for attribute
			for _, e := range exp.Rib {
				r := lr.Get(emb.Pfx(bitsOf(e.Pfx)))
				want, got := []string{}, []string{}
				for _, n := range e.Paths {
					j, _ := json.Marshal(projectFull(recs[n].build(emb.V6), emb.V6))
					want = append(want, n+" "+string(j))
				}
				for _, pth := range r.Paths() {
					// the stored path must be, attribute for attribute, one of the paths that were added
					j, _ := json.Marshal(projectFull(pth, emb.V6))
					name := "?"
					for _, n := range e.Paths {
						jn, _ := json.Marshal(projectFull(recs[n].build(emb.V6), emb.V6))
						if string(jn) == string(j) {
							name = n
						}
					}
					if name == "?" {
						// altered: attribute it to the path with the same identity (identifier + source, or static next hop)
						for _, n := range e.Paths {
							if pth.Type == route.StaticPathType {
								if recs[n].Type == "static" && recs[n].NH == nhOfPath(pth, emb.V6) {
									name = n
								}
							} else if recs[n].Type != "static" && recs[n].ID == idOf(pth) && recs[n].Src == nhNum(pth.BGPPath.BGPPathA.Source, emb.V6) {
								name = n
							}
						}
					}
					got = append(got, name+" "+string(j))
				}
				if kind, _, _ := core.SetDiff(want, got); kind != "" {
					return &core.Divergence{Step: i, Action: a, Field: "locrib-altered", Kind: kind, Want: want, Got: got}
				}
			}
			if !exp.Up || tainted {
				continue
			}
			// C08: Adj-RIB-Out dump
			nonEmpty := 0
			for _, e := range exp.Out {
				bits := bitsOf(e.Pfx)
				want := []string{}
				for _, w := range e.Paths {
					want = append(want, w.key(sess.RRC))
				}
				if len(want) > 0 {
					nonEmpty++
				}
				got := []string{}
				ids := map[uint32]int{}
				r := out.Get(emb.Pfx(bits))
				for _, pth := range r.Paths() {
					got = append(got, projectWire(pth, emb.V6).key(sess.RRC))
					ids[pth.BGPPath.PathIdentifier]++
				}
				if kind, missing, extra := core.SetDiff(want, got); kind != "" {
					// situation class: with add-path send, does the Loc-RIB window of this prefix hold a path that must
					// not be advertised (own path, NO_EXPORT towards eBGP, NO_ADVERTISE)?
					class := ""
					if sess.N > 1 {
						for _, re := range exp.Rib {
							if bitsOf(re.Pfx) != bits {
								continue
							}
							for wi, n := range re.Paths {
								if wi >= sess.N {
									break
								}
								rc := recs[n]
								for _, c := range rc.Comm {
									if c == "noadvertise" || (c == "noexport" && !sess.IBGP) {
										class = "addpath-window-holds-unadvertisable-path"
									}
								}
								if rc.Type != "static" && rc.Src == 201 {
									class = "addpath-window-holds-unadvertisable-path"
								}
								// iBGP split horizon (an iBGP-learned path towards an iBGP peer that is no RR client) and RFC 9234 (a route
								// with OTC towards a provider, peer or route server) keep a path back just the same
								if rc.Type != "static" && !rc.EBGP && sess.IBGP && !sess.RRC {
									class = "addpath-window-holds-unadvertisable-path"
								}
								if rc.OTC != 0 && sess.Roles && (sess.Remote == "provider" || sess.Remote == "peer" || sess.Remote == "rs") {
									class = "addpath-window-holds-unadvertisable-path"
								}
							}
						}
					}
					dv := &core.Divergence{Step: i, Action: a, Field: "adj-rib-out", Kind: kind, Class: class,
						Want: want, Got: got, Detail: fmt.Sprintf("pfx=/%s missing=%v extra=%v events=%v", bits, missing, extra, cl.events)}
					if class != "addpath-window-holds-unadvertisable-path" {
						return dv
					}
					// the recorded over-withdrawal of add-path sessions: remember it, stop comparing this session's tables (they are off
					// from here on) and go on watching everything else (the other tables, the Loc-RIB's own path objects)
					if pending == nil {
						pending = dv
					}
					tainted = true
					break
				}
				// C11: identifiers unique per prefix
				if sess.N > 1 {
					for id, n := range ids {
						if n > 1 || (id == 0 && idStart == 0) { // a failed allocation leaves 0; after a wrap of the counter 0 is an identifier like any other
							return &core.Divergence{Step: i, Action: a, Field: "path-id", Kind: "duplicate",
								Want: "distinct non-zero identifiers per prefix", Got: fmt.Sprint(ids)}
						}
					}
				}
				// what the update sender has been told, keyed as the peer keys it, equals the Adj-RIB-Out
				gotView := []string{}
				prefix := "/" + bits + "#"
				for k, v := range cl.view {
					if len(k) > len(prefix) && k[:len(prefix)] == prefix {
						gotView = append(gotView, v)
					}
				}
				if kind, missing, extra := core.SetDiff(want, gotView); kind != "" {
					return &core.Divergence{Step: i, Action: a, Field: "client-view", Kind: kind,
						Want: want, Got: gotView, Detail: fmt.Sprintf("pfx=/%s missing=%v extra=%v events=%v", bits, missing, extra, cl.events)}
				}
			}
			if tainted {
				continue
			}
			if n := int(out.RouteCount()); n != nonEmpty {
				return &core.Divergence{Step: i, Action: a, Field: "routecount", Kind: "wrong", Want: nonEmpty, Got: n}
			}
			if n := len(out.Dump()); n != nonEmpty {
				return &core.Divergence{Step: i, Action: a, Field: "dump", Kind: "wrong", Want: nonEmpty, Got: n}
			}
		}
		if pending != nil {
			return pending
		}
		return nil
	})
}

func idOf(p *route.Path) uint32 {
	if p.BGPPath != nil && p.BGPPath.BGPPathA != nil {
		return p.BGPPath.BGPPathA.BGPIdentifier
	}
	return 0
}

func nhOfPath(p *route.Path, v6 bool) uint32 {
	// the original next hop identifies the path even if something rewrote it: statics by StaticPath, BGP by identifier
	if p.Type == route.StaticPathType && p.StaticPath != nil {
		return nhNum(p.StaticPath.NextHop, v6)
	}
	return 0
}

// projectFull: every attribute of a stored path (for the C13 snapshot comparison).
func projectFull(p *route.Path, v6 bool) map[string]interface{} {
	m := map[string]interface{}{"type": p.Type, "hidden": p.HiddenReason, "redistFrom": p.RedistributedFrom}
	if p.StaticPath != nil {
		m["static-nh"] = nhNum(p.StaticPath.NextHop, v6)
	}
	if p.BGPPath != nil {
		w := projectWire(p, v6)
		m["wire"] = w
		m["src"] = nhNum(p.BGPPath.BGPPathA.Source, v6)
		m["id"] = p.BGPPath.BGPPathA.BGPIdentifier
		m["pid"] = p.BGPPath.PathIdentifier
		m["aslen"] = p.BGPPath.ASPathLen
	}
	return m
}
