package adapters

import (
	"fmt"
	"net"
	"sort"
	"sync"
	"time"

	bnet "github.com/bio-routing/bio-rd/net"
	"github.com/bio-routing/bio-rd/protocols/bgp/packet"
	"github.com/bio-routing/bio-rd/protocols/bgp/server"
	"github.com/bio-routing/bio-rd/protocols/bgp/types"
	"github.com/bio-routing/bio-rd/route"
	"github.com/bio-routing/bio-rd/routingtable"
	"github.com/bio-routing/bio-rd/routingtable/adjRIBOut"
	"github.com/bio-routing/bio-rd/routingtable/filter"
	"github.com/bio-routing/bio-rd/routingtable/locRIB"

	"verifharness/core"
	"verifharness/wire"
)

// captureConn is a net.Conn that records everything written to it.
type captureConn struct {
	mu  sync.Mutex
	buf []byte
}

func (c *captureConn) Write(b []byte) (int, error) {
	c.mu.Lock()
	c.buf = append(c.buf, b...)
	c.mu.Unlock()
	return len(b), nil
}
func (c *captureConn) bytes() []byte {
	c.mu.Lock()
	defer c.mu.Unlock()
	return append([]byte{}, c.buf...)
}
func (c *captureConn) Read(b []byte) (int, error) { select {} }
func (c *captureConn) Close() error               { return nil }
func (c *captureConn) LocalAddr() net.Addr {
	return &net.TCPAddr{IP: net.IPv4(10, 0, 0, 200), Port: 179}
}
func (c *captureConn) RemoteAddr() net.Addr {
	return &net.TCPAddr{IP: net.IPv4(10, 0, 0, 201), Port: 179}
}
func (c *captureConn) SetDeadline(t time.Time) error      { return nil }
func (c *captureConn) SetReadDeadline(t time.Time) error  { return nil }
func (c *captureConn) SetWriteDeadline(t time.Time) error { return nil }

// senderDiffer names the one attribute in which the bundles a, b, c differ (everything else is equal): the sender groups queued
// prefixes by attribute bundle, so every attribute that goes on the wire has to keep bundles apart.
var senderDiffer = "med"

type senderSess struct {
	V6      bool
	AddPath bool
	IBGP    bool
	RRC     bool
	ASN4    bool
}

func (s senderSess) cfg() server.VerifSenderConfig {
	c := server.VerifSenderConfig{AFI: packet.AFIIPv4, AddPath: s.AddPath, IBGP: s.IBGP, RRClient: s.RRC, ASN4: s.ASN4}
	if s.V6 {
		c.AFI, c.MultiProtocol = packet.AFIIPv6, true
	}
	return c
}

func (s senderSess) wireOpt() wire.Options {
	return wire.Options{AddPathIPv4: s.AddPath && !s.V6, AddPathIPv6: s.AddPath && s.V6, ASN4: s.ASN4}
}

func sessFromParams(p core.Params) senderSess {
	return senderSess{V6: p.Bool("v6", false), AddPath: p.Bool("addpath", false), IBGP: p.Bool("ibgp", false),
		RRC: p.Bool("rrc", false), ASN4: p.Bool("asn4", true)}
}

var senderPfx = map[string][2]string{"x": {"10.1.0.0/16", "2001:db8:1::/48"}, "y": {"10.2.0.0/16", "2001:db8:2::/48"},
	"z": {"10.3.3.0/24", "2001:db8:3:3::/64"}}
var senderBundle = map[string]uint32{"a": 1, "b": 2, "c": 3}

func senderPrefix(name string, v6 bool) *bnet.Prefix {
	s := senderPfx[name][0]
	if v6 {
		s = senderPfx[name][1]
	}
	p, err := bnet.PrefixFromString(s)
	if err != nil {
		panic("harness: " + err.Error())
	}
	return p
}

func senderPath(name string, s senderSess) *route.Path {
	id := senderBundle[name]
	med := uint32(1)
	if senderDiffer == "med" {
		med = id
	}
	p := buildRibPath(ribPath{LP: 100, MED: med, NH: 9, ASP: []uint32{65001, 65002}}, s.V6, !s.IBGP, addr(s.V6, 5).Ptr(), nil)
	if s.AddPath {
		p.BGPPath.PathIdentifier = id
	}
	switch senderDiffer {
	case "med":
	case "comm":
		p.BGPPath.Communities = &types.Communities{100, id}
	case "lcomm":
		p.BGPPath.LargeCommunities = &types.LargeCommunities{{GlobalAdministrator: 1, DataPart1: 2, DataPart2: id}}
	case "otc":
		p.BGPPath.BGPPathA.OnlyToCustomer = 65000 + id
	case "unknown":
		p.BGPPath.UnknownAttributes = []types.UnknownPathAttribute{{Optional: true, Transitive: true, TypeCode: 200, Value: []byte{byte(id)}}}
	case "origin":
		p.BGPPath.BGPPathA.Origin = uint8(id - 1)
	case "aggr": // a: neither, b: ATOMIC_AGGREGATE, c: AGGREGATOR
		if id == 2 {
			p.BGPPath.BGPPathA.AtomicAggregate = true
		}
		if id == 3 {
			p.BGPPath.BGPPathA.Aggregator = &types.Aggregator{Address: 0x0a000009, ASN: 65001}
		}
	default:
		panic("harness: unknown differ " + senderDiffer)
	}
	return p
}

// senderBundleOf names the bundle an UPDATE's attributes belong to.
func senderBundleOf(a wire.Attrs) string {
	var v uint32
	switch senderDiffer {
	case "med":
		v = a.MED
	case "comm":
		if len(a.Communities) == 2 {
			v = a.Communities[1]
		}
	case "lcomm":
		if len(a.LargeComm) == 1 {
			v = a.LargeComm[0][2]
		}
	case "otc":
		v = a.OTC - 65000
	case "unknown":
		if len(a.Unknown) == 1 && len(a.Unknown[0].Value) == 1 {
			v = uint32(a.Unknown[0].Value[0])
		}
	case "origin":
		v = uint32(a.Origin) + 1
	case "aggr":
		v = 1
		if a.Present[6] {
			v = 2
		}
		if a.Present[7] {
			v = 3
		}
	}
	for name, id := range senderBundle {
		if v == id {
			return name
		}
	}
	return "?"
}

// peerView folds the captured UPDATEs as the peer would: (prefix[, path id]) -> bundle.
func peerView(raw []byte, s senderSess) (map[string][]string, error) {
	msgs, rest, err := wire.SplitStream(raw)
	if err != nil {
		return nil, err
	}
	if len(rest) != 0 {
		return nil, fmt.Errorf("%d trailing bytes", len(rest))
	}
	type key struct {
		pfx string
		pid uint32
	}
	view := map[key]string{}
	nameOf := func(n wire.NLRI) string {
		for name := range senderPfx {
			p := senderPrefix(name, s.V6)
			pb := p.Addr().Bytes()[:(int(p.Len())+7)/8]
			if int(p.Len()) == n.Len && fmt.Sprintf("%x", pb) == fmt.Sprintf("%x", n.Addr) && (n.AFI == wire.AFIIPv6) == s.V6 {
				return name
			}
		}
		return "?" + n.Key()
	}
	for i, m := range msgs {
		d, err := wire.Decode(m, s.wireOpt())
		if err != nil {
			return nil, fmt.Errorf("message %d: %w", i, err)
		}
		if d.Update == nil {
			continue
		}
		for _, n := range d.Update.Withdrawn {
			delete(view, key{nameOf(n), n.PathID})
		}
		for _, n := range d.Update.Announced {
			b := senderBundleOf(d.Update.Attrs)
			view[key{nameOf(n), n.PathID}] = b
		}
	}
	out := map[string][]string{}
	for k, v := range view {
		out[k.pfx] = append(out[k.pfx], v)
	}
	for k := range out {
		sort.Strings(out[k])
	}
	return out, nil
}

type senderState struct {
	AdjOut []struct {
		Pfx   string   `json:"pfx"`
		Paths []string `json:"paths"`
	} `json:"adjout"`
	Queued int `json:"queued"`
	Peer   []struct {
		Pfx   string   `json:"pfx"`
		Paths []string `json:"paths"`
	} `json:"peer"`
}

// Spec Sender (C10).
func init() {
	core.Register("sender", func(b *core.Behaviour, p core.Params) *core.Divergence {
		s := sessFromParams(p)
		senderDiffer = p.Str("differ", "med")
		ticker := p.Bool("ticker", false)
		rounds := p.Int("rounds", 6)
		for r := 0; r < rounds; r++ { // the order of the buckets is Go map order: run several times
			con := &captureConn{}
			u := server.VerifNewUpdateSender(con, s.cfg())
			if ticker {
				u.Start(200 * time.Microsecond)
			}
			// via_ribout: the calls go to the session's Adj-RIB-Out, the sender is its client (an accept-all export policy; the
			// bundles stay apart in the attribute that tells them apart, whatever the Adj-RIB-Out rewrites)
			var out *adjRIBOut.AdjRIBOut
			if p.Bool("via_ribout", false) {
				sa := routingtable.SessionAttrs{RouterID: 100, PeerIP: addr(s.V6, 77).Ptr(), LocalIP: addr(s.V6, 200).Ptr(), Type: route.BGPPathType,
					IBGP: s.IBGP, LocalASN: 65000, PeerASN: 65077, AddPathTX: s.AddPath}
				if s.IBGP {
					sa.PeerASN = 65000
					sa.RouteReflectorClient = true
				}
				out = adjRIBOut.New(locRIB.New("inet.0"), sa, filter.NewAcceptAllFilterChain())
				out.Register(u)
			}
			var dv *core.Divergence
			for i, st := range b.Steps {
				a := st.Str("a")
				core.At(i, a)
				switch a {
				case "AddPath", "Put":
					if out != nil {
						out.AddPath(senderPrefix(st.Str("pfx"), s.V6), senderPath(st.Str("p"), s))
					} else {
						u.AddPath(senderPrefix(st.Str("pfx"), s.V6), senderPath(st.Str("p"), s))
					}
				case "RemovePath":
					if out != nil {
						out.RemovePath(senderPrefix(st.Str("pfx"), s.V6), senderPath(st.Str("p"), s))
					} else {
						u.RemovePath(senderPrefix(st.Str("pfx"), s.V6), senderPath(st.Str("p"), s))
					}
				case "Flush":
					if ticker {
						deadline := time.Now().Add(5 * time.Second)
						for u.VerifQueued() > 0 && time.Now().Before(deadline) {
							time.Sleep(200 * time.Microsecond)
						}
						time.Sleep(2 * time.Millisecond) // the round that emptied the queue may still be writing
					} else {
						u.EndOfRIB()
					}
				default:
					panic("harness: unknown action " + a)
				}
				if ticker && a != "Flush" {
					continue // only quiescent points are comparable while the sender goroutine runs
				}
				var exp senderState
				st.Into("st", &exp)
				got, err := peerView(con.bytes(), s)
				if err != nil {
					dv = &core.Divergence{Step: i, Action: a, Field: "wire", Kind: "wrong", Want: "well-formed UPDATE stream", Got: err.Error()}
					break
				}
				want := map[string][]string{}
				for _, e := range exp.Peer {
					if len(e.Paths) > 0 {
						want[e.Pfx] = append([]string{}, e.Paths...)
						sort.Strings(want[e.Pfx])
					}
				}
				if d := compareView(i, a, "peer-view", "", want, got); d != nil {
					d.Detail = fmt.Sprintf("run %d of %d; session=%+v", r+1, rounds, s)
					dv = d
					break
				}
				if a == "Flush" && u.VerifQueued() != 0 {
					dv = &core.Divergence{Step: i, Action: a, Field: "queue", Kind: "wrong", Want: 0, Got: u.VerifQueued()}
					break
				}
			}
			if ticker {
				u.Destroy()
			}
			if dv != nil {
				return dv
			}
		}
		return nil
	})
}
