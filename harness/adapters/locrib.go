package adapters

import (
	"fmt"
	"sort"
	"sync"

	bnet "github.com/bio-routing/bio-rd/net"
	"github.com/bio-routing/bio-rd/route"
	"github.com/bio-routing/bio-rd/routingtable"
	"github.com/bio-routing/bio-rd/routingtable/locRIB"

	"verifharness/core"
)

// pathBook resolves real paths back to the abstract names of the spec.
type pathBook struct {
	v6    bool
	recs  map[string]PathRec
	order []string
}

func newPathBook(v6 bool) *pathBook { return &pathBook{v6: v6, recs: map[string]PathRec{}} }

func (pb *pathBook) learn(name string, r PathRec) {
	if _, ok := pb.recs[name]; !ok {
		pb.recs[name] = r
		pb.order = append(pb.order, name)
	}
}

func (pb *pathBook) build(name string) *route.Path {
	r, ok := pb.recs[name]
	if !ok {
		panic("harness: unknown path name " + name)
	}
	return r.Build(pb.v6)
}

func (pb *pathBook) nameOf(p *route.Path) string {
	if p == nil {
		return "?nil"
	}
	for _, n := range pb.order {
		if pb.build(n).Compare(p) {
			return n
		}
	}
	return "?" + p.String()
}

// recClient records what a RouteTableClient has been given (set semantics per prefix).
type recClient struct {
	mu       sync.Mutex
	emb      Embedding
	pb       *pathBook
	have     map[string]map[string]int // pfx bits -> path name -> multiplicity
	eor      int
	disposed int
	events   []string
}

func newRecClient(emb Embedding, pb *pathBook) *recClient {
	return &recClient{emb: emb, pb: pb, have: map[string]map[string]int{}}
}

func (c *recClient) add(pfx *bnet.Prefix, p *route.Path, ev string) {
	c.mu.Lock()
	defer c.mu.Unlock()
	k := c.emb.Bits(pfx)
	if c.have[k] == nil {
		c.have[k] = map[string]int{}
	}
	n := c.pb.nameOf(p)
	c.have[k][n]++
	c.events = append(c.events, ev+" "+k+" "+n)
}

func (c *recClient) AddPath(pfx *bnet.Prefix, p *route.Path) error { c.add(pfx, p, "add"); return nil }
func (c *recClient) AddPathInitialDump(pfx *bnet.Prefix, p *route.Path) error {
	c.add(pfx, p, "dump")
	return nil
}
func (c *recClient) EndOfRIB() { c.mu.Lock(); c.eor++; c.mu.Unlock() }
func (c *recClient) RemovePath(pfx *bnet.Prefix, p *route.Path) bool {
	c.mu.Lock()
	defer c.mu.Unlock()
	k := c.emb.Bits(pfx)
	n := c.pb.nameOf(p)
	c.events = append(c.events, "remove "+k+" "+n)
	if c.have[k] == nil || c.have[k][n] == 0 {
		// a withdrawal of something never given: remember it as a negative entry so that it shows up
		if c.have[k] == nil {
			c.have[k] = map[string]int{}
		}
		c.have[k]["!withdrawn-unknown:"+n]++
		return false
	}
	c.have[k][n]--
	if c.have[k][n] == 0 {
		delete(c.have[k], n)
	}
	return true
}
func (c *recClient) ReplacePath(pfx *bnet.Prefix, o, n *route.Path) {
	c.RemovePath(pfx, o)
	c.add(pfx, n, "replace")
}
func (c *recClient) RefreshRoute(pfx *bnet.Prefix, paths []*route.Path) {
	c.mu.Lock()
	defer c.mu.Unlock()
	k := c.emb.Bits(pfx)
	c.have[k] = map[string]int{}
	for _, p := range paths {
		c.have[k][c.pb.nameOf(p)]++
	}
	c.events = append(c.events, fmt.Sprintf("refresh %s %d", k, len(paths)))
}
func (c *recClient) Dispose() { c.mu.Lock(); c.disposed++; c.mu.Unlock() }

// view returns pfx -> sorted names (with multiplicity: a name held twice appears twice).
func (c *recClient) view() map[string][]string {
	c.mu.Lock()
	defer c.mu.Unlock()
	out := map[string][]string{}
	for k, m := range c.have {
		for n, cnt := range m {
			for i := 0; i < cnt; i++ {
				out[k] = append(out[k], n)
			}
		}
		sort.Strings(out[k])
	}
	return out
}

var _ routingtable.RouteTableClient = (*recClient)(nil)

func clientOptions(kind string, n int) routingtable.ClientOptions {
	switch kind {
	case "best":
		return routingtable.ClientOptions{BestOnly: true}
	case "ecmp":
		return routingtable.ClientOptions{EcmpOnly: true}
	}
	return routingtable.ClientOptions{MaxPaths: uint(n)}
}

// compareView checks pfx -> set of names.
func compareView(step int, action, field, class string, want map[string][]string, got map[string][]string) *core.Divergence {
	keys := map[string]bool{}
	for k := range want {
		keys[k] = true
	}
	for k := range got {
		keys[k] = true
	}
	for _, k := range sortedStrings(keys) {
		if kind, _, _ := core.SetDiff(want[k], got[k]); kind != "" {
			return &core.Divergence{Step: step, Action: action, Field: field, Kind: kind, Class: class,
				Want: map[string]interface{}{k: want[k]}, Got: map[string]interface{}{k: got[k]}}
		}
	}
	return nil
}

type locribSys struct {
	emb     Embedding
	pb      *pathBook
	lr      *locRIB.LocRIB
	clients map[string]*recClient
}

func (s *locribSys) ribOrder(pfxs []string) (map[string][]string, map[string]int) {
	order := map[string][]string{}
	ecmp := map[string]int{}
	for _, k := range pfxs {
		r := s.lr.Get(s.emb.Pfx(k))
		order[k] = []string{}
		for _, p := range r.Paths() {
			order[k] = append(order[k], s.pb.nameOf(p))
		}
		ecmp[k] = int(r.ECMPPathCount())
	}
	return order, ecmp
}

func init() {
	core.Register("locrib", func(b *core.Behaviour, p core.Params) *core.Divergence {
		emb := getEmbedding(p.Str("emb", "v4o8"))
		s := &locribSys{emb: emb, pb: newPathBook(emb.V6), lr: locRIB.New("verif"), clients: map[string]*recClient{}}
		for i, st := range b.Steps {
			a := st.Str("a")
			core.At(i, a)
			if st.Has("pr") {
				var r PathRec
				st.Into("pr", &r)
				s.pb.learn(st.Str("p"), r)
			}
			if st.Has("oldr") {
				var r PathRec
				st.Into("oldr", &r)
				s.pb.learn(st.Str("old"), r)
			}
			switch a {
			case "AddPath":
				s.lr.AddPath(emb.Pfx(st.Str("pfx")), s.pb.build(st.Str("p")))
			case "RemovePath":
				s.lr.RemovePath(emb.Pfx(st.Str("pfx")), s.pb.build(st.Str("p")))
			case "ReplacePath":
				s.lr.ReplacePath(emb.Pfx(st.Str("pfx")), s.pb.build(st.Str("old")), s.pb.build(st.Str("p")))
			case "Register":
				var o struct {
					Kind string `json:"kind"`
					N    int    `json:"n"`
				}
				st.Into("opt", &o)
				c := newRecClient(emb, s.pb)
				s.clients[st.Str("c")] = c
				s.lr.RegisterWithOptions(c, clientOptions(o.Kind, o.N))
			case "Unregister":
				s.lr.Unregister(s.clients[st.Str("c")])
			case "Refresh":
				s.lr.RefreshClient(s.clients[st.Str("c")])
			default:
				panic("harness: unknown action " + a)
			}
			// expected state
			var exp struct {
				Rib  map[string][]string            `json:"rib"`
				Ecmp map[string]int                 `json:"ecmp"`
				Reg  map[string]bool                `json:"reg"`
				View map[string]map[string][]string `json:"view"`
			}
			st.Into("rib", &exp.Rib)
			st.Into("ecmp", &exp.Ecmp)
			st.Into("reg", &exp.Reg)
			st.Into("view", &exp.View)
			pfxs := []string{}
			for k := range exp.Rib {
				pfxs = append(pfxs, k)
			}
			sort.Strings(pfxs)
			order, ecmp := s.ribOrder(pfxs)
			nonEmpty := 0
			for _, k := range pfxs {
				if len(exp.Rib[k]) > 0 {
					nonEmpty++
				}
				if kind, _, _ := core.SetDiff(exp.Rib[k], order[k]); kind != "" {
					return &core.Divergence{Step: i, Action: a, Field: "rib-content", Kind: kind, Want: exp.Rib[k], Got: order[k]}
				}
				if !core.EqualJSON(exp.Rib[k], order[k]) {
					return &core.Divergence{Step: i, Action: a, Field: "selection-order", Kind: "wrong", Want: exp.Rib[k], Got: order[k]}
				}
				if exp.Ecmp[k] != ecmp[k] {
					return &core.Divergence{Step: i, Action: a, Field: "ecmp-count", Kind: "wrong", Want: exp.Ecmp[k], Got: ecmp[k]}
				}
				r := s.lr.Get(emb.Pfx(k))
				if len(exp.Rib[k]) > 0 {
					if best := s.pb.nameOf(r.BestPath()); best != exp.Rib[k][0] {
						return &core.Divergence{Step: i, Action: a, Field: "bestpath", Kind: "wrong", Want: exp.Rib[k][0], Got: best}
					}
					if n := len(r.ECMPPaths()); n != exp.Ecmp[k] {
						return &core.Divergence{Step: i, Action: a, Field: "ecmp-paths", Kind: "wrong", Want: exp.Ecmp[k], Got: n}
					}
				}
			}
			if n := int(s.lr.RouteCount()); n != nonEmpty {
				return &core.Divergence{Step: i, Action: a, Field: "routecount", Kind: "wrong", Want: nonEmpty, Got: n}
			}
			if n := len(s.lr.Dump()); n != nonEmpty {
				return &core.Divergence{Step: i, Action: a, Field: "dump", Kind: "wrong", Want: nonEmpty, Got: n}
			}
			for _, cn := range sortedKeys(exp.View) {
				c := s.clients[cn]
				if c == nil {
					continue // never registered: nothing can have been delivered
				}
				class := "registered"
				if !exp.Reg[cn] {
					class = "unregistered"
				}
				if d := compareView(i, a, "client-view", cn+":"+class, exp.View[cn], c.view()); d != nil {
					d.Detail = fmt.Sprint(c.events)
					return d
				}
			}
		}
		return nil
	})
}

func sortedKeys[V any](m map[string]V) []string {
	out := make([]string, 0, len(m))
	for k := range m {
		out = append(out, k)
	}
	sort.Strings(out)
	return out
}
