package adapters

import (
	"fmt"
	"reflect"
	"sort"
	"time"

	isis "github.com/bio-routing/bio-rd/protocols/isis/server"

	"verifharness/core"
)

// Spec ISISAdj (C31): hellos of one or two neighbours with varying three-way TLV contents and holding times,
// interleaved with advances of the mock clock, against a real isis/server.Server.
//
// Observed through the public API: Server.GetAdjacencies (state, Timeout, LastStateChange) and Server.GetLSDB (the
// local LSP's extended IS reachability). verif accessors used: VerifConstants (binding of DownRetention),
// VerifRequestLSPUpdate (the RegenerateLSP trigger), VerifAdjTicksPending (tick taken by the checker).

type adjObs struct {
	S    string `json:"s"`
	Left int    `json:"left"`
	Age  int    `json:"age"`
}

type adjState struct {
	Adj map[string]adjObs `json:"adj"`
	LSP []string          `json:"lsp"`
}

type adjChange struct {
	At int               `json:"at"`
	St map[string]string `json:"st"`
}

func init() {
	core.Register("isisadj", func(b *core.Behaviour, p core.Params) *core.Divergence {
		topo := p.Str("topo", "2if")
		var env *isisEnv
		defer func() {
			if env != nil {
				env.shutdown()
			}
		}()
		names := []string{}
		observe := func() map[string]adjObs {
			now := env.clock.Now()
			out := map[string]adjObs{}
			for _, n := range names {
				a := env.adjOf(env.nbrs[n])
				if a == nil {
					out[n] = adjObs{S: "absent"}
					continue
				}
				o := adjObs{S: adjStateName(a.Status)}
				switch o.S {
				case "Init", "Up":
					d := a.Timeout.Sub(now)
					o.Left = int(d / time.Second)
					if d%time.Second != 0 {
						o.Left = -99999 // not on the whole-second grid the harness drives
					}
				case "Down":
					o.Age = int(now.Sub(a.LastStateChange) / time.Second)
				}
				out[n] = o
			}
			return out
		}
		states := func(o map[string]adjObs) map[string]string {
			m := map[string]string{}
			for k, v := range o {
				m[k] = v.S
			}
			return m
		}
		diffState := func(i int, a string, want, got map[string]string, detail string) *core.Divergence {
			for _, n := range names {
				if want[n] != got[n] {
					return &core.Divergence{Step: i, Action: a, Field: "adjacency", Kind: "wrong",
						Class: fmt.Sprintf("want=%s,got=%s", want[n], got[n]), Want: want, Got: got, Detail: detail}
				}
			}
			return nil
		}
		compare := func(i int, a string, want adjState) *core.Divergence {
			got := observe()
			if d := diffState(i, a, states(want.Adj), states(got), "state after the step"); d != nil {
				return d
			}
			for _, n := range names {
				w, g := want.Adj[n], got[n]
				if w.Left != g.Left {
					return &core.Divergence{Step: i, Action: a, Field: "hold-timer", Kind: "wrong", Class: w.S, Want: want.Adj, Got: got,
						Detail: "remaining holding time (Adjacency.Timeout - now, seconds) of " + n}
				}
				if w.Age != g.Age {
					return &core.Divergence{Step: i, Action: a, Field: "down-age", Kind: "wrong", Class: w.S, Want: want.Adj, Got: got,
						Detail: "seconds since the adjacency went Down (now - Adjacency.LastStateChange) of " + n}
				}
			}
			return nil
		}
		sysOf := func(ns []string) []string {
			out := []string{}
			for _, n := range ns {
				out = append(out, fmt.Sprintf("%x", env.nbrs[n].sysID[:]))
			}
			sort.Strings(out)
			return out
		}
		var prev map[string]string
		for i, st := range b.Steps {
			a := st.Str("a")
			core.At(i, a)
			var want adjState
			st.Into("st", &want)
			switch a {
			case "Config":
				if got := isis.VerifConstants()["neighborDownTimeoutS"]; got != st.Int("downRetention") {
					panic(fmt.Sprintf("harness: spec constant DownRetention=%d is not the code's neighborDownTimeoutS=%d (binding out of date)", st.Int("downRetention"), got))
				}
				switch topo {
				case "2if":
					env = newISISEnv([]string{"if1", "if2"}, true)
				case "1if":
					env = newISISEnv([]string{"if1"}, true)
				default:
					panic("harness: unknown topology " + topo)
				}
				for n := range want.Adj {
					names = append(names, n)
				}
				sort.Strings(names)
				for k, n := range names {
					ifa := "if1"
					if topo == "2if" && k%2 == 1 {
						ifa = "if2"
					}
					env.addNbr(n, byte(k+1), ifa)
				}
			case "Hello":
				nb := env.nbrs[st.Str("n")]
				if !env.sendHello(nb, st.Str("lists"), uint16(st.Int("hold"))) {
					return &core.Divergence{Step: i, Action: a, Field: "receiver", Kind: "hang", Class: "hello-not-processed",
						Detail: "the interface's receiver did not come back for the next packet"}
				}
			case "Tick":
				var chg []adjChange
				st.Into("chg", &chg)
				exp := prev
				ci := 0
				for u := 1; u <= st.Int("k"); u++ {
					// every adjacency checker has registered its ticker and taken the previous tick before the clock moves
					if !isisWaitFor(func() bool { return env.srv.VerifAdjTicksPending() == 0 }) {
						return &core.Divergence{Step: i, Action: a, Field: "adjacency-checker", Kind: "hang", Class: "tick-not-taken",
							Detail: "an adjacency checker did not take its clock tick"}
					}
					env.clock.Add(time.Second)
					isisWaitFor(func() bool { return env.srv.VerifAdjTicksPending() == 0 })
					for ci < len(chg) && chg[ci].At <= u {
						exp = chg[ci].St
						ci++
					}
					e := exp
					if !isisWaitFor(func() bool { return reflect.DeepEqual(states(observe()), e) }) {
						if d := diffState(i, a, e, states(observe()), fmt.Sprintf("%d s into the step", u)); d != nil {
							return d
						}
					}
				}
			case "RegenerateLSP":
				env.srv.VerifRequestLSPUpdate()
				wl := sysOf(want.LSP)
				if !isisWaitFor(func() bool { return reflect.DeepEqual(lspNeighbors(env.ownLSP()), wl) }) {
					got := lspNeighbors(env.ownLSP())
					kind, _, _ := core.SetDiff(wl, got)
					return &core.Divergence{Step: i, Action: a, Field: "lsp-is-reachability", Kind: kind, Class: "", Want: wl, Got: got,
						Detail: "neighbours advertised by the regenerated local LSP vs. the Up adjacencies"}
				}
			default:
				panic("harness: unknown action " + a)
			}
			if d := compare(i, a, want); d != nil {
				return d
			}
			prev = states(want.Adj)
		}
		return nil
	})
}
