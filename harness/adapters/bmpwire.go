package adapters

import (
	"encoding/binary"
	"encoding/json"
	"fmt"
	"math/rand"
	"os"
	"runtime"
	"strconv"
	"strings"
	"sync"
	"syscall"
	"time"

	"github.com/bio-routing/bio-rd/protocols/bgp/packet"
	"github.com/bio-routing/bio-rd/protocols/bgp/server"

	"verifharness/core"
)

// Spec BMPWire (C27): every case (conversation prefix, message kind, mutation) is concretised into a byte
// stream and served to a real BMP Router over net.Pipe in this process. Survival is what is checked: the
// serving goroutine must not panic, must keep taking bytes off the connection or end the session (no wedge),
// must return once the connection is closed, and must not allocate out of proportion to the bytes sent
// (runtime.MemStats.TotalAlloc over the case <= BaseKiB + Factor * bytes sent, both given by the spec).

type bmpWireCase struct {
	Ctx     string `json:"ctx"`
	Kind    string `json:"kind"`
	Mut     string `json:"mut"`
	Hi      uint32 `json:"hi"`
	Lo      uint32 `json:"lo"`
	N       int    `json:"n"`
	S       string `json:"s"`
	Type    uint8  `json:"type"`
	TrueLen int    `json:"truelen"`
	TLVOff  int    `json:"tlvoff"`
	Body    []struct {
		N  string `json:"n"`
		Sz int    `json:"sz"`
		I  int    `json:"i"`
		T  int    `json:"t"`
	} `json:"body"`
	BaseKiB uint64 `json:"basekib"`
	Factor  uint64 `json:"factor"`
}

var wirePeer = bmpPeer{VRF: "v0", Addr: 1, AS: 65001}

// wireSetPeer selects the monitored session of the case's conversation prefix (eBGP or iBGP).
func wireSetPeer(ctx string) {
	wirePeer = bmpPeer{VRF: "v0", Addr: 1, AS: 65001}
	if ctx == "ipeer" {
		wirePeer.AS = bmpLocalASN
	}
}

var wireB1 = bmpBundle{NH: 1, ASP: []uint32{65010}, MED: 0, LP: 100}
var wireB2 = bmpBundle{NH: 2, ASP: []uint32{65010, 65020}, MED: 5, LP: 200, Comm: []uint32{100}}
var wireTypeCode = map[string]uint8{"routemon": 0, "stats": 1, "peerdown": 2, "peerup": 3, "init": 4, "term": 5, "mirror": 6}

const (
	offPPH   = 6
	offBody  = 6 + 42 // kinds with a per-peer header
	offOpen1 = 6 + 42 + 20
	openLen  = 49
)

func wireUpdate(bits string, b *bmpBundle) []byte {
	return wirePeer.update(getEmbedding("v4o8").Pfx(bits), 0, b)
}

// wireBase is the valid base message of a kind.
func wireBase(kind string) []byte {
	switch kind {
	case "init":
		return bmpInitiation("r1")
	case "term":
		return bmpTermination()
	case "peerup":
		return wirePeer.peerUp()
	case "peerdown":
		return wirePeer.peerDown(1)
	case "routemon":
		return wirePeer.routeMon(false, wireUpdate("01", &wireB1))
	case "stats":
		return wirePeer.stats()
	case "mirror":
		return wirePeer.mirror(wireUpdate("01", &wireB1))
	}
	panic("harness: unknown kind " + kind)
}

func setLen(m []byte) []byte {
	binary.BigEndian.PutUint32(m[1:5], uint32(len(m)))
	return m
}

func clone(b []byte) []byte { return append([]byte{}, b...) }

// wirePDU builds the BGP PDU variants embedded in route monitoring / route mirroring messages.
func wirePDU(s string) []byte {
	upd := wireUpdate("01", &wireB1)
	hdr := func(l uint16, t uint8) []byte {
		h := make([]byte, 19)
		for i := 0; i < 16; i++ {
			h[i] = 0xff
		}
		binary.BigEndian.PutUint16(h[16:], l)
		h[18] = t
		return h
	}
	switch s {
	case "notification":
		return packet.SerializeNotificationMsg(&packet.BGPNotification{ErrorCode: packet.Cease, ErrorSubcode: packet.AdminShut})
	case "open":
		_, o := wirePeer.opens()
		return o
	case "keepalive":
		return packet.SerializeKeepaliveMsg()
	case "refresh":
		return append(hdr(23, 5), 0, 1, 0, 1)
	case "type0":
		upd[18] = 0
		return upd
	case "type9":
		upd[18] = 9
		return upd
	case "len18":
		binary.BigEndian.PutUint16(upd[16:], 18)
		return upd
	case "len0":
		binary.BigEndian.PutUint16(upd[16:], 0)
		return upd
	case "len+1":
		binary.BigEndian.PutUint16(upd[16:], uint16(len(upd)+1))
		return upd
	case "len65535":
		binary.BigEndian.PutUint16(upd[16:], 65535)
		return upd
	case "marker":
		for i := 0; i < 16; i++ {
			upd[i] = 0
		}
		return upd
	case "empty":
		return []byte{}
	case "onebyte":
		return []byte{0xff}
	case "hdronly":
		return hdr(19, packet.UpdateMsg)
	case "badorigin": // ORIGIN is the first attribute: flags, type, length 1, value
		upd[19+4+3] = 9
		return upd
	case "badnlri": // the NLRI is the last 3 bytes: prefix length, 2 address bytes
		upd[len(upd)-3] = 33
		return upd
	case "attrlen": // total path attribute length beyond the message
		binary.BigEndian.PutUint16(upd[19+2:], 4000)
		return upd
	case "as2": // AS_PATH with 2-byte ASNs although the session (and the A flag) say 4 bytes
		// AS_PATH attribute starts after ORIGIN (4 bytes): flags, type 2, len 6, segtype, seglen 1, 4-byte ASN
		o := 19 + 4 + 4
		if upd[o+1] != packet.ASPathAttr {
			panic("harness: AS_PATH not where expected")
		}
		alen := int(upd[o+2])
		as2 := []byte{upd[o], packet.ASPathAttr, 4, 2, 1, 0xfd, 0xf2}
		n := append(clone(upd[:o]), as2...)
		n = append(n, upd[o+3+alen:]...)
		binary.BigEndian.PutUint16(n[16:], uint16(len(n)))
		binary.BigEndian.PutUint16(n[19+2:], binary.BigEndian.Uint16(upd[19+2:])-uint16(3+alen)+uint16(len(as2)))
		return n
	case "unknownwithdraw":
		return wireUpdate("11", nil)
	case "mpshort": // an MP_REACH_NLRI attribute of 3 bytes (AFI, SAFI only) in front of the others
		mp := []byte{0x80, packet.MultiProtocolReachNLRIAttr, 3, 0, 2, 1}
		n := append(clone(upd[:19+4]), mp...)
		n = append(n, upd[19+4:]...)
		binary.BigEndian.PutUint16(n[16:], uint16(len(n)))
		binary.BigEndian.PutUint16(n[19+2:], binary.BigEndian.Uint16(upd[19+2:])+uint16(len(mp)))
		return n
	case "nomandatory": // NLRI without any path attribute
		n := append(hdr(0, packet.UpdateMsg), 0, 0, 0, 0, 9, 10, 64)
		binary.BigEndian.PutUint16(n[16:], uint16(len(n)))
		return n
	}
	panic("harness: unknown pdu mutation " + s)
}

// bmpWireMutate applies the case's mutation to the valid base message; cut = number of bytes after which the
// connection is closed (-1: not cut).
func bmpWireMutate(c *bmpWireCase, seed int64) (m []byte, cut int) {
	base := wireBase(c.Kind)
	if len(base) != c.TrueLen {
		panic(fmt.Sprintf("harness: encoding of a valid %s message has %d bytes, the BMPWire layout says %d", c.Kind, len(base), c.TrueLen))
	}
	m, cut = base, -1
	tlvAt := func() (off, vlen int) {
		off = c.TLVOff
		vlen = int(binary.BigEndian.Uint16(m[off+2:]))
		return
	}
	switch c.Mut {
	case "none":
	case "len":
		binary.BigEndian.PutUint32(m[1:5], c.Hi<<16|c.Lo)
	case "version":
		m[0] = uint8(c.N)
	case "type":
		m[5] = uint8(c.N)
	case "cut":
		cut = c.N
	case "swap":
		m[5] = wireTypeCode[c.S]
	case "tlvlen":
		off, _ := tlvAt()
		binary.BigEndian.PutUint16(m[off+2:], uint16(c.Lo))
	case "tlvempty":
		off, vlen := tlvAt()
		n := append(clone(m[:off+2]), 0, 0)
		m = setLen(append(n, m[off+4+vlen:]...))
	case "tlvcut":
		off, _ := tlvAt()
		m = setLen(clone(m[:off+2]))
	case "tlvtype":
		off, _ := tlvAt()
		binary.BigEndian.PutUint16(m[off:], uint16(c.Lo))
	case "tlvmany":
		for i := 0; i < c.N; i++ {
			m = append(m, 0, 0, 0, 0)
		}
		m = setLen(m)
	case "reason": // the reason TLV is the second TLV of the termination message
		off := 6 + 7
		val := make([]byte, c.N)
		m = setLen(append(clone(m[:off]), bmpTLV(1, val)...))
	case "count":
		binary.BigEndian.PutUint32(m[offBody:], c.Hi<<16|c.Lo)
	case "open":
		o := offOpen1
		if c.N == 2 {
			o += openLen
		}
		switch c.S {
		case "asn":
			binary.BigEndian.PutUint16(m[o+20:], 64999)
		case "asn4":
			binary.BigEndian.PutUint32(m[o+45:], 4200000000)
		case "astrans":
			binary.BigEndian.PutUint16(m[o+20:], packet.ASTransASN)
		case "bgpid":
			binary.BigEndian.PutUint32(m[o+24:], 0x01020304)
		case "bgpid0":
			binary.BigEndian.PutUint32(m[o+24:], 0)
		case "version":
			m[o+19] = 3
		case "hold0":
			binary.BigEndian.PutUint16(m[o+22:], 0)
		case "hold1":
			binary.BigEndian.PutUint16(m[o+22:], 1)
		case "short":
			m = setLen(append(clone(m[:o+20]), m[o+openLen:]...))
		case "optlen+":
			m[o+28] += 10
		case "optlen255":
			m[o+28] = 255
		case "type":
			m[o+18] = packet.UpdateMsg
		case "marker":
			for i := 0; i < 16; i++ {
				m[o+i] = 0
			}
		case "badcap":
			m[o+43], m[o+44] = packet.AddPathCapabilityCode, 3
		case "unknownopt":
			m[o+29] = 1
		case "nocaps":
			n := clone(m[:o+29])
			n[o+28] = 0
			binary.BigEndian.PutUint16(n[o+16:], 29)
			m = setLen(append(n, m[o+openLen:]...))
		default:
			panic("harness: unknown open mutation " + c.S)
		}
	case "peerhdr":
		switch c.S {
		case "v6flag":
			m[offPPH+1] |= 0x80
		case "type3":
			m[offPPH] = 3
		case "rd":
			for i := 0; i < 8; i++ {
				m[offPPH+2+i] = 0xff
			}
		case "zeroaddr":
			for i := 0; i < 16; i++ {
				m[offPPH+10+i] = 0
			}
		case "as0":
			binary.BigEndian.PutUint32(m[offPPH+26:], 0)
		case "allones":
			for i := 0; i < 42; i++ {
				m[offPPH+i] = 0xff
			}
		default:
			panic("harness: unknown per-peer header mutation " + c.S)
		}
	case "unknownpeer":
		m[offPPH+10+15] = 99
	case "duplicate":
	case "down":
		m = clone(m[:offBody])
		m = append(m, uint8(c.N))
		switch c.S {
		case "none":
		case "notification":
			m = append(m, packet.SerializeNotificationMsg(&packet.BGPNotification{ErrorCode: packet.Cease, ErrorSubcode: packet.AdminShut})...)
		case "short":
			m = append(m, 0)
		case "garbage":
			for i := 0; i < 100; i++ {
				m = append(m, 0xab)
			}
		default:
			panic("harness: unknown peer down data " + c.S)
		}
		m = setLen(m)
	case "pdu":
		pdu := wirePDU(c.S)
		if c.Kind == "mirror" {
			m = setLen(append(clone(m[:offBody]), bmpTLV(0, pdu)...))
		} else {
			m = setLen(append(clone(m[:offBody]), pdu...))
		}
	case "flags":
		m[offPPH+1] = uint8(c.N)
	case "rand":
		r := rand.New(rand.NewSource(seed*1000003 + int64(c.N)*7919 + int64(c.Type)))
		r.Read(m[6:])
	case "noise":
		r := rand.New(rand.NewSource(seed*1000003 + int64(c.N)*15485863 + 5))
		m = make([]byte, 16+r.Intn(4096))
		r.Read(m)
		if c.N%2 == 0 {
			m[0] = 3 // right version, everything else random
		}
	case "randhdr":
		r := rand.New(rand.NewSource(seed*1000003 + int64(c.N)*104729 + int64(c.Type) + 17))
		r.Read(m)
		m[0] = 3
		binary.BigEndian.PutUint32(m[1:5], uint32(len(m)))
		m[5] = uint8(r.Intn(7))
	default:
		panic("harness: unknown mutation " + c.Mut)
	}
	return m, cut
}

// rssGuard is a last resort against a real runaway (resident memory, not just address space): the process
// ends itself and the runner attributes the crash to the running case.
var rssGuardOnce sync.Once

func rssGuard() {
	rssGuardOnce.Do(func() {
		// An address-space ceiling turns a runaway allocation (tens of GiB of pointers that the collector would then
		// have to scan) into an immediate "out of memory" death of this replay process, which the runner attributes
		// to the running case. Allocations below the ceiling are judged by the TotalAlloc budget instead.
		lim := syscall.Rlimit{Cur: 8 << 30, Max: 8 << 30}
		_ = syscall.Setrlimit(syscall.RLIMIT_AS, &lim)
		go func() {
			for {
				time.Sleep(50 * time.Millisecond)
				b, err := os.ReadFile("/proc/self/statm")
				if err != nil {
					return
				}
				f := strings.Fields(string(b))
				if len(f) < 2 {
					return
				}
				pages, _ := strconv.ParseUint(f[1], 10, 64)
				if pages*uint64(os.Getpagesize()) > 3<<30 {
					fmt.Fprintf(os.Stderr, "verif: resident memory above 3 GiB while serving a BMP stream (step %d %s): giving up\n", core.CurStep, core.CurAction)
					os.Exit(5)
				}
			}
		}()
	})
}

func wireMemClass(c *bmpWireCase) string {
	if c.Mut == "len" || c.Mut == "rand" || c.Mut == "randhdr" || c.Mut == "cut" || c.Mut == "noise" {
		return c.Mut
	}
	return c.Kind + ":" + c.Mut
}

func init() {
	core.Register("bmpwire", func(b *core.Behaviour, p core.Params) *core.Divergence {
		rssGuard()
		seed := int64(p.Int("seed", 0))
		st := b.Steps[0]
		var c bmpWireCase
		if j, err := json.Marshal(st); err != nil || json.Unmarshal(j, &c) != nil {
			panic("harness: bad BMPWire case")
		}
		core.At(0, "Case")
		wireSetPeer(c.Ctx)
		s := newBMPSession(server.RouterConfig{Passive: true})
		s.connect()
		defer func() {
			s.closeOurs()
			s.waitEnd(bmpIOTimeout)
		}()
		// valid conversation prefix
		prefix := [][]byte{}
		switch c.Ctx {
		case "fresh":
		case "inited":
			prefix = append(prefix, bmpInitiation("r1"))
		case "peer", "ipeer":
			prefix = append(prefix, bmpInitiation("r1"), wirePeer.peerUp(), wirePeer.routeMon(false, wireUpdate("0", &wireB1)))
		default:
			panic("harness: unknown ctx " + c.Ctx)
		}
		for _, m := range prefix {
			if e := s.send(m); e != "" {
				panic("harness: the router did not take the valid conversation prefix: " + e)
			}
		}
		if len(prefix) > 0 {
			if e := s.barrier(); e != "" {
				panic("harness: the router ended the session during the valid conversation prefix: " + e)
			}
		}
		hasPeer := c.Ctx == "peer" || c.Ctx == "ipeer"
		if hasPeer {
			if v := s.vr.Router().GetVRF(0); v == nil || v.IPv4UnicastRIB().Count() != 1 {
				panic("harness: the valid conversation prefix did not install its route")
			}
		}
		m, cut := bmpWireMutate(&c, seed)

		var m0, m1 runtime.MemStats
		runtime.ReadMemStats(&m0)
		t0 := time.Now()
		s.sent = 0
		stuck := ""
		if cut >= 0 {
			stuck = s.send(m[:cut])
		} else {
			stuck = s.send(m)
			if stuck == "" {
				// valid traffic after the mutated message, then a barrier
				if hasPeer {
					stuck = s.send(wirePeer.routeMon(false, wireUpdate("01", &wireB2)))
				} else {
					stuck = s.send(bmpInitiation("r1"))
				}
			}
			if stuck == "" {
				stuck = s.barrier()
			}
		}
		wedged := stuck == "timeout" && s.ended() == nil
		// the connection breaks: serve must return
		s.closeOurs()
		end := s.waitEnd(bmpIOTimeout)
		runtime.ReadMemStats(&m1)
		wall := time.Since(t0)

		info := fmt.Sprintf("ctx=%s kind=%s mut=%s hi=%d lo=%d n=%d s=%q: %d bytes sent, message % x", c.Ctx, c.Kind, c.Mut, c.Hi, c.Lo, c.N, c.S, s.sent, bmpHead(m, 96))
		if end != nil && end.panic != "" {
			return &core.Divergence{Step: 0, Action: "Case", Field: "process", Kind: "panic", Class: bmpPanicClass(end.panic, end.stack),
				Detail: info + "\n" + end.panic + "\n" + end.stack}
		}
		if wedged {
			return &core.Divergence{Step: 0, Action: "Case", Field: "session", Kind: "hang", Class: "router-stopped-reading",
				Detail: info + ": the router neither took the bytes off the connection nor ended the session within " + bmpIOTimeout.String()}
		}
		if end == nil {
			buf := make([]byte, 1<<16)
			n := runtime.Stack(buf, true)
			return &core.Divergence{Step: 0, Action: "Case", Field: "session", Kind: "hang", Class: "serve-does-not-return",
				Detail: info + ": Router.serve did not return within " + bmpIOTimeout.String() + " after the connection was closed\n" + string(buf[:n])}
		}
		alloc := m1.TotalAlloc - m0.TotalAlloc
		if v := p.Int("basekib", 0); v > 0 { // calibration aid only: the check itself uses the spec's constants
			c.BaseKiB = uint64(v)
		}
		budget := c.BaseKiB*1024 + c.Factor*uint64(s.sent)
		if alloc > budget {
			return &core.Divergence{Step: 0, Action: "Case", Field: "memory", Kind: "alloc", Class: wireMemClass(&c),
				Want: fmt.Sprintf("<= %d bytes (%d KiB + %d x %d bytes sent)", budget, c.BaseKiB, c.Factor, s.sent), Got: alloc,
				Detail: info + fmt.Sprintf(": %d bytes allocated while handling %d bytes", alloc, s.sent)}
		}
		if wall > 4*bmpIOTimeout {
			return &core.Divergence{Step: 0, Action: "Case", Field: "session", Kind: "slow", Class: wireMemClass(&c),
				Detail: info + ": handling took " + wall.String()}
		}
		return nil
	})
}

func bmpHead(b []byte, n int) []byte {
	if len(b) > n {
		return b[:n]
	}
	return b
}
