package adapters

import (
	"bytes"
	"encoding/binary"
	"encoding/json"
	"fmt"
	"net"
	"runtime"
	"sort"
	"strings"
	"sync"
	"time"

	bnet "github.com/bio-routing/bio-rd/net"
	"github.com/bio-routing/bio-rd/protocols/bgp/packet"
	"github.com/bio-routing/bio-rd/protocols/bgp/server"
	"github.com/bio-routing/bio-rd/protocols/bgp/types"
	bmppkt "github.com/bio-routing/bio-rd/protocols/bmp/packet"
	"github.com/bio-routing/bio-rd/route"
	"github.com/bio-routing/bio-rd/routingtable"
	"github.com/bio-routing/bio-rd/routingtable/locRIB"

	"verifharness/core"
)

// Spec BMP (C28): a real BMP Router (protocols/bgp/server) is constructed through the
// verif-tagged constructor and served over net.Pipe; every step of a behaviour is one BMP
// message (or a connection event); after every step the per-VRF Loc-RIB dumps
// (Router.GetVRF(rd)) and recording observers registered on them are compared.

// ---------------------------------------------------------------- session plumbing (shared with bmpwire.go)

const (
	bmpLocalASN  = 65000
	bmpRouterBID = 0x0a0000fe
	bmpIOTimeout = 5 * time.Second
)

type bmpEnd struct {
	err   error
	panic string // non-empty: the serving goroutine panicked
	stack string
}

// bmpSession is one monitored router as BMPReceiver holds it, plus the connection being served.
type bmpSession struct {
	vr   *server.VerifBMPRouter
	conn net.Conn    // our (the monitored router's) end
	done chan bmpEnd // closed over by the serving goroutine
	end  *bmpEnd     // set once serve has returned
	sent int         // bytes written on the current connection
}

func newBMPSession(cfg server.RouterConfig) *bmpSession {
	return &bmpSession{vr: server.VerifNewBMPRouter(net.IP{10, 0, 255, 1}, 30119, cfg)}
}

// connect starts serving a fresh in-memory connection (what BMPReceiver.handleConnection does).
func (s *bmpSession) connect() {
	ours, theirs := net.Pipe()
	s.conn = ours
	s.end = nil
	s.sent = 0
	done := make(chan bmpEnd, 1)
	s.done = done
	vr := s.vr
	go func() {
		defer func() {
			if r := recover(); r != nil {
				buf := make([]byte, 1<<14)
				n := runtime.Stack(buf, false)
				done <- bmpEnd{panic: fmt.Sprint(r), stack: string(buf[:n])}
			}
		}()
		err := vr.Serve(theirs)
		done <- bmpEnd{err: err}
	}()
}

// ended tells (without blocking) whether serve has returned.
func (s *bmpSession) ended() *bmpEnd {
	if s.end != nil {
		return s.end
	}
	select {
	case e := <-s.done:
		s.end = &e
	default:
	}
	return s.end
}

// waitEnd waits for serve to return.
func (s *bmpSession) waitEnd(d time.Duration) *bmpEnd {
	if s.end != nil {
		return s.end
	}
	select {
	case e := <-s.done:
		s.end = &e
	case <-time.After(d):
	}
	return s.end
}

// send writes bytes; net.Pipe is unbuffered, so a successful write means the router has taken
// the bytes off the connection. Errors: "timeout" (router neither reads nor ends), "closed".
func (s *bmpSession) send(b []byte) string {
	if len(b) == 0 {
		return ""
	}
	s.conn.SetWriteDeadline(time.Now().Add(bmpIOTimeout))
	n, err := s.conn.Write(b)
	s.sent += n
	if err == nil {
		return ""
	}
	if ne, ok := err.(net.Error); ok && ne.Timeout() {
		return "timeout"
	}
	return "closed"
}

// barrier returns once every message sent before has been processed: the router reads the next
// common header only after processMsg has returned. The barrier is an Initiation message without TLVs.
func (s *bmpSession) barrier() string {
	return s.send([]byte{3, 0, 0, 0, 6, bmppkt.InitiationMessageType})
}

func (s *bmpSession) closeOurs() {
	if s.conn != nil {
		s.conn.Close()
	}
}

// bmpPanicClass: innermost bio-rd frame of a panic stack (same rule as core's).
func bmpPanicClass(msg, stack string) string {
	for _, l := range strings.Split(stack, "\n") {
		l = strings.TrimSpace(l)
		if strings.HasPrefix(l, "github.com/bio-routing/bio-rd/") {
			fn := strings.TrimPrefix(l, "github.com/bio-routing/bio-rd/")
			if i := strings.LastIndex(fn, "("); i > 0 {
				fn = fn[:i]
			}
			if strings.Contains(fn, "VerifBMPRouter") {
				continue
			}
			return fn
		}
	}
	if len(msg) > 60 {
		msg = msg[:60]
	}
	return msg
}

// ---------------------------------------------------------------- message construction

type bmpPeer struct {
	VRF     string `json:"vrf"`
	Addr    uint32 `json:"addr"`
	AS      uint32 `json:"as"`
	AddPath bool   `json:"addpath"`
	V6      bool   `json:"v6"`
}

type bmpBundle struct {
	NH   uint32   `json:"nh"`
	ASP  []uint32 `json:"asp"`
	MED  uint32   `json:"med"`
	LP   uint32   `json:"lp"`
	Comm []uint32 `json:"comm"`
}

func bmpRD(vrf string) uint64 {
	if vrf == "v0" {
		return 0
	}
	return uint64(bmpLocalASN)<<32 | 1
}

func ip16(ip bnet.IP) [16]byte {
	var out [16]byte
	b := ip.Bytes()
	copy(out[16-len(b):], b)
	return out
}

func (p bmpPeer) ip() bnet.IP { return addr(p.V6, p.Addr) }

func (p bmpPeer) header(post bool) *bmppkt.PerPeerHeader {
	h := &bmppkt.PerPeerHeader{
		PeerDistinguisher: bmpRD(p.VRF),
		PeerAddress:       ip16(p.ip()),
		PeerAS:            p.AS,
		PeerBGPID:         0x0b000000 | p.Addr,
		Timestamp:         1700000000,
	}
	if h.PeerDistinguisher != 0 {
		h.PeerType = 1 // RD instance peer
	}
	if p.V6 {
		h.PeerFlags |= 0x80
	}
	if post {
		h.PeerFlags |= 0x40
	}
	return h
}

func bmpCaps(asn uint32, addPathMode uint8) []packet.OptParam {
	caps := packet.Capabilities{
		{Code: packet.MultiProtocolCapabilityCode, Value: packet.MultiProtocolCapability{AFI: packet.AFIIPv4, SAFI: packet.SAFIUnicast}},
		{Code: packet.MultiProtocolCapabilityCode, Value: packet.MultiProtocolCapability{AFI: packet.AFIIPv6, SAFI: packet.SAFIUnicast}},
		{Code: packet.ASN4CapabilityCode, Value: packet.ASN4Capability{ASN4: asn}},
	}
	if addPathMode != 0 {
		caps = append(caps, packet.Capability{Code: packet.AddPathCapabilityCode, Value: packet.AddPathCapability{
			{AFI: packet.AFIIPv4, SAFI: packet.SAFIUnicast, SendReceive: addPathMode},
			{AFI: packet.AFIIPv6, SAFI: packet.SAFIUnicast, SendReceive: addPathMode},
		}})
	}
	return []packet.OptParam{{Type: packet.CapabilitiesParamType, Value: caps}}
}

// bmpOpens: the OPEN the monitored router sent to the peer and the OPEN it received from it.
func (p bmpPeer) opens() (sent, recv []byte) {
	var rx, tx uint8
	if p.AddPath {
		// the monitored router receives several paths per prefix: it advertised receive (or both), its peer send (or both)
		rx, tx = packet.AddPathReceive, packet.AddPathSend
		if p.V6 {
			rx, tx = packet.AddPathSendReceive, packet.AddPathSendReceive
		}
	}
	sent = packet.SerializeOpenMsg(&packet.BGPOpen{Version: 4, ASN: uint16(bmpLocalASN), HoldTime: 90,
		BGPIdentifier: bmpRouterBID, OptParams: bmpCaps(bmpLocalASN, rx)})
	recv = packet.SerializeOpenMsg(&packet.BGPOpen{Version: 4, ASN: uint16(p.AS), HoldTime: 90,
		BGPIdentifier: 0x0b000000 | p.Addr, OptParams: bmpCaps(p.AS, tx)})
	return
}

func bmpInitiation(name string) []byte {
	m := &bmppkt.InitiationMessage{CommonHeader: &bmppkt.CommonHeader{Version: 3, MsgType: bmppkt.InitiationMessageType},
		TLVs: []*bmppkt.InformationTLV{
			{InformationType: 1, Information: []byte("verif monitored router")},
			{InformationType: 2, Information: []byte(name)},
		}}
	buf := bytes.NewBuffer(nil)
	m.Serialize(buf)
	return buf.Bytes()
}

func (p bmpPeer) peerUp() []byte {
	sent, recv := p.opens()
	m := &bmppkt.PeerUpNotification{
		CommonHeader:    &bmppkt.CommonHeader{Version: 3, MsgType: bmppkt.PeerUpNotificationType},
		PerPeerHeader:   p.header(false),
		LocalAddress:    ip16(addr(p.V6, 200+p.Addr)),
		LocalPort:       179,
		RemotePort:      40000 + uint16(p.Addr),
		SentOpenMsg:     sent,
		ReceivedOpenMsg: recv,
	}
	buf := bytes.NewBuffer(nil)
	m.Serialize(buf)
	return buf.Bytes()
}

func (p bmpPeer) peerDown(reason uint8) []byte {
	m := &bmppkt.PeerDownNotification{
		CommonHeader:  &bmppkt.CommonHeader{Version: 3, MsgType: bmppkt.PeerDownNotificationType},
		PerPeerHeader: p.header(false),
		Reason:        reason,
	}
	switch reason {
	case 1, 3: // local / remote system closed the session: the NOTIFICATION PDU follows
		m.Data = packet.SerializeNotificationMsg(&packet.BGPNotification{ErrorCode: packet.Cease, ErrorSubcode: packet.AdminShut})
	case 2: // local system closed without notification: FSM event code
		m.Data = []byte{0, 8}
	}
	buf := bytes.NewBuffer(nil)
	m.Serialize(buf)
	return buf.Bytes()
}

func (p bmpPeer) routeMon(post bool, bgpMsg []byte) []byte {
	m := &bmppkt.RouteMonitoringMsg{
		CommonHeader:  &bmppkt.CommonHeader{Version: 3, MsgType: bmppkt.RouteMonitoringType},
		PerPeerHeader: p.header(post),
		BGPUpdate:     bgpMsg,
	}
	buf := bytes.NewBuffer(nil)
	m.Serialize(buf)
	return buf.Bytes()
}

func bmpTLV(typ uint16, val []byte) []byte {
	out := make([]byte, 4, 4+len(val))
	binary.BigEndian.PutUint16(out[0:], typ)
	binary.BigEndian.PutUint16(out[2:], uint16(len(val)))
	return append(out, val...)
}

func bmpRaw(typ uint8, body []byte) []byte {
	out := make([]byte, 6, 6+len(body))
	out[0] = 3
	binary.BigEndian.PutUint32(out[1:], uint32(6+len(body)))
	out[5] = typ
	return append(out, body...)
}

// stats is a Statistics Report with two statistics (a 32-bit counter and a 64-bit gauge).
func (p bmpPeer) stats() []byte {
	body := p.routeMon(false, nil)[6:] // per-peer header only
	body = append(body, 0, 0, 0, 2)
	body = append(body, bmpTLV(0, []byte{0, 0, 0, 7})...)
	body = append(body, bmpTLV(7, []byte{0, 0, 0, 0, 0, 0, 1, 0})...)
	return bmpRaw(bmppkt.StatisticsReportType, body)
}

// mirror is a Route Mirroring message with one BGP message TLV.
func (p bmpPeer) mirror(pdu []byte) []byte {
	body := p.routeMon(false, nil)[6:]
	body = append(body, bmpTLV(0, pdu)...)
	return bmpRaw(bmppkt.RouteMirroringMessageType, body)
}

// endOfRIB is the End-of-RIB marker of the address family (RFC 4724).
func (p bmpPeer) endOfRIB(v6 bool) []byte {
	u := &packet.BGPUpdate{}
	if v6 {
		u.PathAttributes = &packet.PathAttribute{TypeCode: packet.MultiProtocolUnreachNLRIAttr,
			Value: packet.MultiProtocolUnreachNLRI{AFI: packet.AFIIPv6, SAFI: packet.SAFIUnicast}}
	}
	out, err := u.SerializeUpdate(&packet.EncodeOptions{Use32BitASN: true, UseAddPath: p.AddPath})
	if err != nil {
		panic("harness: SerializeUpdate: " + err.Error())
	}
	return out
}

func bmpTermination() []byte {
	body := append(bmpTLV(0, []byte("bye")), bmpTLV(1, []byte{0, 0})...)
	return bmpRaw(bmppkt.TerminationMessageType, body)
}

// bmpUpdate builds an UPDATE announcing (bundle != nil) or withdrawing one NLRI with the repository's serialiser.
func (p bmpPeer) update(pfx *bnet.Prefix, pid uint32, b *bmpBundle) []byte {
	return p.updateMulti([]*bnet.Prefix{pfx}, []uint32{pid}, b)
}

// updateMulti is update for several NLRI in one UPDATE (each with its own path identifier).
func (p bmpPeer) updateMulti(pfxs []*bnet.Prefix, pids []uint32, b *bmpBundle) []byte {
	v6 := !pfxs[0].Addr().IsIPv4()
	var nlri *packet.NLRI
	for i := len(pfxs) - 1; i >= 0; i-- {
		nlri = &packet.NLRI{Prefix: pfxs[i], PathIdentifier: pids[i], Next: nlri}
	}
	u := &packet.BGPUpdate{}
	if b == nil {
		if v6 {
			u.PathAttributes = &packet.PathAttribute{TypeCode: packet.MultiProtocolUnreachNLRIAttr,
				Value: packet.MultiProtocolUnreachNLRI{AFI: packet.AFIIPv6, SAFI: packet.SAFIUnicast, NLRI: nlri}}
		} else {
			u.WithdrawnRoutes = nlri
		}
	} else {
		attrs := []*packet.PathAttribute{
			{TypeCode: packet.OriginAttr, Value: uint8(packet.IGP)},
			{TypeCode: packet.ASPathAttr, Value: types.NewASPath(append([]uint32{}, b.ASP...))},
		}
		if v6 {
			attrs = append(attrs, &packet.PathAttribute{TypeCode: packet.MultiProtocolReachNLRIAttr,
				Value: packet.MultiProtocolReachNLRI{AFI: packet.AFIIPv6, SAFI: packet.SAFIUnicast, NextHop: addr(true, b.NH).Ptr(), NLRI: nlri}})
		} else {
			attrs = append(attrs, &packet.PathAttribute{TypeCode: packet.NextHopAttr, Value: addr(false, b.NH).Ptr()})
			u.NLRI = nlri
		}
		attrs = append(attrs, &packet.PathAttribute{TypeCode: packet.MEDAttr, Value: b.MED})
		if p.AS == bmpLocalASN {
			attrs = append(attrs, &packet.PathAttribute{TypeCode: packet.LocalPrefAttr, Value: b.LP})
		}
		if len(b.Comm) > 0 {
			c := types.Communities(append([]uint32{}, b.Comm...))
			attrs = append(attrs, &packet.PathAttribute{TypeCode: packet.CommunitiesAttr, Value: &c})
		}
		for i := 0; i+1 < len(attrs); i++ {
			attrs[i].Next = attrs[i+1]
		}
		u.PathAttributes = attrs[0]
	}
	out, err := u.SerializeUpdate(&packet.EncodeOptions{Use32BitASN: true, UseAddPath: p.AddPath})
	if err != nil {
		panic("harness: SerializeUpdate: " + err.Error())
	}
	return out
}

// ---------------------------------------------------------------- projection

// bmpKey identifies one (session, NLRI, path id) of a VRF table; bmpVal is one view's route for it.
type bmpKey struct {
	Peer string
	Pfx  string
	PID  uint32
}

func (k bmpKey) String() string { return fmt.Sprintf("%s /%s #%d", k.Peer, k.Pfx, k.PID) }

func bmpBundleKey(b bmpBundle, ibgp bool) string {
	if !ibgp {
		b.LP = 0 // LOCAL_PREF is not sent by an eBGP peer: whatever default the receiver stores is its own choice
	}
	if b.ASP == nil {
		b.ASP = []uint32{}
	}
	if b.Comm == nil {
		b.Comm = []uint32{}
	}
	j, _ := json.Marshal(b)
	return string(j)
}

func bmpVal(post bool, bundle string) string {
	if post {
		return "post " + bundle
	}
	return "pre " + bundle
}

type bmpWorld struct {
	emb   Embedding
	peers map[string]bmpPeer
	bd    map[string]bmpBundle
}

func (w *bmpWorld) vrfs() []string {
	m := map[string]bool{}
	for _, p := range w.peers {
		m[p.VRF] = true
	}
	return sortedStrings(m)
}

// peerOf maps the Source of a path in VRF vrf back to the abstract session.
func (w *bmpWorld) peerOf(vrf string, src *bnet.IP) string {
	if src == nil {
		return "?nil-source"
	}
	for n, p := range w.peers {
		ip := p.ip()
		if p.VRF == vrf && ip.Compare(src) == 0 {
			return n
		}
	}
	return "?" + src.String()
}

func (w *bmpWorld) project(vrf string, pfx *bnet.Prefix, p *route.Path) (bmpKey, string) {
	if p == nil || p.Type != route.BGPPathType || p.BGPPath == nil || p.BGPPath.BGPPathA == nil {
		return bmpKey{Peer: "?non-bgp", Pfx: w.emb.Bits(pfx)}, "?"
	}
	a := p.BGPPath.BGPPathA
	peer := w.peerOf(vrf, a.Source)
	b := bmpBundle{NH: nhNum(a.NextHop, w.emb.V6), MED: a.MED, LP: a.LocalPref, ASP: []uint32{}, Comm: []uint32{}}
	if p.BGPPath.ASPath != nil {
		for _, seg := range *p.BGPPath.ASPath {
			b.ASP = append(b.ASP, seg.ASNs...)
		}
	}
	if p.BGPPath.Communities != nil {
		b.Comm = append(b.Comm, (*p.BGPPath.Communities)...)
	}
	ibgp := false
	if pd, ok := w.peers[peer]; ok {
		ibgp = pd.AS == bmpLocalASN
	}
	return bmpKey{Peer: peer, Pfx: w.emb.Bits(pfx), PID: p.BGPPath.PathIdentifier}, bmpVal(p.BGPPath.BMPPostPolicy, bmpBundleKey(b, ibgp))
}

// bmpTable is a multiset: key -> view/route -> count.
type bmpTable map[bmpKey]map[string]int

func (t bmpTable) add(k bmpKey, v string) {
	if t[k] == nil {
		t[k] = map[string]int{}
	}
	t[k][v]++
}

func (t bmpTable) flat() []string {
	out := []string{}
	for k, m := range t {
		for v, n := range m {
			for i := 0; i < n; i++ {
				out = append(out, k.String()+" "+v)
			}
		}
	}
	sort.Strings(out)
	return out
}

func (w *bmpWorld) dump(vrf string, ribs ...*locRIB.LocRIB) bmpTable {
	t := bmpTable{}
	for _, rib := range ribs {
		if rib == nil {
			continue
		}
		for _, r := range rib.Dump() {
			for _, p := range r.Paths() {
				k, v := w.project(vrf, r.Prefix(), p)
				t.add(k, v)
			}
		}
	}
	return t
}

// bmpObserver is a table client as the RIS registers them (all paths), recording what it holds.
type bmpObserver struct {
	mu       sync.Mutex
	w        *bmpWorld
	vrf      string
	have     bmpTable
	unknown  int // withdrawals of something it was never given
	disposed int
}

func (o *bmpObserver) AddPath(pfx *bnet.Prefix, p *route.Path) error {
	o.mu.Lock()
	defer o.mu.Unlock()
	k, v := o.w.project(o.vrf, pfx, p)
	o.have.add(k, v)
	return nil
}
func (o *bmpObserver) AddPathInitialDump(pfx *bnet.Prefix, p *route.Path) error {
	return o.AddPath(pfx, p)
}
func (o *bmpObserver) EndOfRIB() {}
func (o *bmpObserver) RemovePath(pfx *bnet.Prefix, p *route.Path) bool {
	o.mu.Lock()
	defer o.mu.Unlock()
	k, v := o.w.project(o.vrf, pfx, p)
	if o.have[k][v] == 0 {
		o.unknown++
		return false
	}
	o.have[k][v]--
	if o.have[k][v] == 0 {
		delete(o.have[k], v)
	}
	if len(o.have[k]) == 0 {
		delete(o.have, k)
	}
	return true
}
func (o *bmpObserver) ReplacePath(pfx *bnet.Prefix, old, new *route.Path) {
	o.RemovePath(pfx, old)
	o.AddPath(pfx, new)
}
func (o *bmpObserver) RefreshRoute(*bnet.Prefix, []*route.Path) {}
func (o *bmpObserver) Dispose() {
	o.mu.Lock()
	o.disposed++
	o.mu.Unlock()
}
func (o *bmpObserver) snapshot() (held []string, unknown, disposed int) {
	o.mu.Lock()
	defer o.mu.Unlock()
	return o.have.flat(), o.unknown, o.disposed
}

var _ routingtable.RouteTableClient = (*bmpObserver)(nil)

// ---------------------------------------------------------------- the adapter

type bmpEntry struct {
	Peer string `json:"peer"`
	Post bool   `json:"post"`
	Pfx  []int  `json:"pfx"`
	PID  uint32 `json:"pid"`
	B    string `json:"b"`
}

type bmpState struct {
	Conn string                `json:"conn"`
	Up   []string              `json:"up"`
	Obs  map[string]string     `json:"obs"`
	Tbl  map[string][]bmpEntry `json:"tbl"`
	Held map[string][]bmpEntry `json:"held"`
}

func (w *bmpWorld) expected(es []bmpEntry) bmpTable {
	t := bmpTable{}
	for _, e := range es {
		pd, ok := w.peers[e.Peer]
		if !ok {
			panic("harness: entry of unknown peer " + e.Peer)
		}
		b, ok := w.bd[e.B]
		if !ok {
			panic("harness: unknown bundle " + e.B)
		}
		t.add(bmpKey{Peer: e.Peer, Pfx: bitsOf(e.Pfx), PID: e.PID}, bmpVal(e.Post, bmpBundleKey(b, pd.AS == bmpLocalASN)))
	}
	return t
}

// bmpCompare: per (session, NLRI, path id) the real table must hold a route iff some view of the spec holds one,
// and every route it holds must be one of the spec's views for that key. When both views hold the key the
// receiver may keep either or both (the statement does not say how the two views share a table).
func bmpCompare(want, got bmpTable) (kind string, key bmpKey, detail string) {
	keys := map[bmpKey]bool{}
	for k := range want {
		keys[k] = true
	}
	for k := range got {
		keys[k] = true
	}
	sorted := make([]bmpKey, 0, len(keys))
	for k := range keys {
		sorted = append(sorted, k)
	}
	sort.Slice(sorted, func(i, j int) bool { return sorted[i].String() < sorted[j].String() })
	for _, k := range sorted {
		s, t := want[k], got[k]
		if len(s) > 0 && len(t) == 0 {
			return "missing", k, "no route for " + k.String()
		}
		for v, n := range t {
			if s[v] == 0 {
				if len(s) == 0 {
					return "extra", k, "unexpected " + k.String() + " " + v
				}
				return "wrong", k, "route of " + k.String() + " is " + v + ", none of the announced views"
			}
			if n > 1 {
				return "duplicate", k, fmt.Sprintf("%d copies of %s %s", n, k.String(), v)
			}
		}
	}
	return "", bmpKey{}, ""
}

func init() {
	core.Register("bmp", func(b *core.Behaviour, p core.Params) *core.Divergence {
		w := &bmpWorld{emb: getEmbedding(p.Str("emb", "v4o8"))}
		var (
			s       *bmpSession
			obs     = map[string]*bmpObserver{}
			touched = map[bmpKey]map[string]bool{} // views in which a key has been announced / withdrawn so far
		)
		defer func() {
			if s != nil {
				s.closeOurs()
				s.waitEnd(bmpIOTimeout)
			}
		}()
		class := func(k bmpKey) string {
			c := "plain"
			if pd, ok := w.peers[k.Peer]; ok && pd.AddPath {
				c = "add-path"
			}
			if len(touched[k]) > 1 {
				c += ":key-in-both-policy-views"
			}
			return c
		}
		sessionProblem := func(i int, a, what string) *core.Divergence {
			if e := s.ended(); e != nil && e.panic != "" {
				return &core.Divergence{Step: i, Action: a, Field: "process", Kind: "panic", Class: bmpPanicClass(e.panic, e.stack),
					Detail: e.panic + "\n" + e.stack}
			}
			if what == "timeout" {
				return &core.Divergence{Step: i, Action: a, Field: "session", Kind: "hang", Class: "router-stopped-reading",
					Detail: "the router neither took the bytes off the connection nor ended the session within " + bmpIOTimeout.String()}
			}
			d := &core.Divergence{Step: i, Action: a, Field: "session", Kind: "closed", Class: "router-ended-session",
				Detail: "the router ended the session during a well-formed conversation"}
			if e := s.waitEnd(bmpIOTimeout); e != nil && e.err != nil {
				d.Detail += ": " + e.err.Error()
			}
			return d
		}
		for i, st := range b.Steps {
			a := st.Str("a")
			core.At(i, a)
			var exp bmpState
			st.Into("st", &exp)
			expectEnd := false
			switch a {
			case "Config":
				var cfg struct {
					IgnorePre  bool `json:"ignorePre"`
					IgnorePost bool `json:"ignorePost"`
				}
				st.Into("cfg", &cfg)
				st.Into("peers", &w.peers)
				st.Into("bd", &w.bd)
				s = newBMPSession(server.RouterConfig{Passive: true, IgnorePrePolicy: cfg.IgnorePre, IgnorePostPolicy: cfg.IgnorePost})
				s.connect()
			case "Initiation":
				if e := s.send(bmpInitiation("r1")); e != "" {
					return sessionProblem(i, a, e)
				}
			case "PeerUp":
				if e := s.send(w.peers[st.Str("p")].peerUp()); e != "" {
					return sessionProblem(i, a, e)
				}
			case "PeerDown":
				if e := s.send(w.peers[st.Str("p")].peerDown(uint8(1 + (i+b.ID)%4))); e != "" {
					return sessionProblem(i, a, e)
				}
			case "RouteMon":
				pd := w.peers[st.Str("p")]
				var pfx []int
				st.Into("pfx", &pfx)
				var br *bmpBundle
				if st.Str("b") != "none" {
					br = &bmpBundle{}
					st.Into("br", br)
				}
				post := st.Str("stage") == "post"
				k := bmpKey{Peer: st.Str("p"), Pfx: bitsOf(pfx), PID: uint32(st.Int("pid"))}
				if st.Bool("listened") {
					if touched[k] == nil {
						touched[k] = map[string]bool{}
					}
					touched[k][st.Str("stage")] = true
				}
				if e := s.send(pd.routeMon(post, pd.update(w.emb.Pfx(bitsOf(pfx)), uint32(st.Int("pid")), br))); e != "" {
					return sessionProblem(i, a, e)
				}
			case "RouteMonMulti":
				pd := w.peers[st.Str("p")]
				var keys []struct {
					Pfx []int `json:"pfx"`
					PID int   `json:"pid"`
				}
				st.Into("keys", &keys)
				sort.Slice(keys, func(x, y int) bool {
					if bitsOf(keys[x].Pfx) != bitsOf(keys[y].Pfx) {
						return bitsOf(keys[x].Pfx) < bitsOf(keys[y].Pfx)
					}
					return keys[x].PID < keys[y].PID
				})
				var br *bmpBundle
				if st.Str("b") != "none" {
					br = &bmpBundle{}
					st.Into("br", br)
				}
				pfxs, pids := []*bnet.Prefix{}, []uint32{}
				for _, kk := range keys {
					pfxs = append(pfxs, w.emb.Pfx(bitsOf(kk.Pfx)))
					pids = append(pids, uint32(kk.PID))
					k := bmpKey{Peer: st.Str("p"), Pfx: bitsOf(kk.Pfx), PID: uint32(kk.PID)}
					if st.Bool("listened") {
						if touched[k] == nil {
							touched[k] = map[string]bool{}
						}
						touched[k][st.Str("stage")] = true
					}
				}
				if e := s.send(pd.routeMon(st.Str("stage") == "post", pd.updateMulti(pfxs, pids, br))); e != "" {
					return sessionProblem(i, a, e)
				}
			case "Other":
				pd := w.peers[st.Str("p")]
				var m []byte
				switch st.Str("kind") {
				case "eor":
					m = pd.routeMon(st.Str("stage") == "post", pd.endOfRIB(w.emb.V6))
				case "stats":
					m = pd.stats()
				case "mirror":
					m = pd.mirror(pd.update(w.emb.Pfx("1"), uint32(len(b.Steps)%3), &bmpBundle{NH: 9, ASP: []uint32{65099}}))
				default:
					panic("harness: unknown message kind " + st.Str("kind"))
				}
				if e := s.send(m); e != "" {
					return sessionProblem(i, a, e)
				}
			case "Termination":
				if e := s.send(bmpTermination()); e != "" {
					return sessionProblem(i, a, e)
				}
				expectEnd = true
			case "ConnLoss":
				s.closeOurs()
				expectEnd = true
			case "Reconnect":
				s.connect()
			case "Observe":
				v := st.Str("vrf")
				vrf := s.vr.Router().GetVRF(bmpRD(v))
				if vrf == nil {
					return &core.Divergence{Step: i, Action: a, Field: "vrf", Kind: "missing", Class: "after-peer-up",
						Detail: "Router.GetVRF returns nil for the VRF of a session that has come up on this connection"}
				}
				o := &bmpObserver{w: w, vrf: v, have: bmpTable{}}
				obs[v] = o
				// the router goroutine is idle (blocked in the read of the next header) while we register
				vrf.IPv4UnicastRIB().RegisterWithOptions(o, routingtable.ClientOptions{MaxPaths: 64})
				vrf.IPv6UnicastRIB().RegisterWithOptions(o, routingtable.ClientOptions{MaxPaths: 64})
			default:
				panic("harness: unknown action " + a)
			}
			// quiescence
			if expectEnd {
				e := s.waitEnd(bmpIOTimeout)
				if e == nil {
					return &core.Divergence{Step: i, Action: a, Field: "session", Kind: "hang", Class: "serve-does-not-return",
						Detail: "Router.serve did not return within " + bmpIOTimeout.String() + " after the session ended"}
				}
				if e.panic != "" {
					return sessionProblem(i, a, "closed")
				}
				s.closeOurs()
			} else if exp.Conn == "up" {
				if e := s.barrier(); e != "" {
					return sessionProblem(i, a, e)
				}
			}
			// tables
			for _, v := range w.vrfs() {
				var got bmpTable
				if vrf := s.vr.Router().GetVRF(bmpRD(v)); vrf != nil {
					got = w.dump(v, vrf.IPv4UnicastRIB(), vrf.IPv6UnicastRIB())
				} else {
					got = bmpTable{}
				}
				want := w.expected(exp.Tbl[v])
				if kind, k, detail := bmpCompare(want, got); kind != "" {
					c := class(k)
					if exp.Conn == "down" {
						c = "after-session-end"
					}
					return &core.Divergence{Step: i, Action: a, Field: "table", Kind: kind, Class: c,
						Want: want.flat(), Got: got.flat(), Detail: "vrf " + v + ": " + detail}
				}
				// observers
				o := obs[v]
				switch exp.Obs[v] {
				case "live":
					held, unknown, disposed := o.snapshot()
					if disposed > 0 {
						return &core.Divergence{Step: i, Action: a, Field: "observer", Kind: "disposed", Class: "session-up",
							Detail: "vrf " + v + ": the observer of a live table was told Dispose()"}
					}
					if kind, missing, extra := core.SetDiff(got.flat(), held); kind != "" {
						return &core.Divergence{Step: i, Action: a, Field: "observer", Kind: kind, Class: "differs-from-table",
							Want: got.flat(), Got: held, Detail: fmt.Sprintf("vrf %s: missing=%v extra=%v", v, missing, extra)}
					}
					if unknown > 0 {
						return &core.Divergence{Step: i, Action: a, Field: "observer", Kind: "wrong", Class: "withdrawn-unknown",
							Detail: fmt.Sprintf("vrf %s: %d withdrawals of paths the observer was never given", v, unknown)}
					}
				case "ended":
					held, _, disposed := o.snapshot()
					if disposed == 0 && len(held) > 0 {
						return &core.Divergence{Step: i, Action: a, Field: "observer", Kind: "not-informed", Class: "after-session-end",
							Got: held, Detail: "vrf " + v + ": the session ended, the observer still holds routes and was not told Dispose()"}
					}
				}
			}
			// the monitored sessions the router knows are exactly those that are up (nothing of an ended session remains)
			{
				want, got := []string{}, []string{}
				for _, pn := range exp.Up {
					want = append(want, fmt.Sprintf("AS%d", w.peers[pn].AS))
				}
				for _, n := range s.vr.Neighbors() {
					got = append(got, fmt.Sprintf("AS%d", n.PeerAS))
				}
				sort.Strings(want)
				sort.Strings(got)
				if kind, missing, extra := core.SetDiff(want, got); kind != "" || len(want) != len(got) {
					c := "session-up"
					if exp.Conn == "down" {
						c = "after-session-end"
					}
					return &core.Divergence{Step: i, Action: a, Field: "sessions", Kind: "wrong", Class: c, Want: want, Got: got,
						Detail: fmt.Sprintf("monitored sessions known to the router: missing=%v extra=%v", missing, extra)}
				}
			}
			// every VRF the router lists is one of ours (nothing else may appear)
			if exp.Conn == "down" {
				for _, vrf := range s.vr.Router().GetVRFs() {
					if n := vrf.IPv4UnicastRIB().Count() + vrf.IPv6UnicastRIB().Count(); n > 0 {
						return &core.Divergence{Step: i, Action: a, Field: "table", Kind: "extra", Class: "after-session-end",
							Detail: fmt.Sprintf("VRF %s still holds %d routes after the session ended", vrf.Name(), n)}
					}
				}
			}
		}
		return nil
	})
}
