package adapters

import (
	"bytes"
	"encoding/json"
	"fmt"
	"os"
	"os/exec"
	"path/filepath"
	"sort"
	"strings"

	"verifharness/core"
)

// Spec Reload (C36). The real reload path lives in package main of cmd/bio-rd; it is driven through the
// verif-tagged entry point (VERIF_RELOAD_SCRIPT) of a bio-rd binary built from /repo's working tree.

type rlFam struct {
	On        bool `json:"on"`
	APRecv    bool `json:"apRecv"`
	SendMulti bool `json:"sendMulti"`
	SendCount int  `json:"sendCount"`
}
type rlGroup struct {
	PeerAS  uint32   `json:"peerAS"`
	Local   string   `json:"local"`
	TTL     int      `json:"ttl"`
	Hold    int      `json:"hold"`
	Passive bool     `json:"passive"`
	RRC     bool     `json:"rrc"`
	RSC     bool     `json:"rsc"`
	Cluster string   `json:"cluster"`
	IPv4    rlFam    `json:"ipv4"`
	IPv6    rlFam    `json:"ipv6"`
	Import  []string `json:"import"`
	Export  []string `json:"export"`
}
type rlNbr struct {
	Addr     string   `json:"addr"`
	On       bool     `json:"on"`
	PeerAS   uint32   `json:"peerAS"`
	TTL      int      `json:"ttl"`
	Hold     int      `json:"hold"`
	Disabled bool     `json:"disabled"`
	IPv4     rlFam    `json:"ipv4"`
	Import   []string `json:"import"`
	Export   []string `json:"export"`
	MP       bool     `json:"mp"`
	Passive  string   `json:"passive"`
}
type rlCfg struct {
	GA rlGroup `json:"gA"`
	GB rlGroup `json:"gB"`
	N1 rlNbr   `json:"n1"`
	N2 rlNbr   `json:"n2"`
	N3 rlNbr   `json:"n3"`
}

func yamlFam(ind, name string, f rlFam) string {
	if !f.On {
		return ""
	}
	s := ind + name + ":\n"
	if f.APRecv || f.SendMulti {
		s += ind + "  add_path:\n"
		s += fmt.Sprintf("%s    receive: %v\n", ind, f.APRecv)
		if f.SendMulti {
			s += fmt.Sprintf("%s    send:\n%s      multipath: true\n%s      path_count: %d\n", ind, ind, ind, f.SendCount)
		}
	} else {
		s += ind + "  next_hop_extended: false\n"
	}
	return s
}

func yamlList(l []string) string {
	q := []string{}
	for _, x := range l {
		q = append(q, fmt.Sprintf("%q", x))
	}
	return "[" + strings.Join(q, ", ") + "]"
}

func (c rlCfg) yaml() string {
	var b strings.Builder
	b.WriteString("routing_options:\n  autonomous_system: 65000\n  router_id: 10.255.0.1\n")
	b.WriteString("policy_options:\n  policy_statements:\n")
	b.WriteString("    - name: \"POL_A\"\n      terms:\n        - name: \"a\"\n          then:\n            local_pref: 200\n            accept: true\n")
	b.WriteString("    - name: \"POL_B\"\n      terms:\n        - name: \"b\"\n          then:\n            med: 7\n            accept: true\n")
	b.WriteString("protocols:\n  bgp:\n    groups:\n")
	group := func(name string, g rlGroup, nbrs []rlNbr) {
		any := false
		for _, n := range nbrs {
			if n.On {
				any = true
			}
		}
		if !any {
			return
		}
		fmt.Fprintf(&b, "      - name: %q\n        local_address: %s\n        peer_as: %d\n        passive: %v\n", name, g.Local, g.PeerAS, g.Passive)
		if g.TTL != 0 {
			fmt.Fprintf(&b, "        ttl: %d\n", g.TTL)
		}
		if g.Hold != 0 {
			fmt.Fprintf(&b, "        hold_time: %d\n", g.Hold)
		}
		if g.RRC {
			b.WriteString("        route_reflector_client: true\n")
		}
		if g.RSC {
			b.WriteString("        route_server_client: true\n")
		}
		if g.Cluster != "" {
			fmt.Fprintf(&b, "        cluster_id: %s\n", g.Cluster)
		}
		if len(g.Import) > 0 {
			fmt.Fprintf(&b, "        import: %s\n", yamlList(g.Import))
		}
		if len(g.Export) > 0 {
			fmt.Fprintf(&b, "        export: %s\n", yamlList(g.Export))
		}
		b.WriteString(yamlFam("        ", "ipv4", g.IPv4))
		b.WriteString(yamlFam("        ", "ipv6", g.IPv6))
		b.WriteString("        neighbors:\n")
		for _, n := range nbrs {
			if !n.On {
				continue
			}
			fmt.Fprintf(&b, "          - peer_address: %s\n", n.Addr)
			if n.PeerAS != 0 {
				fmt.Fprintf(&b, "            peer_as: %d\n", n.PeerAS)
			}
			if n.TTL != 0 {
				fmt.Fprintf(&b, "            ttl: %d\n", n.TTL)
			}
			if n.Hold != 0 {
				fmt.Fprintf(&b, "            hold_time: %d\n", n.Hold)
			}
			if n.Disabled {
				b.WriteString("            disabled: true\n")
			}
			if n.MP {
				b.WriteString("            advertise_ipv4_multiprotocol: true\n")
			}
			if n.Passive == "no" {
				b.WriteString("            passive: false\n")
			}
			if n.Passive == "yes" {
				b.WriteString("            passive: true\n")
			}
			if len(n.Import) > 0 {
				fmt.Fprintf(&b, "            import: %s\n", yamlList(n.Import))
			}
			if len(n.Export) > 0 {
				fmt.Fprintf(&b, "            export: %s\n", yamlList(n.Export))
			}
			b.WriteString(yamlFam("            ", "ipv4", n.IPv4))
		}
	}
	group("A", c.GA, []rlNbr{c.N1, c.N2})
	group("B", c.GB, []rlNbr{c.N3})
	return b.String()
}

type rlSessFam struct {
	On       bool     `json:"on"`
	APRecv   bool     `json:"apRecv"`
	SendBest bool     `json:"sendBest"`
	SendMax  int      `json:"sendMax"`
	Import   []string `json:"import"`
	Export   []string `json:"export"`
}

// normalise one session (expected from the spec, or observed from the binary) to "key=value" lines
func rlExpected(s map[string]interface{}) []string {
	out := []string{}
	fam := func(name string, v interface{}) {
		j, _ := json.Marshal(v)
		var f rlSessFam
		json.Unmarshal(j, &f)
		if !f.On {
			out = append(out, name+"=absent")
			return
		}
		imp, exp := f.Import, f.Export
		out = append(out, fmt.Sprintf("%s.apRecv=%v", name, f.APRecv), fmt.Sprintf("%s.sendBest=%v", name, f.SendBest))
		if !f.SendBest {
			out = append(out, fmt.Sprintf("%s.sendMax=%d", name, f.SendMax))
		}
		out = append(out, fmt.Sprintf("%s.import=%v", name, chainOrDefault(imp)), fmt.Sprintf("%s.export=%v", name, chainOrDefault(exp)))
	}
	for _, k := range []string{"peerAS", "localAddr", "ttl", "holdTime", "keepAlive", "passive", "rsClient", "rrClient"} {
		out = append(out, fmt.Sprintf("%s=%v", k, s[k]))
	}
	cl := fmt.Sprint(s["cluster"])
	switch cl {
	case "":
		cl = "0"
	case "router-id":
		cl = "184483841"
	default:
		var a, b, c, d uint32
		fmt.Sscanf(cl, "%d.%d.%d.%d", &a, &b, &c, &d)
		cl = fmt.Sprint(a<<24 | b<<16 | c<<8 | d)
	}
	out = append(out, "clusterID="+cl, fmt.Sprintf("adminEnabled=%v", !(s["disabled"] == true)), fmt.Sprintf("ipv4mp=%v", s["mp"]))
	fam("ipv4", s["ipv4"])
	fam("ipv6", s["ipv6"])
	return out
}

func chainOrDefault(c []string) []string {
	if len(c) == 0 {
		return []string{"<default>"}
	}
	return c
}

func rlObserved(s map[string]interface{}) []string {
	out := []string{}
	num := func(v interface{}) string { return fmt.Sprint(v) }
	for _, k := range []string{"peerAS", "localAddr", "ttl", "holdTime", "keepAlive", "passive", "rsClient", "rrClient", "clusterID"} {
		k2 := k
		out = append(out, fmt.Sprintf("%s=%v", k2, num(s[k])))
	}
	out = append(out, fmt.Sprintf("adminEnabled=%v", s["cfgAdminEnabled"]), fmt.Sprintf("ipv4mp=%v", s["cfgIPv4MP"]))
	// the stored PeerConfig must agree with the effective settings where both exist
	if fmt.Sprint(s["cfgTTL"]) != fmt.Sprint(s["ttl"]) {
		out = append(out, fmt.Sprintf("storedConfig.ttl=%v", s["cfgTTL"]))
	}
	if fmt.Sprint(s["cfgHoldTime"]) != fmt.Sprint(s["holdTime"]) {
		out = append(out, fmt.Sprintf("storedConfig.holdTime=%v", s["cfgHoldTime"]))
	}
	fam := func(name string, v interface{}) {
		m, ok := v.(map[string]interface{})
		if !ok || m == nil {
			out = append(out, name+"=absent")
			return
		}
		out = append(out, fmt.Sprintf("%s.apRecv=%v", name, m["addPathRecv"]), fmt.Sprintf("%s.sendBest=%v", name, m["addPathSendBest"]))
		if m["addPathSendBest"] != true {
			out = append(out, fmt.Sprintf("%s.sendMax=%v", name, m["addPathSendMax"]))
		}
		names := func(x interface{}) []string {
			l := []string{}
			if arr, ok := x.([]interface{}); ok {
				for _, e := range arr {
					l = append(l, fmt.Sprint(e))
				}
			}
			return l
		}
		imp, exp := names(m["import"]), names(m["export"])
		if len(imp) == 1 && (imp[0] == "ACCEPT_ALL" || imp[0] == "REJECT_ALL") {
			imp = []string{"<default>"}
		}
		if len(exp) == 1 && (exp[0] == "ACCEPT_ALL" || exp[0] == "REJECT_ALL") {
			exp = []string{"<default>"}
		}
		out = append(out, fmt.Sprintf("%s.import=%v", name, chainOrDefault(imp)), fmt.Sprintf("%s.export=%v", name, chainOrDefault(exp)))
	}
	fam("ipv4", s["ipv4"])
	fam("ipv6", s["ipv6"])
	return out
}

type rlStep struct {
	Config   string                   `json:"config"`
	Error    string                   `json:"error"`
	Sessions []map[string]interface{} `json:"sessions"`
}

func runReload(bin, dir string, cfgs []rlCfg) ([]rlStep, string) {
	paths := []string{}
	for i, c := range cfgs {
		p := filepath.Join(dir, fmt.Sprintf("c%d.yml", i))
		if err := os.WriteFile(p, []byte(c.yaml()), 0o644); err != nil {
			panic("harness: " + err.Error())
		}
		paths = append(paths, p)
	}
	sc, _ := json.Marshal(map[string]interface{}{"configs": paths})
	sp := filepath.Join(dir, "script.json")
	os.WriteFile(sp, sc, 0o644)
	cmd := exec.Command(bin)
	cmd.Env = append(os.Environ(), "VERIF_RELOAD_SCRIPT="+sp)
	var stdout, stderr bytes.Buffer
	cmd.Stdout, cmd.Stderr = &stdout, &stderr
	err := cmd.Run()
	var steps []rlStep
	for _, line := range strings.Split(stdout.String(), "\n") {
		if strings.HasPrefix(line, "[{") {
			d := json.NewDecoder(strings.NewReader(line))
			d.UseNumber()
			d.Decode(&steps)
		}
	}
	if steps == nil {
		tail := stderr.String()
		if len(tail) > 3000 {
			tail = tail[len(tail)-3000:]
		}
		return nil, fmt.Sprintf("exit=%v\n%s", err, tail)
	}
	return steps, ""
}

func sessionsToLines(obs []map[string]interface{}, f func(map[string]interface{}) []string) map[string][]string {
	out := map[string][]string{}
	for _, s := range obs {
		out[fmt.Sprint(s["peer"])] = f(s)
	}
	return out
}

var freshChecked = map[string]bool{}

func init() {
	core.Register("reload", func(b *core.Behaviour, p core.Params) *core.Divergence {
		bin := p.Str("bin", "")
		if bin == "" {
			panic("harness: reload adapter needs the path of the hooked bio-rd binary")
		}
		dir, err := os.MkdirTemp("", "vf-reload-")
		if err != nil {
			panic("harness: " + err.Error())
		}
		defer os.RemoveAll(dir)
		cfgs := []rlCfg{}
		exps := []map[string][]string{}
		names := []string{}
		for _, st := range b.Steps {
			var c rlCfg
			st.Into("cfg", &c)
			cfgs = append(cfgs, c)
			var ss []map[string]interface{}
			st.Into("sessions", &ss)
			exps = append(exps, sessionsToLines(ss, rlExpected))
			names = append(names, st.Str("v"))
		}
		// the spec's Effective() must describe a fresh start of the real daemon: otherwise the model is wrong, not the code
		last := len(cfgs) - 1
		if !freshChecked[names[last]] {
			fresh, ferr := runReload(bin, dir, []rlCfg{cfgs[last]})
			if fresh == nil {
				return &core.Divergence{Step: last, Action: "Reload", Field: "process", Kind: "crash", Class: "fresh-start:" + names[last], Detail: ferr}
			}
			freshLines := sessionsToLines(fresh[0].Sessions, rlObserved)
			if d := rlDiff(exps[last], freshLines); d != "" {
				panic("harness: the spec's Effective(" + names[last] + ") disagrees with a fresh start of the daemon: " + d)
			}
			freshChecked[names[last]] = true
		}
		core.At(last, "Reload")
		steps, rerr := runReload(bin, dir, cfgs)
		class := strings.Join(names, ">")
		if len(names) >= 2 {
			class = names[len(names)-2] + ">" + names[last]
		}
		if steps == nil {
			return &core.Divergence{Step: last, Action: "Reload", Field: "process", Kind: "crash", Class: crashClass(rerr), Detail: rerr}
		}
		for i := range steps {
			if steps[i].Error != "" {
				return &core.Divergence{Step: i, Action: "Reload", Field: "error", Kind: "wrong", Got: steps[i].Error, Detail: class}
			}
			got := sessionsToLines(steps[i].Sessions, rlObserved)
			if d := rlDiff(exps[i], got); d != "" {
				tr := names[i]
				if i > 0 {
					tr = names[i-1] + " > " + names[i]
				}
				return &core.Divergence{Step: i, Action: "Reload", Field: rlField(d), Kind: "wrong", Want: exps[i], Got: got,
					Detail: "reload " + tr + ": " + d}
			}
		}
		return nil
	})
}

func crashClass(s string) string {
	for _, l := range strings.Split(s, "\n") {
		l = strings.TrimSpace(l)
		if strings.HasPrefix(l, "github.com/bio-routing/bio-rd/") {
			fn := strings.TrimPrefix(l, "github.com/bio-routing/bio-rd/")
			if i := strings.LastIndex(fn, "("); i > 0 {
				fn = fn[:i]
			}
			return fn
		}
	}
	return "?"
}

// rlDiff returns "" if equal, else "peer: first differing line"
func rlDiff(want, got map[string][]string) string {
	keys := map[string]bool{}
	for k := range want {
		keys[k] = true
	}
	for k := range got {
		keys[k] = true
	}
	for _, k := range sortedStrings(keys) {
		w, okw := want[k]
		g, okg := got[k]
		if !okw {
			return "session-set: unexpected session " + k
		}
		if !okg {
			return "session-set: missing session " + k
		}
		sort.Strings(w)
		sort.Strings(g)
		for i := range w {
			if i >= len(g) || w[i] != g[i] {
				gl := "<none>"
				if i < len(g) {
					gl = g[i]
				}
				return fmt.Sprintf("%s: want %s got %s", k, w[i], gl)
			}
		}
		if len(g) > len(w) {
			return fmt.Sprintf("%s: extra %s", k, g[len(w)])
		}
	}
	return ""
}

func rlField(d string) string {
	if strings.HasPrefix(d, "session-set") {
		return "session-set"
	}
	if i := strings.Index(d, "want "); i >= 0 {
		rest := d[i+5:]
		if j := strings.IndexAny(rest, "= "); j > 0 {
			return "setting:" + rest[:j]
		}
	}
	if i := strings.Index(d, "extra "); i >= 0 {
		rest := d[i+6:]
		if j := strings.IndexAny(rest, "= "); j > 0 {
			return "setting:" + rest[:j]
		}
	}
	return "setting"
}
