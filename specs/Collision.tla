------------------------------ MODULE Collision ------------------------------
(* Several simultaneous connections of one configured peer (RFC 4271 6.8,      *)
(* RFC 6286; protocols/bgp/server peer.collisionHandling, shouldCeaseOnCollision, *)
(* server.incomingConnectionWorker, fsm_open_sent.openMsgReceived), property C24. *)
(* Every connection has its own FSM (the peer's own one for the connection it  *)
(* dialled, a new one per accepted connection); the code does not distinguish  *)
(* them afterwards.  The collision is detected when an OPEN                    *)
(* arrives on a connection in OpenSent: a sibling in Established always wins;  *)
(* against a sibling in OpenConfirm the BGP identifiers decide (the AS numbers *)
(* when the identifiers are equal): the connection the OPEN just arrived on    *)
(* survives iff the local identifier is the lower one.  The loser is closed    *)
(* with a Cease NOTIFICATION.                                                  *)
EXTENDS Naturals, Sequences, FiniteSets, TLC, Json

CONSTANTS MaxConns,   \* connections the peer opens during a behaviour (numbered in the order they are opened)
          MaxOpen,    \* how many of them may be open at the same time
          Order,      \* "localLower" | "localHigher" | "sameIdLocalASLower" | "sameIdLocalASHigher"
          Outgoing,   \* BOOLEAN: connection 1 is the one this speaker dialled (its own FSM); all others are accepted ones
          MaxDepth

VARIABLES cs,         \* [Conns -> "none" | "OpenSent" | "OpenConfirm" | "Established" | "Closed"]
          out,        \* [Conns -> sequence of messages the speaker wrote on that connection]
          learned,    \* [Conns -> BOOLEAN]: the peer announced this connection's own prefix over it (and the session still holds it)
          hist
vars == <<cs, out, learned, hist>>

Conns == 1..MaxConns
Open(c) == cs[c] \in {"OpenSent", "OpenConfirm", "Established"}
Msg(k, code) == [kind |-> k, code |-> code]

(* shouldCeaseOnCollision: the sibling in OpenConfirm is closed and the connection of the arriving OPEN kept *)
ArrivingWins == Order \in {"localLower", "sameIdLocalASLower"}

St == [cs |-> {[c |-> c, st |-> cs'[c], out |-> out'[c]] : c \in Conns},
       loc |-> {c \in Conns : cs'[c] = "Established" /\ learned'[c]}]     \* the Loc-RIB holds the prefixes of the established session
Log(r) == hist' = Append(hist, r @@ [s |-> St])

Init == /\ cs = [c \in Conns |-> "none"] /\ out = [c \in Conns |-> <<>>] /\ learned = [c \in Conns |-> FALSE]
        /\ hist = << [a |-> "Config", order |-> Order, outgoing |-> Outgoing, s |-> [cs |-> {[c |-> c, st |-> "none", out |-> <<>>] : c \in Conns}, loc |-> {}]] >>

(* the peer opens its next connection: the speaker accepts it and sends its OPEN *)
Connect(c) ==
    /\ cs[c] = "none" /\ \A d \in Conns : d < c => cs[d] # "none"
    /\ Cardinality({d \in Conns : Open(d)}) < MaxOpen
    /\ cs' = [cs EXCEPT ![c] = "OpenSent"] /\ out' = [out EXCEPT ![c] = <<Msg("OPEN", 0)>>]
    /\ UNCHANGED learned
    /\ Log([a |-> "Connect", c |-> c])

Lose(c, csx, outx) == <<[csx EXCEPT ![c] = "Closed"], [outx EXCEPT ![c] = Append(@, Msg("NOTIFICATION", 6))]>>

(* the peer's (valid) OPEN arrives on connection c: the resulting <<cs, out>> *)
OpenArrives(c, csx, outx) ==
    LET est == {d \in Conns \ {c} : csx[d] = "Established"}
        oc == {d \in Conns \ {c} : csx[d] = "OpenConfirm"}
        accept == <<[csx EXCEPT ![c] = "OpenConfirm"], [outx EXCEPT ![c] = Append(@, Msg("KEEPALIVE", 0))]>>
    IN IF est # {} THEN Lose(c, csx, outx)
       ELSE IF oc # {} THEN (IF ArrivingWins
                             THEN LET d == CHOOSE d \in oc : TRUE IN Lose(d, accept[1], accept[2])
                             ELSE Lose(c, csx, outx))
       ELSE accept

RecvOpen(c) ==
    /\ cs[c] = "OpenSent"
    /\ LET r == OpenArrives(c, cs, out) IN cs' = r[1] /\ out' = r[2]
    /\ learned' = [d \in Conns |-> learned[d] /\ cs'[d] = "Established"]
    /\ Log([a |-> "RecvOpen", c |-> c])

(* the OPENs of two connections in OpenSent arrive at the same time (the classical collision: both sides connected      *)
(* simultaneously): both are being handled before either connection has changed its state; the collision check of      *)
(* `first` runs first.  The outcome is that of handling them one after the other in that order.                        *)
RecvOpenBoth(c, d, first) ==
    /\ c < d /\ cs[c] = "OpenSent" /\ cs[d] = "OpenSent" /\ first \in {c, d}
    /\ LET second == IF first = c THEN d ELSE c
           r1 == OpenArrives(first, cs, out)
           r == OpenArrives(second, r1[1], r1[2])
       IN cs' = r[1] /\ out' = r[2]
    /\ learned' = [e \in Conns |-> learned[e] /\ cs'[e] = "Established"]
    /\ Log([a |-> "RecvOpenBoth", c |-> c, d |-> d, first |-> first])

RecvKeepalive(c) ==
    /\ cs[c] = "OpenConfirm"
    /\ cs' = [cs EXCEPT ![c] = "Established"]
    /\ UNCHANGED <<out, learned>>
    /\ Log([a |-> "RecvKeepalive", c |-> c])

(* the peer announces the connection's own prefix *)
RecvUpdate(c) ==
    /\ cs[c] = "Established" /\ ~learned[c]
    /\ learned' = [learned EXCEPT ![c] = TRUE]
    /\ UNCHANGED <<cs, out>>
    /\ Log([a |-> "RecvUpdate", c |-> c])

(* the peer ends a connection with a NOTIFICATION *)
PeerCloses(c) ==
    /\ Open(c)
    /\ cs' = [cs EXCEPT ![c] = "Closed"] /\ learned' = [learned EXCEPT ![c] = FALSE]
    /\ UNCHANGED out
    /\ Log([a |-> "PeerCloses", c |-> c])

Step == \/ \E c \in Conns : Connect(c) \/ RecvOpen(c) \/ RecvKeepalive(c) \/ RecvUpdate(c) \/ PeerCloses(c)
        \/ \E c, d, f \in Conns : RecvOpenBoth(c, d, f)
Next == Len(hist) < MaxDepth /\ Step
Finished == Len(hist) >= MaxDepth \/ ~ENABLED Step
NextSim == IF ~Finished THEN Step ELSE PrintT("BEH " \o ToJson(hist)) /\ UNCHANGED vars
Spec == Init /\ [][Next]_vars

-----------------------------------------------------------------------------
(* C24 *)
AtMostOneEstablished == Cardinality({c \in Conns : cs[c] = "Established"}) <= 1
AtMostOneBeyondOpenSent == Cardinality({c \in Conns : cs[c] \in {"OpenConfirm", "Established"}}) <= 1
RoutesOnlyFromEstablished == \A c \in Conns : learned[c] => cs[c] = "Established"
(* a connection the speaker closes because of a collision gets a Cease NOTIFICATION as its last message *)
LoserIsTold == [][\A c \in Conns : (Open(c) /\ cs'[c] = "Closed" /\ Len(out'[c]) > Len(out[c]))
                      => out'[c][Len(out'[c])] = Msg("NOTIFICATION", 6)]_vars
(* an established session is never the loser *)
EstablishedSurvives == [][\A c \in Conns : (cs[c] = "Established" /\ cs'[c] = "Closed") => out'[c] = out[c]]_vars

View == <<cs, out, learned>>
Emit == PrintT("BEH " \o ToJson(hist'))
=============================================================================
