-------------------------------- MODULE BMPWire --------------------------------
(* What a BMP-monitored router can put on the wire towards the receiver         *)
(* (RFC 7854 message grammar as bio-rd's protocols/bmp/packet and               *)
(* protocols/bgp/server/bmp_receiver.go:recvBMPMsg / bmp_router.go consume it)  *)
(* and the structured ways of getting it wrong.  Property C27: no byte stream   *)
(* crashes the receiver, makes it allocate out of proportion to the bytes       *)
(* received, or wedges it.                                                      *)
(* Pure-function convention: Init enumerates the cases; a case is a valid       *)
(* conversation prefix (ctx), one message of a kind, and one mutation of it.    *)
(* The adapter concretises a case into bytes (valid parts with the repository's *)
(* own serialisers), checks that its encoding has exactly the abstract layout   *)
(* given here (sizes), and serves the stream to a real Router.                  *)
EXTENDS Integers, Sequences, FiniteSets, TLC, Json

CONSTANTS Ctxs,        \* subset of {"fresh", "inited", "peer", "ipeer"}: nothing / Initiation / + peer-up of an eBGP (iBGP) session and a route
          Kinds,       \* subset of AllKinds
          Muts,        \* mutation families to enumerate (subset of AllMuts)
          Rand         \* number of seeded random fills per (ctx, kind)

VARIABLE c
vars == <<c>>

AllKinds == {"init", "term", "peerup", "peerdown", "routemon", "stats", "mirror"}
AllMuts == {"none", "len", "version", "type", "cut", "swap", "tlvlen", "tlvempty", "tlvcut", "tlvtype", "tlvmany", "reason",
            "count", "open", "peerhdr", "unknownpeer", "duplicate", "down", "pdu", "flags", "rand", "randhdr", "noise"}

(* ------------------------------------------------------------------ grammar *)
TypeCode == [routemon |-> 0, stats |-> 1, peerdown |-> 2, peerup |-> 3, init |-> 4, term |-> 5, mirror |-> 6]
HdrLen == 6                \* version(1) length(4) type(1)
PPHLen == 42               \* per-peer header
HasPPH(k) == k \in {"routemon", "stats", "peerdown", "peerup", "mirror"}

(* sizes of the embedded BGP PDUs the adapter builds (checked by the adapter against its encoding) *)
PduLen == [update |-> 53, open |-> 49, notification |-> 21, keepalive |-> 19]
(* the UPDATE of an iBGP session also carries LOCAL_PREF (7 bytes) *)
UpdLen(x) == IF x = "ipeer" THEN PduLen.update + 7 ELSE PduLen.update

P(n, sz) == [n |-> n, sz |-> sz]
TLV(i, t, vlen) == [n |-> "tlv", i |-> i, t |-> t, sz |-> 4 + vlen]
(* body layout of the valid base message of each kind (after the common and per-peer headers) *)
Body(x) ==
        [ init     |-> << TLV(1, 1, 22), TLV(2, 2, 2) >>,                        \* sysDescr, sysName
          term     |-> << TLV(1, 0, 3), TLV(2, 1, 2) >>,                         \* string, reason (2 bytes)
          peerup   |-> << P("local", 20), P("sentopen", PduLen.open), P("recvopen", PduLen.open) >>,
          peerdown |-> << P("reason", 1), P("data", PduLen.notification) >>,     \* reason 1 + NOTIFICATION
          routemon |-> << P("pdu", UpdLen(x)) >>,
          stats    |-> << P("count", 4), TLV(1, 0, 4), TLV(2, 7, 8) >>,          \* 32-bit counter, 64-bit gauge
          mirror   |-> << TLV(1, 0, UpdLen(x)) >> ]                          \* BGP message TLV

RECURSIVE SumSz(_)
SumSz(s) == IF s = <<>> THEN 0 ELSE Head(s).sz + SumSz(Tail(s))
BodyLen(x, k) == SumSz(Body(x)[k])
TrueLen(x, k) == HdrLen + (IF HasPPH(k) THEN PPHLen ELSE 0) + BodyLen(x, k)
TLVs(x, k) == {i \in 1..Len(Body(x)[k]) : Body(x)[k][i].n = "tlv"}
TLVIdx(x, k) == {Body(x)[k][i].i : i \in TLVs(x, k)}
TLVVal(x, k, j) == LET i == CHOOSE i \in TLVs(x, k) : Body(x)[k][i].i = j IN Body(x)[k][i].sz - 4
(* offset of the j-th TLV of kind k from the start of the message *)
RECURSIVE OffBefore(_, _)
OffBefore(s, j) == IF s = <<>> \/ (Head(s).n = "tlv" /\ Head(s).i = j) THEN 0 ELSE Head(s).sz + OffBefore(Tail(s), j)
TLVOff(x, k, j) == HdrLen + (IF HasPPH(k) THEN PPHLen ELSE 0) + OffBefore(Body(x)[k], j)

(* 32-bit quantities are carried as two 16-bit halves (TLC integers are 32-bit signed) *)
W(hi, lo) == [hi |-> hi, lo |-> lo]
Small(n) == W(0, n)
Max32 == W(65535, 65535)
MaxMsgHi == 16             \* the intended framing accepts messages up to 2^20 bytes

(* ------------------------------------------------------------------ cases *)
Case(x, k, m, w, n, s) == [ctx |-> x, kind |-> k, mut |-> m, hi |-> w.hi, lo |-> w.lo, n |-> n, s |-> s]

LenClasses(x, k) == {Small(0), Small(1), Small(5), Small(6), Small(TrueLen(x, k) - 1), Small(TrueLen(x, k) + 1), Small(4096), Small(4097),
                  Small(65535), W(1, 0), W(16, 0), W(16, 1), W(256, 0), W(32767, 65535), W(32768, 0), Max32}
CutPoints(x, k) == {n \in {1, 3, 5, 6, 7, 27, 48, 49, TrueLen(x, k) - 1} : n >= 1 /\ n < TrueLen(x, k)}
TLVLenClasses(x, k, j) == {Small(0), Small(TLVVal(x, k, j) - 1), Small(TLVVal(x, k, j) + 1), Small(255), Small(65535)}
CountClasses == {Small(0), Small(3), Small(65535), W(1, 0), W(32767, 65535), W(32768, 0), Max32}
OpenMuts == {"asn", "asn4", "astrans", "bgpid", "bgpid0", "version", "hold0", "hold1", "short", "optlen+", "optlen255", "type",
             "marker", "badcap", "unknownopt", "nocaps"}
PeerHdrMuts == {"v6flag", "type3", "rd", "zeroaddr", "as0", "allones"}
PduMuts == {"notification", "open", "keepalive", "refresh", "type0", "type9", "len18", "len0", "len+1", "len65535", "marker",
            "empty", "onebyte", "hdronly", "badorigin", "badnlri", "attrlen", "as2", "unknownwithdraw", "mpshort", "nomandatory"}
ReasonCodes == {0, 1, 2, 3, 4, 5, 255}
DownData == {"none", "notification", "short", "garbage"}

NeedsPeer(k) == k \in {"peerdown", "routemon", "stats", "mirror"}

CasesOf(x, k) ==
    UNION {
      IF "none" \in Muts THEN {Case(x, k, "none", Small(0), 0, "")} ELSE {},
      IF "len" \in Muts THEN {Case(x, k, "len", w, 0, "") : w \in LenClasses(x, k) \ {Small(TrueLen(x, k))}} ELSE {},
      IF "version" \in Muts THEN {Case(x, k, "version", Small(0), n, "") : n \in {0, 1, 2, 4, 255}} ELSE {},
      IF "type" \in Muts THEN {Case(x, k, "type", Small(0), n, "") : n \in {7, 8, 100, 255}} ELSE {},
      IF "cut" \in Muts THEN {Case(x, k, "cut", Small(0), n, "") : n \in CutPoints(x, k)} ELSE {},
      IF "swap" \in Muts THEN {Case(x, k, "swap", Small(0), 0, s) : s \in AllKinds \ {k}} ELSE {},
      IF "tlvlen" \in Muts THEN UNION {{Case(x, k, "tlvlen", w, j, "") : w \in TLVLenClasses(x, k, j) \ {Small(TLVVal(x, k, j))}} : j \in TLVIdx(x, k)} ELSE {},
      IF "tlvempty" \in Muts THEN {Case(x, k, "tlvempty", Small(0), j, "") : j \in TLVIdx(x, k)} ELSE {},
      IF "tlvcut" \in Muts THEN {Case(x, k, "tlvcut", Small(0), j, "") : j \in TLVIdx(x, k)} ELSE {},
      IF "tlvtype" \in Muts THEN {Case(x, k, "tlvtype", Small(65535), j, "") : j \in TLVIdx(x, k)} ELSE {},
      IF "tlvmany" \in Muts /\ TLVIdx(x, k) # {} THEN {Case(x, k, "tlvmany", Small(0), n, "") : n \in {100, 1000, 10000}} ELSE {},
      IF "reason" \in Muts /\ k = "term" THEN {Case(x, k, "reason", Small(0), n, "") : n \in {0, 1, 3, 4}} ELSE {},
      IF "count" \in Muts /\ k = "stats" THEN {Case(x, k, "count", w, 0, "") : w \in CountClasses} ELSE {},
      IF "open" \in Muts /\ k = "peerup" THEN {Case(x, k, "open", Small(0), n, s) : n \in {1, 2}, s \in OpenMuts} ELSE {},
      IF "peerhdr" \in Muts /\ HasPPH(k) THEN {Case(x, k, "peerhdr", Small(0), 0, s) : s \in PeerHdrMuts} ELSE {},
      IF "unknownpeer" \in Muts /\ NeedsPeer(k) THEN {Case(x, k, "unknownpeer", Small(0), 0, "")} ELSE {},
      IF "duplicate" \in Muts /\ k = "peerup" /\ x \in {"peer", "ipeer"} THEN {Case(x, k, "duplicate", Small(0), 0, "")} ELSE {},
      IF "down" \in Muts /\ k = "peerdown" THEN {Case(x, k, "down", Small(0), n, s) : n \in ReasonCodes, s \in DownData} ELSE {},
      IF "pdu" \in Muts /\ k \in {"routemon", "mirror"} THEN {Case(x, k, "pdu", Small(0), 0, s) : s \in PduMuts} ELSE {},
      IF "flags" \in Muts /\ k = "routemon" THEN {Case(x, k, "flags", Small(0), n, "") : n \in {32, 96, 128, 160, 255}} ELSE {},
      IF "rand" \in Muts THEN {Case(x, k, "rand", Small(0), n, "") : n \in 1..Rand} ELSE {},
      IF "randhdr" \in Muts THEN {Case(x, k, "randhdr", Small(0), n, "") : n \in 1..Rand} ELSE {},
      \* no framing at all: Rand streams of random bytes (enumerated once per prefix, under the kind "init")
      IF "noise" \in Muts /\ k = "init" THEN {Case(x, k, "noise", Small(0), n, "") : n \in 1..Rand} ELSE {}
    }
Cases == UNION {CasesOf(x, k) : x \in Ctxs, k \in Kinds}

Init == c \in Cases
Next == UNCHANGED c

(* ------------------------------------------------------------------ the intended framing (design) *)
(* recvBMPMsg reads the 6-byte common header, then the rest of the message as announced by its length field. *)
(* Intended: a length below the header size or above MaxMsg ends the session; otherwise a buffer of exactly   *)
(* that size is filled from the connection.                                                                   *)
Declared == IF c.mut = "len" THEN W(c.hi, c.lo) ELSE Small(TrueLen(c.ctx, c.kind))
TooLong(w) == w.hi > MaxMsgHi \/ (w.hi = MaxMsgHi /\ w.lo > 0)
Frame == LET w == Declared IN
         IF w.hi = 0 /\ w.lo < HdrLen THEN "reject-short"
         ELSE IF TooLong(w) THEN "reject-long"
         ELSE IF w.hi > 0 \/ w.lo > TrueLen(c.ctx, c.kind) THEN "wait-for-more"
         ELSE IF w.lo < TrueLen(c.ctx, c.kind) THEN "deliver-prefix"
         ELSE "deliver"
(* buffer the intended framing allocates for the message, in KiB (rounded up) *)
FrameKiB == LET w == Declared IN
            IF Frame \in {"reject-short", "reject-long"} THEN 4
            ELSE IF w.hi = 0 /\ w.lo <= 4096 THEN 4 ELSE w.hi * 64 + (w.lo + 1023) \div 1024
(* what the adapter allows the receiver to allocate while it handles the case: Base + Factor * bytes sent *)
BaseKiB == 4096
Factor == 64

(* laws of the case grammar and of the intended framing *)
TypeOK == c.ctx \in Ctxs /\ c.kind \in Kinds /\ c.mut \in Muts
SizesAddUp == TrueLen(c.ctx, c.kind) = HdrLen + (IF HasPPH(c.kind) THEN PPHLen ELSE 0) + BodyLen(c.ctx, c.kind) /\ TrueLen(c.ctx, c.kind) >= HdrLen
LenMutationLies == c.mut = "len" => (c.hi # 0 \/ c.lo # TrueLen(c.ctx, c.kind))
CutsAreInside == c.mut = "cut" => c.n >= 1 /\ c.n < TrueLen(c.ctx, c.kind)
TLVMutationsHitATLV == c.mut \in {"tlvlen", "tlvempty", "tlvcut", "tlvtype"} => c.n \in TLVIdx(c.ctx, c.kind) /\ TLVOff(c.ctx, c.kind, c.n) + 4 <= TrueLen(c.ctx, c.kind)
TLVLenMutationLies == c.mut = "tlvlen" => (c.hi = 0 /\ c.lo # TLVVal(c.ctx, c.kind, c.n))
FramingIsBounded == FrameKiB <= MaxMsgHi * 64 /\ FrameKiB * 1 <= BaseKiB
OnlyTrueLengthDelivers == Frame = "deliver" <=> (Declared = Small(TrueLen(c.ctx, c.kind)))

EmitCase == PrintT("BEH " \o ToJson([a |-> "Case", ctx |-> c.ctx, kind |-> c.kind, mut |-> c.mut, hi |-> c.hi, lo |-> c.lo, n |-> c.n, s |-> c.s,
                                     type |-> TypeCode[c.kind], truelen |-> TrueLen(c.ctx, c.kind), body |-> Body(c.ctx)[c.kind],
                                     tlvoff |-> IF c.mut \in {"tlvlen", "tlvempty", "tlvcut", "tlvtype"} THEN TLVOff(c.ctx, c.kind, c.n) ELSE 0,
                                     wf |-> (c.mut = "none"), frame |-> Frame, basekib |-> BaseKiB, factor |-> Factor]))
=============================================================================
