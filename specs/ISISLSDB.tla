------------------------------- MODULE ISISLSDB -------------------------------
(* The level-2 link-state database of one system and the ISO 10589 update      *)
(* process on point-to-point circuits (protocols/isis/server: lsdb.go,         *)
(* lsdb_entry.go, lsp.go), property C32.                                       *)
(*                                                                             *)
(* Per LSP ID the database holds: sequence number (0 = entry created from a    *)
(* sequence-numbers PDU, no LSP yet), remaining lifetime, and per circuit the  *)
(* SRM (send routing message) and SSN (send sequence number = acknowledge)     *)
(* flags.  All circuits are point-to-point with an Up adjacency.               *)
(*                                                                             *)
(* One action per critical section of the code:                                *)
(*   RecvLSP(i, id, s, l)       lsdb.processLSP      ISO 10589 7.3.15.1 e), 7.3.16.1 *)
(*   RecvOwnBurst(i, s1, s2, l) two newer copies of the local LSP before the updater runs (scheduler gate) *)
(*   RecvCSNP(i, rg, es)        lsdb.processCSNP     7.3.15.2 b), c)           *)
(*   RecvPSNP(i, es)            lsdb.processPSNP     7.3.15.2 b)               *)
(*   Tick(k)                    k runs of lsdb.decrementRemainingLifetimes     *)
(*                              (+ the refresh of the local LSP it triggers)   *)
(*   SendLSPs                   lsdb.sendLSPDUs      7.3.15.5 (point-to-point: SRM stays until acknowledged) *)
(*   SendPSNPs                  lsdb.sendPSNPss      7.3.15.4 (SSN cleared once sent) *)
(*   Refresh                    lsdb.updateL2LSP     regeneration of the local LSP *)
(* Design constants bound to the code: OwnLifetime = defaultLifetimeSeconds,   *)
(* Threshold = lspRefreshThresholdSeconds.                                     *)
EXTENDS Integers, Sequences, FiniteSets, TLC, Json

CONSTANTS Ifaces,       \* circuits
          Remote,       \* LSP IDs of other systems, subset of {"r1", "r2"}; order of LSP IDs: r1 < own < r2
          MaxSeq,       \* sequence numbers of remote LSPs: 1..MaxSeq
          OwnDeltas,    \* sequence numbers of received copies / SNP entries of the local LSP, relative to the stored one
          Bursts,       \* pairs <<d1, d2>> (both > 0): two newer copies of the local LSP received before the updater has run
          Lifes,        \* remaining lifetimes of received LSPs
          SnpLifes,     \* remaining lifetimes reported in SNP entries
          OwnLifetime, Threshold,
          Jumps,        \* seconds of one Tick step
          MaxOwnSeq,    \* state constraint of the design check: highest sequence number of the local LSP explored
          MaxDepth

VARIABLES db,           \* [Ids -> entry]
          best,         \* history: highest sequence number received in an LSP per remote ID since the entry last aged out
          ownRecv,      \* history: highest sequence number of any received copy of the local LSP
          ownNewer,     \* history: highest sequence number of a received copy that was newer than the stored local LSP
          hist
vars == <<db, best, ownRecv, ownNewer, hist>>

Ids == Remote \cup {"own"}
Rank(id) == CASE id = "r1" -> 1 [] id = "own" -> 2 [] id = "r2" -> 3
Ranges == {"all", "lo", "hi"}                      \* all LSP IDs; up to and including own; from own on
InRange(id, rg) == CASE rg = "all" -> TRUE [] rg = "lo" -> Rank(id) <= 2 [] rg = "hi" -> Rank(id) >= 2

None == [p |-> FALSE, seq |-> 0, life |-> 0, srm |-> {}, ssn |-> {}]
Fresh(s) == [p |-> TRUE, seq |-> s, life |-> OwnLifetime, srm |-> Ifaces, ssn |-> {}]    \* a regenerated local LSP: flooded everywhere
Max(a, b) == IF a > b THEN a ELSE b
(* TLC keeps [x \in S |-> e] lazy (re-evaluated at every application, exponential under iteration): f @@ <<>> forces it *)
Eager(f) == f @@ <<>>

-----------------------------------------------------------------------------
(* 7.3.15.1 e): a received LSP of another system (or a copy of the local one that is not newer) *)
LSPRule(e, i, s, l) ==
    IF ~e.p \/ s > e.seq THEN [p |-> TRUE, seq |-> s, life |-> l, srm |-> Ifaces \ {i}, ssn |-> {i}]   \* newer: store, flood to the others, acknowledge
    ELSE IF s = e.seq THEN [e EXCEPT !.srm = @ \ {i}, !.ssn = @ \cup {i}]                              \* same: it is an acknowledgement, acknowledge
    ELSE [e EXCEPT !.srm = @ \cup {i}, !.ssn = @ \ {i}]                                                \* older: send ours

(* 7.3.15.2 b): one LSP entry of a sequence numbers PDU received on circuit i *)
SNPRule(e, i, s, l) ==
    IF ~e.p THEN [p |-> TRUE, seq |-> 0, life |-> l, srm |-> {}, ssn |-> {i}]                          \* unknown: ask for it
    ELSE IF s = e.seq THEN [e EXCEPT !.srm = @ \ {i}]                                                  \* acknowledged
    ELSE IF e.seq > s THEN [e EXCEPT !.ssn = @ \ {i}, !.srm = @ \cup {i}]                              \* ours is newer: send it
    ELSE [e EXCEPT !.srm = @ \ {i}, !.ssn = @ \cup {i}]                                                \* theirs is newer: ask for it

(* es: set of [id, seq, life], at most one per id *)
Mentioned(es) == {x.id : x \in es}
EntryOf(es, id) == CHOOSE x \in es : x.id = id
ApplySNP(D, i, es) == Eager([id \in Ids |-> IF id \in Mentioned(es) THEN SNPRule(D[id], i, EntryOf(es, id).seq, EntryOf(es, id).life) ELSE D[id]])
(* 7.3.15.2 c): LSPs in the range of a complete SNP that it does not mention are sent *)
ApplyCSNP(D, i, rg, es) ==
    LET D1 == ApplySNP(D, i, es)
    IN Eager([id \in Ids |-> IF D[id].p /\ D[id].seq > 0 /\ D[id].life > 0 /\ InRange(id, rg) /\ id \notin Mentioned(es)
                             THEN [D1[id] EXCEPT !.srm = @ \cup {i}] ELSE D1[id]])

(* one aging tick: the local LSP is regenerated when its lifetime is below the threshold, every other entry loses a *)
(* second and is dropped when its lifetime runs out                                                                 *)
Age1(D) == Eager([id \in Ids |->
              IF ~D[id].p THEN None
              ELSE IF id = "own" /\ D[id].life < Threshold THEN Fresh(D[id].seq + 1)
              ELSE IF D[id].life <= 1 THEN None
              ELSE [D[id] EXCEPT !.life = @ - 1]])
RECURSIVE AgeRun(_, _)
AgeRun(D, k) == IF k = 0 THEN D ELSE AgeRun(Age1(D), k - 1)
RECURSIVE RefreshTicks(_, _, _)
RefreshTicks(D, k, t) == IF t > k THEN <<>>
                         ELSE (IF D["own"].p /\ D["own"].life < Threshold THEN <<t>> ELSE <<>>) \o RefreshTicks(Age1(D), k, t + 1)

(* closed form of k ticks (what emission evaluates; FastIsRun states that it is the iteration) *)
Period == OwnLifetime - Threshold + 2
FirstRefresh(D) == Max(1, D["own"].life - Threshold + 2)
NRefresh(D, k) == IF ~D["own"].p \/ k < FirstRefresh(D) THEN 0 ELSE 1 + ((k - FirstRefresh(D)) \div Period)
AgeK(D, k) == Eager([id \in Ids |->
                 IF ~D[id].p THEN None
                 ELSE IF id = "own"
                      THEN IF NRefresh(D, k) = 0
                           THEN (IF D[id].life <= k THEN None ELSE [D[id] EXCEPT !.life = @ - k])
                           ELSE [Fresh(D[id].seq + NRefresh(D, k)) EXCEPT !.life = OwnLifetime - ((k - FirstRefresh(D)) % Period)]
                 ELSE IF D[id].life <= k THEN None
                 ELSE [D[id] EXCEPT !.life = @ - k]])
RECURSIVE TicksFrom(_, _, _)
TicksFrom(t, n, P) == IF n = 0 THEN <<>> ELSE <<t>> \o TicksFrom(t + P, n - 1, P)
FastRefreshTicks(D, k) == TicksFrom(FirstRefresh(D), NRefresh(D, k), Period)

-----------------------------------------------------------------------------
Present(D) == {id \in Ids : D[id].p}
State == [db |-> {[id |-> id, seq |-> db'[id].seq, life |-> db'[id].life, srm |-> db'[id].srm, ssn |-> db'[id].ssn] : id \in Present(db')}]
Log(r) == hist' = Append(hist, r @@ [st |-> State])

Init == /\ db = [id \in Ids |-> IF id = "own" THEN Fresh(1) ELSE None]
        /\ best = [id \in Remote |-> 0]
        /\ ownRecv = 0
        /\ ownNewer = 0
        /\ hist = << [a |-> "Config", ownLifetime |-> OwnLifetime, threshold |-> Threshold, ifaces |-> Ifaces,
                      st |-> [db |-> {[id |-> "own", seq |-> 1, life |-> OwnLifetime, srm |-> Ifaces, ssn |-> {}]}]] >>

(* history of the remote IDs: reset when the entry is gone *)
BestAfter(D2, b) == [id \in Remote |-> IF D2[id].p THEN b[id] ELSE 0]

RecvLSP(i, id, s, l) ==
    /\ s >= 1
    /\ IF id = "own" /\ db["own"].p /\ s > db["own"].seq
       THEN \* 7.3.16.1: a copy of the local LSP that is newer than the stored one: originate with a higher number
            /\ db' = [db EXCEPT !["own"] = Fresh(s + 1)]
            /\ ownNewer' = Max(ownNewer, s)
       ELSE /\ db' = [db EXCEPT ![id] = LSPRule(db[id], i, s, l)]
            /\ UNCHANGED ownNewer
    /\ ownRecv' = IF id = "own" THEN Max(ownRecv, s) ELSE ownRecv
    /\ best' = IF id = "own" THEN best ELSE [best EXCEPT ![id] = Max(@, s)]
    /\ Log([a |-> "RecvLSP", ifa |-> i, id |-> id, seq |-> s, life |-> l])

(* processLSP only raises the local sequence counter and asks the updater routine for a regeneration; two newer copies may *)
(* arrive before the updater runs: the regenerated LSP is above both (the code may regenerate once per request, i.e. end  *)
(* even higher: the replay continues from the number the code chose)                                                     *)
RecvOwnBurst(i, s1, s2, l) ==
    /\ db["own"].p /\ s1 > db["own"].seq /\ s2 > db["own"].seq
    /\ db' = [db EXCEPT !["own"] = Fresh(Max(s1, s2) + 1)]
    /\ ownNewer' = Max(ownNewer, Max(s1, s2))
    /\ ownRecv' = Max(ownRecv, Max(s1, s2))
    /\ UNCHANGED best
    /\ Log([a |-> "RecvOwnBurst", ifa |-> i, seq1 |-> s1, seq2 |-> s2, life |-> l])

RecvPSNP(i, es) ==
    /\ es # {}
    /\ db' = ApplySNP(db, i, es)
    /\ UNCHANGED <<best, ownRecv, ownNewer>>
    /\ Log([a |-> "RecvPSNP", ifa |-> i, entries |-> es])

RecvCSNP(i, rg, es) ==
    /\ \A x \in es : InRange(x.id, rg)
    /\ db' = ApplyCSNP(db, i, rg, es)
    /\ UNCHANGED <<best, ownRecv, ownNewer>>
    /\ Log([a |-> "RecvCSNP", ifa |-> i, range |-> rg, entries |-> es])

Tick(k) ==
    /\ db' = AgeK(db, k)
    /\ best' = BestAfter(AgeK(db, k), best)
    /\ UNCHANGED <<ownRecv, ownNewer>>
    /\ Log([a |-> "Tick", k |-> k, refreshAt |-> FastRefreshTicks(db, k)])

SendLSPs ==
    /\ UNCHANGED <<db, best, ownRecv, ownNewer>>
    /\ Log([a |-> "SendLSPs", sent |-> {[ifa |-> c[2], id |-> c[1], seq |-> db[c[1]].seq] :
                                         c \in {c \in Ids \X Ifaces : db[c[1]].p /\ c[2] \in db[c[1]].srm}}])

SendPSNPs ==
    /\ db' = Eager([id \in Ids |-> [db[id] EXCEPT !.ssn = {}]])
    /\ UNCHANGED <<best, ownRecv, ownNewer>>
    /\ Log([a |-> "SendPSNPs", sent |-> {[ifa |-> c[2], id |-> c[1], seq |-> db[c[1]].seq] :
                                          c \in {c \in Ids \X Ifaces : db[c[1]].p /\ c[2] \in db[c[1]].ssn}}])

Refresh ==
    /\ db["own"].p
    /\ db' = [db EXCEPT !["own"] = Fresh(db["own"].seq + 1)]
    /\ UNCHANGED <<best, ownRecv, ownNewer>>
    /\ Log([a |-> "Refresh"])

(* the SNP entry sets: at most one entry per ID; remote sequence numbers 1..MaxSeq, the local LSP relative to the stored one *)
SeqChoices(id) == IF id = "own" THEN {x \in {db["own"].seq + d : d \in OwnDeltas} : x >= 1} ELSE 1..MaxSeq
EntrySets(ids) == LET pick(id) == {{}} \cup {{[id |-> id, seq |-> s, life |-> l]} : s \in SeqChoices(id), l \in SnpLifes}
                      RECURSIVE Prod(_)
                      Prod(I) == IF I = {} THEN {{}}
                                 ELSE LET x == CHOOSE y \in I : TRUE IN {a \cup b : a \in pick(x), b \in Prod(I \ {x})}
                  IN Prod(ids)

Step == \/ \E i \in Ifaces, id \in Remote, s \in 1..MaxSeq, l \in Lifes : RecvLSP(i, id, s, l)
        \/ \E i \in Ifaces, d \in OwnDeltas, l \in Lifes : db["own"].p /\ RecvLSP(i, "own", db["own"].seq + d, l)
        \/ \E i \in Ifaces, bu \in Bursts, l \in Lifes : db["own"].p /\ RecvOwnBurst(i, db["own"].seq + bu[1], db["own"].seq + bu[2], l)
        \/ \E i \in Ifaces, es \in EntrySets(Ids) : RecvPSNP(i, es)
        \/ \E i \in Ifaces, rg \in Ranges, es \in EntrySets(Ids) : RecvCSNP(i, rg, es)
        \/ \E k \in Jumps : Tick(k)
        \/ SendLSPs
        \/ SendPSNPs
        \/ Refresh
Next == Len(hist) < MaxDepth /\ Step
NextSim == IF Len(hist) < MaxDepth THEN Step ELSE PrintT("BEH " \o ToJson(hist)) /\ UNCHANGED vars
Spec == Init /\ [][Next]_vars

-----------------------------------------------------------------------------
TypeOK == \A id \in Ids : /\ db[id].srm \subseteq Ifaces /\ db[id].ssn \subseteq Ifaces
                          /\ db[id].seq >= 0 /\ db[id].life >= 0
                          /\ (~db[id].p => db[id] = None)
(* C32: the database keeps for each LSP ID the copy with the highest sequence number until it ages out *)
HighestSeqKept == \A id \in Remote : (db[id].p /\ best[id] > 0) => db[id].seq = best[id]
SeqNeverDecreases == [][\A id \in Ids : (db[id].p /\ db'[id].p) => db'[id].seq >= db[id].seq]_vars
(* ... the local LSP is refreshed before it expires *)
RefreshBeforeExpiry == db["own"].p /\ db["own"].life >= 1 /\ db["own"].seq >= 1
(* ... and is originated with a sequence number higher than any copy of it received from the network: never below a    *)
(* received copy, and strictly above every received copy that was newer than the stored one                           *)
OwnSeqAboveReceived == db["own"].seq >= ownRecv /\ db["own"].seq > ownNewer
(* flag rules: nothing is flooded for an entry without an LSP; a received or acknowledged LSP is not sent back;        *)
NoSRMWithoutLSP == \A id \in Ids : db[id].seq = 0 => db[id].srm = {}
(* a regenerated local LSP is flooded on every circuit *)
RegeneratedIsFlooded == [][(db'["own"].seq > db["own"].seq) => (db'["own"].srm = Ifaces /\ db'["own"].ssn = {})]_vars
(* the closed form of Tick(k) is k aging ticks *)
FastIsRun == \A k \in Jumps : AgeK(db, k) = AgeRun(db, k) /\ FastRefreshTicks(db, k) = RefreshTicks(db, k, 1)

(* state constraint of the design check (the local sequence number is the only unbounded quantity) *)
SeqBound == db["own"].seq <= MaxOwnSeq

View == <<db, best, ownRecv, ownNewer>>
Emit == PrintT("BEH " \o ToJson(hist'))
=============================================================================
