------------------------------- MODULE Decision -------------------------------
(* BGP decision process (route/path.go, route/bgp_path.go): the preference    *)
(* relation between two paths, properties C02 (total preorder) and C03 (RFC    *)
(* 4271 9.1.2.2 / RFC 4456 section 9 directions).                              *)
(*                                                                             *)
(* A path is a record                                                          *)
(*   [type, lp, aslen, origin, med, ebgp, id, oid, cl, src, nh]                *)
(* cl = -1: CLUSTER_LIST absent, 0: empty, n: n entries.  oid = 0: no          *)
(* ORIGINATOR_ID.  type "bgp" | "static" (static paths only carry nh).         *)
EXTENDS DecisionDefs, Json

CONSTANTS Domain   \* "tail" | "head" | "static": which family of paths Init enumerates

VARIABLES p, q

(* tail: equal through the eBGP step; every combination of the later steps *)
TailPaths == {BGP(100, 2, 0, 0, FALSE, id, oid, cl, src, nh) :
                id \in {1, 2}, oid \in {0, 1, 2}, cl \in {-1, 0, 1, 2}, src \in {1, 2}, nh \in {1, 2}}
(* head: every combination of the earlier steps, plus one later step *)
(* nas: which neighbour AS the AS_PATH starts with; it takes no part in the decision (MED is compared across all neighbour ASes) *)
HeadPaths == {BGP(lp, aslen, origin, med, ebgp, id, 0, -1, 1, 1) @@ [nas |-> n] :
                lp \in {100, 200}, aslen \in {1, 2}, origin \in {0, 2}, med \in {0, 10},
                ebgp \in {TRUE, FALSE}, id \in {1, 2}, n \in {1, 2}}
StaticPaths == {Static(nh) : nh \in {1, 2, 3}} \cup
               {BGP(100, 2, 0, 0, FALSE, id, 0, -1, 1, 1) : id \in {1, 2}}

Paths == CASE Domain = "tail" -> TailPaths [] Domain = "head" -> HeadPaths [] Domain = "static" -> StaticPaths

-----------------------------------------------------------------------------
Init == p \in Paths /\ q \in Paths
Next == UNCHANGED <<p, q>>

(* C02: total preorder *)
Antisymmetric == Cmp(p, q) = 0 - Cmp(q, p)
Reflexive == Cmp(p, p) = 0
Transitive == \A r \in Paths : (Cmp(p, q) >= 0 /\ Cmp(q, r) >= 0) => Cmp(p, r) >= 0
StrictTransitive == \A r \in Paths : (Cmp(p, q) > 0 /\ Cmp(q, r) >= 0) => Cmp(p, r) > 0
TiesOnlyIfIndistinguishable == (Cmp(p, q) = 0) <=> (Key(p) = Key(q))

(* C03, stated independently of the lexicographic definition *)
SameHead(a, b) == a.type = "bgp" /\ b.type = "bgp" /\ a.lp = b.lp /\ a.aslen = b.aslen /\ a.origin = b.origin
                  /\ a.med = b.med /\ a.ebgp = b.ebgp
RFC_Head ==
    (p.type = "bgp" /\ q.type = "bgp") =>
      /\ p.lp > q.lp => Cmp(p, q) = 1
      /\ (p.lp = q.lp /\ p.aslen < q.aslen) => Cmp(p, q) = 1
      /\ (p.lp = q.lp /\ p.aslen = q.aslen /\ p.origin < q.origin) => Cmp(p, q) = 1
      /\ (p.lp = q.lp /\ p.aslen = q.aslen /\ p.origin = q.origin /\ p.med < q.med) => Cmp(p, q) = 1
      /\ (p.lp = q.lp /\ p.aslen = q.aslen /\ p.origin = q.origin /\ p.med = q.med /\ p.ebgp /\ ~q.ebgp) => Cmp(p, q) = 1
RFC_Tail ==
    SameHead(p, q) =>
      /\ EffId(p) < EffId(q) => Cmp(p, q) = 1
      /\ (EffId(p) = EffId(q) /\ CLLen(p) < CLLen(q)) => Cmp(p, q) = 1
      /\ (EffId(p) = EffId(q) /\ CLLen(p) = CLLen(q) /\ p.src < q.src) => Cmp(p, q) = 1

EmitCase == PrintT("BEH " \o ToJson([a |-> "Pair", p |-> p, q |-> q, cmp |-> Cmp(p, q), step |-> DecidingStep(p, q),
                                     ecmp |-> ECMP(p, q)]))
=============================================================================
