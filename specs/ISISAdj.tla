-------------------------------- MODULE ISISAdj --------------------------------
(* IS-IS point-to-point adjacencies of one system (protocols/isis/server:      *)
(* neighbor.go, neighbor_manager.go, lsp.go), property C31.                    *)
(*                                                                             *)
(* Discrete clock, unit = 1 second.  Per neighbour the abstract state is       *)
(*   st       absent | Init | Up | Down                                        *)
(*   silent   seconds since its last hello                                     *)
(*   hold     holding time carried by its last hello                           *)
(*   age      seconds since the adjacency went Down (Down only)                *)
(*   lists    what the three-way TLV of its last hello said                    *)
(* and `lsp` is the set of neighbours the local LSP advertises.                *)
(*                                                                             *)
(* One action per critical section of the code:                                *)
(*   Hello(n, l, h)   neighborManager.processP2PHello: the first hello of an   *)
(*                    unknown neighbour only creates it (Init); later hellos   *)
(*                    restart the holding timer and move the adjacency Up when *)
(*                    the TLV lists this system and circuit, Down when an Up   *)
(*                    adjacency is no longer listed                            *)
(*   Tick(k)          k runs of neighbor.adjChecker, one per second: an        *)
(*                    adjacency that is not Down and whose holding time has    *)
(*                    passed goes Down; a Down one is removed after            *)
(*                    DownRetention seconds                                    *)
(*   RegenerateLSP    lsdb.updateL2LSP: the local LSP lists the Up neighbours  *)
(* Design constant bound to the code: DownRetention = neighborDownTimeoutS.    *)
EXTENDS Integers, Sequences, FiniteSets, TLC, Json

CONSTANTS Nbrs,           \* neighbours
          Holds,          \* holding times a hello may carry
          Lists,          \* TLV contents: "us" (this system and circuit), "wrongsys", "wrongckt", "none" (no neighbour part)
          DownRetention,  \* seconds a Down adjacency is kept
          Jumps,          \* clock advances (seconds) of one Tick step
          BigJump,        \* jumps >= BigJump are "big": at most MaxBig of them per behaviour (cost of the replay)
          MaxBig,
          MaxHellos,      \* hello budget per behaviour (0 = unlimited); finite for the liveness check
          Record,         \* TRUE: keep the history (emission); FALSE: finite state space (liveness)
          MaxDepth

VARIABLES st, silent, hold, age, lists, lsp, nbig, nhello, hist
vars == <<st, silent, hold, age, lists, lsp, nbig, nhello, hist>>

States == {"absent", "Init", "Up", "Down"}
MaxHold == CHOOSE h \in Holds : \A g \in Holds : g <= h
Cap == MaxHold + DownRetention + 4          \* silent saturates here
Min(a, b) == IF a < b THEN a ELSE b

ListsUs(l) == l = "us"

(* the per-neighbour part of the state as one record, so that Tick can be iterated *)
Cur == [st |-> st, silent |-> silent, hold |-> hold, age |-> age, lists |-> lists]
Blank(S, n) == [S EXCEPT !.st[n] = "absent", !.silent[n] = 0, !.hold[n] = 0, !.age[n] = 0, !.lists[n] = "none"]

(* one run of the adjacency checker of neighbour n, one second later *)
Check(S, n) ==
    IF S.st[n] = "absent" THEN S
    ELSE LET s1 == Min(S.silent[n] + 1, Cap)
             T  == [S EXCEPT !.silent[n] = s1]
         IN IF T.st[n] \in {"Init", "Up"}
            THEN IF s1 > T.hold[n] THEN [T EXCEPT !.st[n] = "Down", !.age[n] = 0] ELSE T
            ELSE \* Down
                 IF T.age[n] + 1 > DownRetention THEN Blank(T, n) ELSE [T EXCEPT !.age[n] = T.age[n] + 1]

RECURSIVE CheckAll(_, _)
CheckAll(S, ns) == IF ns = {} THEN S ELSE LET n == CHOOSE x \in ns : TRUE IN CheckAll(Check(S, n), ns \ {n})
Tick1(S) == CheckAll(S, Nbrs)

(* the states after each of k seconds *)
RECURSIVE Run(_, _)
Run(S, k) == IF k = 0 THEN <<>> ELSE LET s1 == Tick1(S) IN <<s1>> \o Run(s1, k - 1)

(* observable projection of one neighbour: state, remaining holding time while Init/Up, seconds Down *)
Obs(S) == [n \in Nbrs |-> [s    |-> S.st[n],
                           left |-> IF S.st[n] \in {"Init", "Up"} THEN S.hold[n] - S.silent[n] ELSE 0,
                           age  |-> IF S.st[n] = "Down" THEN S.age[n] ELSE 0]]
StObs(S) == [n \in Nbrs |-> S.st[n]]

(* the seconds of a run at which some adjacency state changes, with the states from then on *)
Changes(S, run) == LET prev(i) == IF i = 1 THEN StObs(S) ELSE StObs(run[i - 1])
                   IN [i \in {i \in 1..Len(run) : StObs(run[i]) # prev(i)} |-> StObs(run[i])]
ChangeList(S, run) == LET c == Changes(S, run)
                          idx == DOMAIN c
                          RECURSIVE L(_)
                          L(I) == IF I = {} THEN <<>>
                                  ELSE LET m == CHOOSE x \in I : \A y \in I : x <= y
                                       IN <<[at |-> m, st |-> c[m]]>> \o L(I \ {m})
                      IN L(idx)

(* Closed form of k unit ticks (what emission evaluates; FastIsRun below states that it is the iteration).            *)
(* An Init/Up adjacency with s seconds of silence and holding time h goes Down in second h-s+1 and is removed        *)
(* DownRetention+1 seconds later; a Down one of age a is removed in second DownRetention-a+1.                        *)
DownAt(S, n) == IF S.hold[n] - S.silent[n] + 1 < 1 THEN 1 ELSE S.hold[n] - S.silent[n] + 1
GoneAt(S, n) == IF S.st[n] = "Down" THEN DownRetention - S.age[n] + 1 ELSE DownAt(S, n) + DownRetention + 1
StAt(S, n, t) == IF S.st[n] = "absent" THEN "absent"
                 ELSE IF t >= GoneAt(S, n) THEN "absent"
                 ELSE IF S.st[n] = "Down" THEN "Down"
                 ELSE IF t >= DownAt(S, n) THEN "Down" ELSE S.st[n]
After(S, t) ==
    [st     |-> [n \in Nbrs |-> StAt(S, n, t)],
     silent |-> [n \in Nbrs |-> IF StAt(S, n, t) = "absent" THEN 0 ELSE Min(S.silent[n] + t, Cap)],
     hold   |-> [n \in Nbrs |-> IF StAt(S, n, t) = "absent" THEN 0 ELSE S.hold[n]],
     age    |-> [n \in Nbrs |-> IF StAt(S, n, t) # "Down" THEN 0
                                ELSE IF S.st[n] = "Down" THEN S.age[n] + t ELSE t - DownAt(S, n)],
     lists  |-> [n \in Nbrs |-> IF StAt(S, n, t) = "absent" THEN "none" ELSE S.lists[n]]]
EventTimes(S, k) == UNION {IF S.st[n] = "absent" THEN {}
                           ELSE IF S.st[n] = "Down" THEN {GoneAt(S, n)} ELSE {DownAt(S, n), GoneAt(S, n)} : n \in Nbrs} \cap (1..k)
FastChangeList(S, k) == LET RECURSIVE L(_)
                            L(I) == IF I = {} THEN <<>>
                                    ELSE LET m == CHOOSE x \in I : \A y \in I : x <= y
                                         IN <<[at |-> m, st |-> [n \in Nbrs |-> StAt(S, n, m)]]>> \o L(I \ {m})
                        IN L(EventTimes(S, k))

State == [adj |-> Obs([st |-> st', silent |-> silent', hold |-> hold', age |-> age', lists |-> lists']),
          lsp |-> lsp']
Log(r) == hist' = IF Record THEN Append(hist, r @@ [st |-> State]) ELSE hist

Init == /\ st = [n \in Nbrs |-> "absent"]
        /\ silent = [n \in Nbrs |-> 0]
        /\ hold = [n \in Nbrs |-> 0]
        /\ age = [n \in Nbrs |-> 0]
        /\ lists = [n \in Nbrs |-> "none"]
        /\ lsp = {}
        /\ nbig = 0
        /\ nhello = 0
        /\ hist = IF Record
                  THEN << [a |-> "Config", downRetention |-> DownRetention,
                           st |-> [adj |-> [n \in Nbrs |-> [s |-> "absent", left |-> 0, age |-> 0]], lsp |-> {}]] >>
                  ELSE <<>>

Set(S) == /\ st' = S.st /\ silent' = S.silent /\ hold' = S.hold /\ age' = S.age /\ lists' = S.lists

Hello(n, l, h) ==
    /\ MaxHellos = 0 \/ nhello < MaxHellos
    /\ nhello' = IF MaxHellos = 0 THEN 0 ELSE nhello + 1
    /\ LET T == [Cur EXCEPT !.silent[n] = 0, !.hold[n] = h, !.lists[n] = l]
       IN  IF st[n] = "absent"
           THEN Set([T EXCEPT !.st[n] = "Init", !.age[n] = 0])                 \* the first hello only creates the neighbour
           ELSE IF st[n] # "Up" /\ ListsUs(l) THEN Set([T EXCEPT !.st[n] = "Up", !.age[n] = 0])
           ELSE IF st[n] = "Up" /\ ~ListsUs(l) THEN Set([T EXCEPT !.st[n] = "Down", !.age[n] = 0])
           ELSE Set(T)
    /\ UNCHANGED <<lsp, nbig>>
    /\ Log([a |-> "Hello", n |-> n, lists |-> l, hold |-> h])

Tick(k) ==
    /\ (k >= BigJump) => (nbig < MaxBig /\ \E n \in Nbrs : st[n] # "absent")
    /\ nbig' = IF k >= BigJump THEN nbig + 1 ELSE nbig
    /\ UNCHANGED <<lsp, nhello>>
    /\ Set(After(Cur, k))
    /\ Log([a |-> "Tick", k |-> k, chg |-> FastChangeList(Cur, k)])

RegenerateLSP ==
    /\ lsp' = {n \in Nbrs : st[n] = "Up"}
    /\ UNCHANGED <<st, silent, hold, age, lists, nbig, nhello>>
    /\ Log([a |-> "RegenerateLSP"])

Step == \/ \E n \in Nbrs, l \in Lists, h \in Holds : Hello(n, l, h)
        \/ \E k \in Jumps : Tick(k)
        \/ RegenerateLSP
Next == Len(hist) < MaxDepth /\ Step
NextSim == IF Len(hist) < MaxDepth THEN Step ELSE PrintT("BEH " \o ToJson(hist)) /\ UNCHANGED vars
Spec == Init /\ [][Next]_vars

(* liveness: Record = FALSE, finite hello budget, the clock keeps running *)
NextLive == Step
SpecLive == Init /\ [][NextLive]_vars /\ WF_vars(Tick(1))

-----------------------------------------------------------------------------
TypeOK == /\ st \in [Nbrs -> States]
          /\ \A n \in Nbrs : silent[n] \in 0..Cap /\ age[n] \in 0..DownRetention /\ hold[n] \in Holds \cup {0}
          /\ lsp \subseteq Nbrs

(* the closed form used by Tick(k) is k runs of the adjacency checkers, second by second *)
FastIsRun == \A k \in Jumps : LET run == Run(Cur, k) IN
                /\ After(Cur, k) = run[k]
                /\ FastChangeList(Cur, k) = ChangeList(Cur, run)

(* C31: an adjacency is Up only while the neighbour's most recent hello lists this system and circuit ... *)
UpOnlyIfListed == \A n \in Nbrs : st[n] = "Up" => ListsUs(lists[n])
(* ... and only within the holding time of that hello (also while Init: no adjacency outlives its holding time) *)
HoldRespected == \A n \in Nbrs : st[n] \in {"Init", "Up"} => silent[n] <= hold[n]
(* a silent neighbour disappears, whether or not it ever came Up (bounded-time form on the discrete clock) *)
SilentDisappears == \A n \in Nbrs : silent[n] > hold[n] + DownRetention + 2 => st[n] = "absent"
(* Up -> Down on a hello that no longer lists us *)
UnlistedGoesDown == [][\A n \in Nbrs : (st[n] = "Up" /\ lists'[n] # "us" /\ st'[n] # "absent") => st'[n] = "Down"]_vars
(* Up is entered only by a hello that lists us *)
UpEnteredByHello == [][\A n \in Nbrs : (st[n] # "Up" /\ st'[n] = "Up") => (silent'[n] = 0 /\ lists'[n] = "us" /\ st[n] # "absent")]_vars
(* the regenerated LSP advertises exactly the Up adjacencies *)
LSPAfterRegeneration == [][(lsp' # lsp) => lsp' = {n \in Nbrs : st[n] = "Up"}]_vars
(* liveness under fairness of the clock: once the hellos stop every neighbour disappears for good *)
EventuallyGone == \A n \in Nbrs : <>[](st[n] = "absent")

View == <<st, silent, hold, age, lists, lsp, nbig, nhello>>
Emit == PrintT("BEH " \o ToJson(hist'))
=============================================================================
