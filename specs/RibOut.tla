-------------------------------- MODULE RibOut --------------------------------
(* One outbound BGP session: the Adj-RIB-Out as the export view of the Loc-RIB *)
(* (routingtable/adjRIBOut, routingtable/update_helper.go).                    *)
(*   C08  Adj-RIB-Out = per prefix, the paths the add-path setting selects     *)
(*        from the Loc-RIB that export rules and export policy admit, rewritten*)
(*   C09  export eligibility and attribute rewriting follow the RFCs           *)
(*   C11  add-path identifiers unique per prefix, withdrawals carry the id     *)
(*   C12  replacing the export policy converges (export side)                  *)
(*   C13  exporting never alters the routes stored in the Loc-RIB              *)
(* One action per public call: Loc-RIB AddPath/RemovePath, session up/down     *)
(* (register / unregister of the Adj-RIB-Out on the Loc-RIB), ReplaceExport.   *)
EXTENDS DecisionDefs, Policy, Json

CONSTANTS Pfxs, Names, Sessions, Pols, MaxDepth, MaxPaths

VARIABLES sess,     \* name of the target session configuration (fixed after Init)
          rib,      \* [Pfxs -> Seq(Names)] Loc-RIB, best first
          up,       \* BOOLEAN: the Adj-RIB-Out is registered on the Loc-RIB
          pol,      \* current export policy
          out,      \* [Pfxs -> set of exported path records] the Adj-RIB-Out
          hist
vars == <<sess, rib, up, pol, out, hist>>

LocalASN == 65000
LocalIP == 200
PeerIP == 201        \* address of the target session's peer
ClusterID == 88

(* Loc-RIB path domain.  P(...) builds a record usable by DecisionDefs (aslen, cl derived). *)
P(lp, asp, med, ebgp, id, oid, clv, src, nh, comm, otc) ==
    [type |-> "bgp", lp |-> lp, aslen |-> Len(asp), origin |-> 0, med |-> med, ebgp |-> ebgp, id |-> id, oid |-> oid,
     cl |-> IF clv = <<>> THEN -1 ELSE Len(clv), src |-> src, nh |-> nh,
     asp |-> asp, clv |-> clv, comm |-> comm, otc |-> otc, pid |-> 0, redist |-> FALSE, aggr |-> FALSE, unk |-> FALSE]
S(nh) == [type |-> "static", lp |-> 0, aslen |-> 0, origin |-> 0, med |-> 0, ebgp |-> FALSE, id |-> 0, oid |-> 0, cl |-> -1,
          src |-> 0, nh |-> nh, asp |-> <<>>, clv |-> <<>>, comm |-> {}, otc |-> 0, pid |-> 0, redist |-> FALSE, aggr |-> FALSE, unk |-> FALSE]

PD == [ e1 |-> P(100, <<65001, 65002>>, 0, TRUE, 11, 0, <<>>, 1, 1, {}, 0),          \* eBGP-learned
        e2 |-> P(100, <<65003>>, 0, TRUE, 12, 0, <<>>, 2, 2, {}, 0),                 \* eBGP-learned, shorter AS_PATH
        e3 |-> P(100, <<65001, 65006>>, 0, TRUE, 13, 0, <<>>, 3, 3, {"c1"}, 0),      \* equal cost with e1, ordinary community
        i1 |-> P(100, <<65004, 65005>>, 0, FALSE, 14, 0, <<>>, 4, 4, {}, 0),         \* iBGP-learned
        i2 |-> P(100, <<65004, 65007>>, 0, FALSE, 15, 5, <<9>>, 5, 5, {}, 0),        \* iBGP-learned, already reflected
        ne |-> P(150, <<65001>>, 0, TRUE, 16, 0, <<>>, 6, 6, {"noexport"}, 0),
        na |-> P(160, <<65001>>, 0, TRUE, 17, 0, <<>>, 7, 7, {"noadvertise", "c1"}, 0),
        \* both well-known communities (the adapter lists communities in ascending order for even BGP identifiers, descending for odd)
        nn |-> P(155, <<65001>>, 0, TRUE, 20, 0, <<>>, 10, 10, {"noexport", "noadvertise"}, 0),
        nr |-> P(156, <<65001>>, 0, TRUE, 23, 0, <<>>, 11, 11, {"noexport", "noadvertise"}, 0),
        ot |-> P(100, <<65001, 65008>>, 0, TRUE, 18, 0, <<>>, 8, 8, {}, 65001),      \* carries OTC
        bk |-> P(170, <<65009>>, 0, TRUE, 19, 0, <<>>, PeerIP, 9, {}, 0),            \* learned from the target peer itself
        st |-> S(10),
        (* add-path identifier sensitivity: d0 and variants that differ from it in exactly one attribute *)
        d0    |-> P(100, <<65020>>, 0, TRUE, 30, 0, <<>>, 21, 21, {}, 0),
        dSrc  |-> P(100, <<65020>>, 0, TRUE, 30, 0, <<>>, 22, 21, {}, 0),          \* parallel link to the same router
        dNh   |-> P(100, <<65020>>, 0, TRUE, 30, 0, <<>>, 21, 23, {}, 0),
        dId   |-> P(100, <<65020>>, 0, TRUE, 31, 0, <<>>, 21, 21, {}, 0),
        dLp   |-> P(101, <<65020>>, 0, TRUE, 30, 0, <<>>, 21, 21, {}, 0),
        dMed  |-> P(100, <<65020>>, 3, TRUE, 30, 0, <<>>, 21, 21, {}, 0),
        dAsp  |-> P(100, <<65021>>, 0, TRUE, 30, 0, <<>>, 21, 21, {}, 0),
        dComm |-> P(100, <<65020>>, 0, TRUE, 30, 0, <<>>, 21, 21, {"c1"}, 0),
        dAggr |-> [P(100, <<65020>>, 0, TRUE, 30, 0, <<>>, 21, 21, {}, 0) EXCEPT !.aggr = TRUE],   \* carries an AGGREGATOR
        dOtc  |-> P(100, <<65020>>, 0, TRUE, 30, 0, <<>>, 21, 21, {}, 65020),                        \* differs from d0 in OTC only
        dUnk  |-> [P(100, <<65020>>, 0, TRUE, 30, 0, <<>>, 21, 21, {}, 0) EXCEPT !.unk = TRUE],    \* carries an unknown transitive attribute
        dOid  |-> P(100, <<65020>>, 0, FALSE, 30, 6, <<7>>, 21, 21, {}, 0),
        dOid2 |-> P(100, <<65020>>, 0, FALSE, 30, 8, <<7>>, 21, 21, {}, 0),
        dCl2  |-> P(100, <<65020>>, 0, FALSE, 30, 6, <<7, 9>>, 21, 21, {}, 0),         \* same CLUSTER_LIST length as dCl, other content
        dCl   |-> P(100, <<65020>>, 0, FALSE, 30, 6, <<7, 8>>, 21, 21, {}, 0) ]                                                               \* static route (redistributed)
Rec(n) == PD[n]

SessDef == [
   ebgp     |-> [ibgp |-> FALSE, rsc |-> FALSE, rrc |-> FALSE, n |-> 1, roles |-> FALSE, remote |-> "none"],
   ebgpRS   |-> [ibgp |-> FALSE, rsc |-> TRUE,  rrc |-> FALSE, n |-> 1, roles |-> FALSE, remote |-> "none"],
   ibgp     |-> [ibgp |-> TRUE,  rsc |-> FALSE, rrc |-> FALSE, n |-> 1, roles |-> FALSE, remote |-> "none"],
   ibgpRR   |-> [ibgp |-> TRUE,  rsc |-> FALSE, rrc |-> TRUE,  n |-> 1, roles |-> FALSE, remote |-> "none"],
   ebgpAP   |-> [ibgp |-> FALSE, rsc |-> FALSE, rrc |-> FALSE, n |-> 2, roles |-> FALSE, remote |-> "none"],
   ibgpRRAP |-> [ibgp |-> TRUE,  rsc |-> FALSE, rrc |-> TRUE,  n |-> 3, roles |-> FALSE, remote |-> "none"],
   ibgpAP   |-> [ibgp |-> TRUE,  rsc |-> FALSE, rrc |-> FALSE, n |-> 2, roles |-> FALSE, remote |-> "none"],   \* add-path, iBGP split horizon applies
   toProviderAP |-> [ibgp |-> FALSE, rsc |-> FALSE, rrc |-> FALSE, n |-> 2, roles |-> TRUE, remote |-> "provider"],  \* add-path, OTC routes stay behind
   toCustomer |-> [ibgp |-> FALSE, rsc |-> FALSE, rrc |-> FALSE, n |-> 1, roles |-> TRUE, remote |-> "customer"],
   toPeer     |-> [ibgp |-> FALSE, rsc |-> FALSE, rrc |-> FALSE, n |-> 1, roles |-> TRUE, remote |-> "peer"],
   toProvider |-> [ibgp |-> FALSE, rsc |-> FALSE, rrc |-> FALSE, n |-> 1, roles |-> TRUE, remote |-> "provider"],
   toRS       |-> [ibgp |-> FALSE, rsc |-> FALSE, rrc |-> FALSE, n |-> 1, roles |-> TRUE, remote |-> "rs"],
   toRSClient |-> [ibgp |-> FALSE, rsc |-> TRUE,  rrc |-> FALSE, n |-> 1, roles |-> TRUE, remote |-> "rsclient"] ]
T == SessDef[sess]

PolDef == [ accept |-> AcceptAll,
            rejall |-> RejectAll,
            rej01  |-> << << Term(<<Cond(<<RF(<<0, 1>>, "orlonger")>>, <<>>)>>, <<Act("reject")>>), Term(<<>>, <<Act("accept")>>) >> >>,
            setmed |-> << << Term(<<>>, <<ActV("med", 7), Act("accept")>>) >> >>,
            prep   |-> << << Term(<<>>, <<ActPrepend(65000, 1), Act("accept")>>) >> >>,
            prep2  |-> << << Term(<<>>, <<ActPrepend(65000, 2), Act("accept")>>) >> >>,
            setnh  |-> << << Term(<<>>, <<ActV("nh", 9), Act("accept")>>) >> >> ]

-----------------------------------------------------------------------------
(* export rules; "none" when the path must not be advertised *)
None == [type |-> "none"]

(* a static route redistributed into BGP starts from a fresh attribute set with the static next hop *)
Base(p) == IF p.type = "static" THEN [P(0, <<>>, 0, FALSE, 0, 0, <<>>, 0, p.nh, {}, 0) EXCEPT !.redist = TRUE] ELSE p
IsRedist(p) == p.type = "static"

(* export rules towards a session t whose peer has address peer *)
ExportRulesS(t, peer, p0) ==
    LET p == Base(p0) IN
    IF p0.type = "bgp" /\ p.src = peer THEN None                                    \* never back to the peer it came from
    ELSE IF "noadvertise" \in p.comm THEN None
    ELSE IF "noexport" \in p.comm /\ ~t.ibgp THEN None
    ELSE IF t.ibgp THEN
        IF IsRedist(p0) THEN p
        ELSE IF ~p.ebgp /\ ~t.rrc THEN None                                        \* iBGP-learned to a non-client iBGP peer
        ELSE IF t.rrc
             THEN [p EXCEPT !.oid = IF p.oid # 0 THEN p.oid ELSE p.src, !.clv = <<ClusterID>> \o p.clv]
             ELSE p
    ELSE
        LET q == IF t.rsc THEN p ELSE [p EXCEPT !.asp = <<LocalASN>> \o p.asp, !.nh = LocalIP] IN
        IF t.roles /\ q.otc # 0 /\ t.remote \in {"provider", "peer", "rs"} THEN None
        ELSE IF t.roles /\ q.otc = 0 /\ t.remote \in {"customer", "peer", "rsclient"} THEN [q EXCEPT !.otc = LocalASN]
        ELSE q
ExportRules(p0) == ExportRulesS(T, PeerIP, p0)

(* the fields a peer can observe *)
Wire(p) == [asp |-> p.asp, nh |-> p.nh, lp |-> p.lp, med |-> p.med, oid |-> p.oid, clv |-> p.clv, comm |-> p.comm,
            otc |-> p.otc, ebgpLearned |-> p.ebgp, redist |-> p.redist, aggr |-> p.aggr, unk |-> p.unk,
            id |-> p.id, src |-> p.src]     \* identity of the originating path (two paths may look alike on the wire)

Export(po, x, n) ==
    LET r == ExportRules(PD[n]) IN
    IF r.type = "none" THEN None
    ELSE LET e == Eval(PolDef[po], x, r) IN IF e.reject THEN None ELSE e.path

Min(a, b) == IF a < b THEN a ELSE b
Window(s) == {s[i] : i \in 1..Min(T.n, Len(s))}                                     \* best only (n = 1) or the first n paths
ExportView(r, po) == [x \in Pfxs |-> {Wire(Export(po, x, n)) : n \in {m \in Window(r[x]) : Export(po, x, m).type # "none"}}]

(* a second session on the same Loc-RIB (C13: its Adj-RIB-Out must be what ITS rules say, whatever the first session does): *)
(* the opposite kind of the session under test, add-path 4, accept-all export policy, peer address 202                   *)
OtherSess == [ibgp |-> ~T.ibgp, rsc |-> FALSE, rrc |-> ~T.ibgp, n |-> 4, roles |-> FALSE, remote |-> "none"]
OtherPeerIP == 202
OtherView(r) == [x \in Pfxs |->
    {Wire(ExportRulesS(OtherSess, OtherPeerIP, PD[n])) :
        n \in {m \in {r[x][i] : i \in 1..Min(4, Len(r[x]))} : ExportRulesS(OtherSess, OtherPeerIP, PD[m]).type # "none"}}]

SeqSet(s) == {s[i] : i \in 1..Len(s)}
Remove(s, x) == SelectSeq(s, LAMBDA y : y # x)

J(f) == {[pfx |-> x, paths |-> f[x]] : x \in Pfxs}
State == [rib |-> J(rib'), up |-> up', pol |-> pol', out |-> J(out'), other |-> J(OtherView(rib'))]
Log(r) == hist' = Append(hist, r @@ [st |-> State])

Init == /\ sess \in Sessions
        /\ rib = [x \in Pfxs |-> <<>>]
        /\ up = TRUE
        /\ pol \in Pols
        /\ out = [x \in Pfxs |-> {}]
        /\ hist = << [a |-> "Config", sess |-> SessDef[sess], sessname |-> sess, pol |-> pol, chain |-> PolDef[pol],
                      st |-> [rib |-> J(rib), up |-> up, pol |-> pol, out |-> J(out), other |-> J(OtherView(rib))]] >>

AddPath(x, n) ==
    /\ n \notin SeqSet(rib[x]) /\ Len(rib[x]) < MaxPaths
    /\ rib' = [rib EXCEPT ![x] = InsertBy(Rec, @, n)]
    /\ out' = IF up THEN ExportView(rib', pol) ELSE out
    /\ UNCHANGED <<sess, up, pol>>
    /\ Log([a |-> "AddPath", pfx |-> x, p |-> n, pr |-> PD[n]])

RemovePath(x, n) ==
    /\ n \in SeqSet(rib[x])
    /\ rib' = [rib EXCEPT ![x] = Remove(@, n)]
    /\ out' = IF up THEN ExportView(rib', pol) ELSE out
    /\ UNCHANGED <<sess, up, pol>>
    /\ Log([a |-> "RemovePath", pfx |-> x, p |-> n, pr |-> PD[n]])

(* the session goes down: its Adj-RIB-Out stops receiving updates (and is discarded) *)
Down == /\ up /\ up' = FALSE /\ out' = [x \in Pfxs |-> {}]
        /\ UNCHANGED <<sess, rib, pol>>
        /\ Log([a |-> "Down"])
(* (re-)establishment: a fresh Adj-RIB-Out is registered and receives the Loc-RIB *)
Up == /\ ~up /\ up' = TRUE /\ out' = ExportView(rib, pol)
      /\ UNCHANGED <<sess, rib, pol>>
      /\ Log([a |-> "Up"])

ReplaceExport(p2) ==
    /\ up /\ p2 # pol
    /\ pol' = p2
    /\ out' = ExportView(rib, p2)
    /\ UNCHANGED <<sess, rib, up>>
    /\ Log([a |-> "ReplaceExport", pol |-> p2, chain |-> PolDef[p2]])

Step == \/ \E x \in Pfxs, n \in Names : AddPath(x, n) \/ RemovePath(x, n)
        \/ Down \/ Up
        \/ \E p2 \in Pols : ReplaceExport(p2)
Next == Len(hist) < MaxDepth /\ Step
NextSim == IF Len(hist) < MaxDepth THEN Step ELSE PrintT("BEH " \o ToJson(hist)) /\ UNCHANGED vars
Spec == Init /\ [][Next]_vars

-----------------------------------------------------------------------------
(* C08 / C12 *)
OutIsExportView == out = (IF up THEN ExportView(rib, pol) ELSE [x \in Pfxs |-> {}])

(* C09, stated on whatever is in the Adj-RIB-Out, independently of ExportRules' structure *)
Exported == UNION {out[x] : x \in Pfxs}
NeverNoAdvertise == \A w \in Exported : "noadvertise" \notin w.comm
NeverNoExportToEBGP == ~T.ibgp => \A w \in Exported : "noexport" \notin w.comm
EBGPPrependsAndNextHopSelf ==
    (~T.ibgp /\ ~T.rsc /\ pol \in {"accept", "rej01", "setmed"}) =>
        \A w \in Exported : w.asp # <<>> /\ Head(w.asp) = LocalASN /\ w.nh = LocalIP
ReflectedCarryOriginatorAndCluster ==
    T.rrc => \A w \in Exported : (~w.ebgpLearned /\ ~w.redist) => (w.oid # 0 /\ w.clv # <<>> /\ Head(w.clv) = ClusterID)
NoOTCToProviderPeerRS == (T.roles /\ T.remote \in {"provider", "rs"}) => \A w \in Exported : w.otc = 0
OTCToCustomerPeerRSClient == (T.roles /\ T.remote \in {"customer", "peer", "rsclient"}) => \A w \in Exported : w.otc # 0
(* iBGP-learned routes never go to a non-client iBGP peer *)
NoIBGPToNonClient == (T.ibgp /\ ~T.rrc) => \A w \in Exported : w.ebgpLearned \/ w.redist

View == <<sess, rib, up, pol, out>>
Emit == PrintT("BEH " \o ToJson(hist'))
=============================================================================
