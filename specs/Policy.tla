-------------------------------- MODULE Policy --------------------------------
(* Reference interpreter of routing policy (routingtable/filter), C14; also    *)
(* used by Pipeline for import/export policies (C05, C08, C12).                *)
(*                                                                             *)
(* chain  = Seq(filter)      filter = Seq(term)                                *)
(* term   = [from : Seq(cond), then : Seq(action)]                             *)
(* cond   = [rfs : Seq(routefilter), pls : Seq(prefixlist), protos : Seq(type)]*)
(* routefilter = [pat : prefix, m : "exact"|"orlonger"|"longer"|"range", min, max] *)
(* prefixlist  = Seq(prefix)                                                   *)
(* action = [k : "accept"|"reject"|"lp"|"med"|"nh"|"prepend", v, n]            *)
(* prefix = sequence of bits;  path = [type, lp, med, nh, asp]                 *)
EXTENDS Naturals, Sequences, FiniteSets, TLC

IsPrefixOf(p, q) == Len(p) <= Len(q) /\ \A i \in 1..Len(p) : p[i] = q[i]    \* p contains or equals q

RFMatch(rf, x) ==
    CASE rf.m = "exact"    -> rf.pat = x
      [] rf.m = "orlonger" -> IsPrefixOf(rf.pat, x)
      [] rf.m = "longer"   -> IsPrefixOf(rf.pat, x) /\ Len(x) > Len(rf.pat)
      [] rf.m = "range"    -> IsPrefixOf(rf.pat, x) /\ Len(x) >= rf.min /\ Len(x) <= rf.max

PLMatch(pl, x) == \E i \in 1..Len(pl) : pl[i] = x        \* a prefix list matches the listed prefixes exactly

AnyOf(s, P(_)) == \E i \in 1..Len(s) : P(s[i])

(* a condition matches when all of its (non-empty) parts match; a part matches when any of its entries does *)
CondMatch(c, x, pa) ==
    /\ (c.pls = <<>> \/ AnyOf(c.pls, LAMBDA pl : PLMatch(pl, x)))
    /\ (c.rfs = <<>> \/ AnyOf(c.rfs, LAMBDA rf : RFMatch(rf, x)))
    /\ (c.protos = <<>> \/ AnyOf(c.protos, LAMBDA t : t = pa.type))

(* a term applies when it has no conditions or any of them matches *)
TermApplies(t, x, pa) == t.from = <<>> \/ AnyOf(t.from, LAMBDA c : CondMatch(c, x, pa))

RECURSIVE Rep(_, _)
Rep(v, n) == IF n = 0 THEN <<>> ELSE <<v>> \o Rep(v, n - 1)

Apply(act, pa) ==
    CASE act.k = "lp"      -> IF pa.type = "bgp" THEN [pa EXCEPT !.lp = act.v] ELSE pa
      [] act.k = "med"     -> IF pa.type = "bgp" THEN [pa EXCEPT !.med = act.v] ELSE pa
      [] act.k = "nh"      -> [pa EXCEPT !.nh = act.v]
      [] act.k = "prepend" -> IF pa.type = "bgp" THEN [pa EXCEPT !.asp = Rep(act.v, act.n) \o @] ELSE pa
      [] OTHER             -> pa

(* result: [path, term (terminated), reject] *)
RECURSIVE DoActions(_, _, _)
DoActions(acts, i, pa) ==
    IF i > Len(acts) THEN [path |-> pa, term |-> FALSE, reject |-> FALSE]
    ELSE IF acts[i].k = "accept" THEN [path |-> pa, term |-> TRUE, reject |-> FALSE]
    ELSE IF acts[i].k = "reject" THEN [path |-> pa, term |-> TRUE, reject |-> TRUE]
    ELSE DoActions(acts, i + 1, Apply(acts[i], pa))

RECURSIVE DoTerms(_, _, _, _)
DoTerms(terms, i, x, pa) ==
    IF i > Len(terms) THEN [path |-> pa, term |-> FALSE, reject |-> FALSE]
    ELSE IF TermApplies(terms[i], x, pa)
         THEN LET r == DoActions(terms[i].then, 1, pa) IN
              IF r.term THEN r ELSE DoTerms(terms, i + 1, x, r.path)
         ELSE DoTerms(terms, i + 1, x, pa)

RECURSIVE DoFilters(_, _, _, _)
DoFilters(chain, i, x, pa) ==
    IF i > Len(chain) THEN [path |-> pa, term |-> FALSE, reject |-> FALSE]
    ELSE LET r == DoTerms(chain[i], 1, x, pa) IN
         IF r.term THEN r ELSE DoFilters(chain, i + 1, x, r.path)

(* Eval: the first accept or reject ends evaluation; the chain accepts when nothing terminates *)
Eval(chain, x, pa) == LET r == DoFilters(chain, 1, x, pa) IN [path |-> r.path, reject |-> r.reject]

(* convenience constructors *)
RF(pat, m) == [pat |-> pat, m |-> m, min |-> 0, max |-> 0]
RFRange(pat, lo, hi) == [pat |-> pat, m |-> "range", min |-> lo, max |-> hi]
Cond(rfs, pls) == [rfs |-> rfs, pls |-> pls, protos |-> <<>>]
CondProto(ts) == [rfs |-> <<>>, pls |-> <<>>, protos |-> ts]
Act(k) == [k |-> k, v |-> 0, n |-> 0]
ActV(k, v) == [k |-> k, v |-> v, n |-> 0]
ActPrepend(asn, n) == [k |-> "prepend", v |-> asn, n |-> n]
Term(from, then) == [from |-> from, then |-> then]
AcceptAll == << << Term(<<>>, <<Act("accept")>>) >> >>
RejectAll == << << Term(<<>>, <<Act("reject")>>) >> >>
=============================================================================
