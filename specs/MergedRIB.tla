------------------------------ MODULE MergedRIB ------------------------------
(* RIS mirror merged table (routingtable/mergedlocrib).                        *)
(* A route is held in the underlying Loc-RIB exactly while at least one source *)
(* advertises it (property C29).  One action per public call.                  *)
EXTENDS Naturals, Sequences, FiniteSets, TLC, Json

CONSTANTS Sources,   \* e.g. {"s1","s2","s3"}
          Routes,    \* e.g. {"r1","r2","r3"}; the adapter maps them to (prefix, path)
          MaxDepth   \* bound on the length of emitted behaviours

VARIABLES srcs,      \* [Routes -> SUBSET Sources]: who currently advertises the route
          rib,       \* set of routes currently installed in the underlying Loc-RIB
          hist       \* history (behaviour emission only; excluded by VIEW)

vars == <<srcs, rib, hist>>

Init == /\ srcs = [r \in Routes |-> {}]
        /\ rib = {}
        /\ hist = <<>>

Log(a, s, r) == hist' = Append(hist, [a |-> a, src |-> s, r |-> r,
                                      st |-> [srcs |-> srcs', rib |-> rib']])

(* AddRoute(src, r): first advertisement installs the route; a repeated one is *)
(* idempotent (set semantics).                                                 *)
Add(s, r) ==
    /\ srcs' = [srcs EXCEPT ![r] = @ \cup {s}]
    /\ rib' = IF srcs[r] = {} THEN rib \cup {r} ELSE rib
    /\ Log("Add", s, r)

(* RemoveRoute(src, r): removing the last source uninstalls the route; a       *)
(* removal by a source that does not advertise it changes nothing.             *)
Remove(s, r) ==
    /\ srcs' = [srcs EXCEPT ![r] = @ \ {s}]
    /\ rib' = IF srcs[r] # {} /\ srcs[r] \ {s} = {} THEN rib \ {r} ELSE rib
    /\ Log("Remove", s, r)

(* DropAllBySrc(src)                                                            *)
DropAll(s) ==
    /\ srcs' = [r \in Routes |-> srcs[r] \ {s}]
    /\ rib' = rib \ {r \in Routes : srcs[r] # {} /\ srcs[r] \ {s} = {}}
    /\ Log("DropAll", s, "")

Step == \/ \E s \in Sources, r \in Routes : Add(s, r) \/ Remove(s, r)
        \/ \E s \in Sources : DropAll(s)

Next == Len(hist) < MaxDepth /\ Step

(* simulation mode: random behaviours of length MaxDepth, printed once at the end *)
NextSim == IF Len(hist) < MaxDepth THEN Step
           ELSE PrintT("BEH " \o ToJson(hist)) /\ UNCHANGED vars

Spec == Init /\ [][Next]_vars

-----------------------------------------------------------------------------
(* C29 *)
PresentIffAdvertised == rib = {r \in Routes : srcs[r] # {}}
TypeOK == srcs \in [Routes -> SUBSET Sources] /\ rib \subseteq Routes

View == <<srcs, rib>>
Emit == PrintT("BEH " \o ToJson(hist'))
=============================================================================
