----------------------------- MODULE DecisionDefs -----------------------------
(* Pure definitions of the BGP decision process (no variables): path records,  *)
(* the decision key, Cmp and ECMP.  Used by Decision (pairs), LocRIB, Pipeline. *)
(*                                                                             *)
(* A path is a record                                                          *)
(*   [type, lp, aslen, origin, med, ebgp, id, oid, cl, src, nh]                *)
(* cl = -1: CLUSTER_LIST absent, 0: empty, n: n entries.  oid = 0: no          *)
(* ORIGINATOR_ID.  type "bgp" | "static" (static paths only carry nh).         *)
EXTENDS Naturals, Integers, Sequences, FiniteSets, TLC

BGP(lp, aslen, origin, med, ebgp, id, oid, cl, src, nh) ==
    [type |-> "bgp", lp |-> lp, aslen |-> aslen, origin |-> origin, med |-> med, ebgp |-> ebgp,
     id |-> id, oid |-> oid, cl |-> cl, src |-> src, nh |-> nh]
Static(nh) == [type |-> "static", lp |-> 0, aslen |-> 0, origin |-> 0, med |-> 0, ebgp |-> FALSE,
               id |-> 0, oid |-> 0, cl |-> -1, src |-> 0, nh |-> nh]

EffId(a) == IF a.oid # 0 THEN a.oid ELSE a.id
CLLen(a) == IF a.cl < 0 THEN 0 ELSE a.cl
TypeRank(a) == IF a.type = "static" THEN 1 ELSE 2     \* route.StaticPathType = 1, BGPPathType = 2

(* the decision key: smaller is better at every position *)
Key(a) == IF a.type = "static"
          THEN <<0 - TypeRank(a), 0 - a.nh>>                     \* static: the repository prefers the higher next hop
          ELSE <<0 - TypeRank(a), 0 - a.lp, a.aslen, a.origin, a.med, IF a.ebgp THEN 0 ELSE 1,
                 EffId(a), CLLen(a), a.src, 0 - a.nh>>             \* last position: next hop (direction not prescribed)

RECURSIVE LexCmp(_, _, _)
LexCmp(k1, k2, i) == IF i > Len(k1) \/ i > Len(k2) THEN 0
                     ELSE IF k1[i] < k2[i] THEN 1
                     ELSE IF k1[i] > k2[i] THEN -1
                     ELSE LexCmp(k1, k2, i + 1)

(* Cmp(a, b) = 1: a is preferred, -1: b is preferred, 0: indistinguishable *)
Cmp(a, b) == LexCmp(Key(a), Key(b), 1)

(* equal-cost multipath relation *)
ECMP(a, b) == IF a.type = "static" THEN b.type = "static"
              ELSE a.type = b.type /\ a.lp = b.lp /\ a.aslen = b.aslen /\ a.med = b.med /\ a.origin = b.origin

(* the first position where the keys differ, 0 if none (to classify divergences) *)
RECURSIVE FirstDiff(_, _, _)
FirstDiff(k1, k2, i) == IF i > Len(k1) \/ i > Len(k2) THEN 0
                        ELSE IF k1[i] # k2[i] THEN i ELSE FirstDiff(k1, k2, i + 1)
StepName(i) == CASE i = 0 -> "none" [] i = 1 -> "type" [] i = 2 -> "localpref" [] i = 3 -> "aspathlen"
                 [] i = 4 -> "origin" [] i = 5 -> "med" [] i = 6 -> "ebgp" [] i = 7 -> "identifier"
                 [] i = 8 -> "clusterlist" [] i = 9 -> "peeraddr" [] i = 10 -> "nexthop"
DecidingStep(a, b) == IF a.type = "static" /\ b.type = "static"
              THEN (IF a.nh = b.nh THEN "none" ELSE "static-nexthop")
              ELSE StepName(FirstDiff(Key(a), Key(b), 1))

-----------------------------------------------------------------------------

(* insertion into a best-first sequence of path records / names ranked by Cmp on Rec(_) *)
RECURSIVE InsertBy(_, _, _)
InsertBy(Rec(_), seq, x) ==
    IF seq = <<>> THEN <<x>>
    ELSE IF Cmp(Rec(x), Rec(Head(seq))) = 1 THEN <<x>> \o seq
    ELSE <<Head(seq)>> \o InsertBy(Rec, Tail(seq), x)
=============================================================================
