--------------------------------- MODULE SPT ---------------------------------
(* Shortest-path tree (util/dijkstra), property C35.                           *)
(* The graph and the source are the state; Dist is the textbook definition by  *)
(* Bellman-Ford fixpoint.  Init enumerates (or samples) graphs; the expected    *)
(* distances are emitted per graph and compared with Topology.SPT.             *)
EXTENDS Naturals, Integers, Sequences, FiniteSets, TLC, Json, Randomization

CONSTANTS N,        \* number of nodes; nodes are 1..N
          MaxW,     \* weights 0..MaxW; -1 = no edge
          Sample    \* 0 = enumerate all graphs, k > 0 = k random graphs

VARIABLES w,        \* [Pairs -> -1..MaxW]
          src,
          dist      \* Dist evaluated once per case (Init), so that the laws below do not recompute it

Nodes == 1..N
Pairs == (Nodes \X Nodes)          \* self loops included
Inf == 1000000

(* an explicitly evaluated random weight function (a lazy [p \in Pairs |-> RandomElement(..)] would be *)
(* re-drawn at every application)                                                                     *)
RECURSIVE RandFn(_)
RandFn(S) == IF S = {} THEN <<>>
             ELSE LET p == CHOOSE x \in S : TRUE IN (p :> RandomElement(-1..MaxW)) @@ RandFn(S \ {p})

InitG == /\ IF Sample = 0 THEN w \in [Pairs -> -1..MaxW]
                          ELSE \E i \in 1..Sample : w = RandFn(Pairs)
         /\ src \in Nodes
Next == UNCHANGED <<w, src, dist>>

Min(a, b) == IF a < b THEN a ELSE b
SetMin(S) == CHOOSE x \in S : \A y \in S : x <= y

(* TLC keeps [x \in S |-> e] lazy; f @@ <<>> forces one evaluation (otherwise Iter is exponential) *)
Eager(f) == f @@ <<>>

Relax(d) == Eager([n \in Nodes |->
               LET cands == {d[n]} \cup {d[m] + w[<<m, n>>] : m \in {m \in Nodes : w[<<m, n>>] >= 0 /\ d[m] < Inf}}
               IN SetMin(cands)])

RECURSIVE Iter(_, _)
Iter(d, k) == IF k = 0 THEN d ELSE Iter(Relax(d), k - 1)

D0 == [n \in Nodes |-> IF n = src THEN 0 ELSE Inf]
Dist == Iter(D0, N)
Init == InitG /\ dist = Dist

(* reachability by edges, independent of weights *)
RECURSIVE Reach(_, _)
Reach(S, k) == IF k = 0 THEN S ELSE Reach(S \cup {n \in Nodes : \E m \in S : w[<<m, n>>] >= 0}, k - 1)
Reachable == Reach({src}, N)

-----------------------------------------------------------------------------
(* design checks of the definition *)
SourceZero == dist[src] = 0
FiniteIffReachable == \A n \in Nodes : (dist[n] < Inf) <=> (n \in Reachable)
Triangle == \A m, n \in Nodes : (w[<<m, n>>] >= 0 /\ dist[m] < Inf) => dist[n] <= dist[m] + w[<<m, n>>]
(* every finite distance is realised by a predecessor (so it is the length of a real path) *)
Realised == \A n \in Nodes \ {src} : dist[n] < Inf =>
               \E m \in Nodes : w[<<m, n>>] >= 0 /\ dist[m] < Inf /\ dist[n] = dist[m] + w[<<m, n>>]
Fixpoint == Relax(dist) = dist

EmitCase == PrintT("BEH " \o ToJson([a |-> "SPT", n |-> N, src |-> src,
               edges |-> {<<p[1], p[2], w[p]>> : p \in {q \in Pairs : w[q] >= 0}},
               dist |-> [n \in Nodes |-> IF dist[n] < Inf THEN dist[n] ELSE -1]]))
=============================================================================
