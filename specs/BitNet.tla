-------------------------------- MODULE BitNet --------------------------------
(* Bit-level definitions of prefix / address arithmetic (net/prefix.go,        *)
(* net/ip.go), property C15; used by PrefixMap, Policy and the RIB modules.    *)
(*                                                                             *)
(* An address of width W is the set of positions (1 = most significant .. W)   *)
(* whose bit is 1.  A prefix is [bits |-> address, len |-> 0..W]; host bits    *)
(* may be set (Valid says whether they are).                                   *)
EXTENDS Naturals, Integers, FiniteSets, Sequences, TLC, Json

CONSTANTS W,        \* address width: 32 or 128 for case emission, small for the algebra
          Mode,     \* "algebra": all pairs of prefixes of width W;  "cases": the C15 case domain
          KSet      \* "cases": positions of the flipped bit

VARIABLES p, x      \* two prefixes

Pos == 1..W
Prefixes == [bits : SUBSET Pos, len : 0..W]

Min(a, b) == IF a < b THEN a ELSE b
SetMinN(S) == CHOOSE m \in S : \A n \in S : m <= n

-----------------------------------------------------------------------------
(* definitions *)
Agree(a, b, n) == \A i \in 1..n : (i \in a) <=> (i \in b)         \* first n bits equal

(* strict containment, as documented by the repository's tests: a prefix does not contain itself *)
Contains(q, y) == y.len > q.len /\ Agree(q.bits, y.bits, q.len)
Equal(q, y) == q.bits = y.bits /\ q.len = y.len
SamePrefix(q, y) == q.len = y.len /\ Agree(q.bits, y.bits, q.len) \* equal up to host bits
Base(q) == q.bits \cap 1..q.len
Valid(q) == q.bits \subseteq 1..q.len
BitAt(a, pos) == pos \in a
CommonLen(q, y) == LET m == Min(q.len, y.len)
                       D == {i \in 1..m : (i \in q.bits) # (i \in y.bits)}
                   IN IF D = {} THEN m ELSE SetMinN(D) - 1
Incomparable(q, y) == CommonLen(q, y) < Min(q.len, y.len)
Supernet(q, y) == [bits |-> q.bits \cap 1..CommonLen(q, y), len |-> CommonLen(q, y)]
(* numeric order of addresses = order of the most significant differing bit *)
Cmp(a, b) == IF a = b THEN 0
             ELSE LET d == SetMinN((a \ b) \cup (b \ a)) IN IF d \in a THEN 1 ELSE -1

(* 16-bit words of an address, most significant first (compact JSON for wide addresses) *)
RECURSIVE Pow2(_)
Pow2(n) == IF n = 0 THEN 1 ELSE 2 * Pow2(n - 1)
RECURSIVE SumBits(_, _, _)
SumBits(a, j, i) == IF i > 16 THEN 0
                    ELSE (IF (16 * (j - 1) + i) \in a THEN Pow2(16 - i) ELSE 0) + SumBits(a, j, i + 1)
Words(a) == [j \in 1..(W \div 16) |-> SumBits(a, j, 1)]

-----------------------------------------------------------------------------
Pattern(n) == CASE n = "zeros" -> {}
                [] n = "ones" -> Pos
                [] n = "alt" -> {i \in Pos : i % 2 = 1}
                [] n = "alt2" -> {i \in Pos : i % 2 = 0}

Flip(a, k) == IF k \in a THEN a \ {k} ELSE a \cup {k}

Init ==
    IF Mode = "algebra"
    THEN p \in Prefixes /\ x \in Prefixes
    ELSE \E pat \in {"zeros", "ones", "alt", "alt2"}, lp \in 0..W, k \in KSet :
           \E lx \in {lp, Min(lp + 1, W), W} \cup (IF lp > 0 THEN {lp - 1} ELSE {}) :
              /\ p = [bits |-> Pattern(pat), len |-> lp]
              /\ x = [bits |-> Flip(Pattern(pat), k), len |-> lx]
Next == UNCHANGED <<p, x>>

-----------------------------------------------------------------------------
(* the algebra (checked exhaustively for small W) *)
ContainsIrreflexive == ~Contains(p, p)
ContainsAntisym == ~(Contains(p, x) /\ Contains(x, p))
ContainsTransitive == \A z \in Prefixes : Contains(p, x) /\ Contains(x, z) => Contains(p, z)
ContainsIgnoresHostBits == Contains(p, x) <=> Contains([p EXCEPT !.bits = Base(p)], [x EXCEPT !.bits = Base(x)])
TrichotomyOrIncomparable ==
    \/ Contains(p, x) \/ Contains(x, p) \/ SamePrefix(p, x) \/ Incomparable(p, x)
ExactlyOne == Cardinality({i \in 1..4 : CASE i = 1 -> Contains(p, x) [] i = 2 -> Contains(x, p)
                                          [] i = 3 -> SamePrefix(p, x) [] i = 4 -> Incomparable(p, x)}) = 1
(* the supernet of incomparable prefixes is their meet *)
SupernetIsMeet ==
    Incomparable(p, x) =>
      LET s == Supernet(p, x) IN
        /\ Valid(s) /\ Contains(s, p) /\ Contains(s, x) /\ Supernet(x, p) = s
        /\ \A z \in Prefixes : (Contains(z, p) /\ Contains(z, x)) => (Contains(z, s) \/ SamePrefix(z, s))
BaseLaws == /\ Valid([p EXCEPT !.bits = Base(p)])
            /\ (Valid(p) <=> Base(p) = p.bits)
            /\ SamePrefix(p, [p EXCEPT !.bits = Base(p)])
CmpLaws == /\ Cmp(p.bits, x.bits) = -Cmp(x.bits, p.bits)
           /\ (Cmp(p.bits, x.bits) = 0 <=> p.bits = x.bits)
           /\ \A z \in Prefixes : (Cmp(p.bits, x.bits) >= 0 /\ Cmp(x.bits, z.bits) >= 0) => Cmp(p.bits, z.bits) >= 0

-----------------------------------------------------------------------------
(* case emission *)
PJ(q) == [w |-> Words(q.bits), len |-> q.len]
EmitCase ==
    Mode = "cases" =>
    PrintT("BEH " \o ToJson([a |-> "Pair", width |-> W, p |-> PJ(p), x |-> PJ(x),
        cpx |-> Contains(p, x), cxp |-> Contains(x, p), eq |-> Equal(p, x),
        inc |-> Incomparable(p, x),
        sup |-> IF Incomparable(p, x) THEN PJ(Supernet(p, x)) ELSE PJ([bits |-> {}, len |-> 0]),
        basep |-> Words(Base(p)), basex |-> Words(Base(x)),
        validp |-> Valid(p), validx |-> Valid(x),
        cmp |-> Cmp(p.bits, x.bits)]))
=============================================================================
