-------------------------------- MODULE ApiConv --------------------------------
(* API route conversion (route.Route/Path/BGPPath ToProto and                  *)
(* RouteFromProtoRoute), property C34.  A path is a record of field CLASSES    *)
(* (absent / empty / non-empty lists, zero / non-zero scalars); ApiFields is   *)
(* what the API schema has a field for, with nil and empty lists identified.   *)
EXTENDS Naturals, Sequences, FiniteSets, TLC, Json

CONSTANTS Mode,      \* "near": every record differing from Base in at most 2 fields;  "random": Sample random records
          Sample

VARIABLES p

Dom == [ type   |-> <<"bgp", "static">>,
         nh     |-> <<1, 2>>,
         lp     |-> <<0, 100>>,
         asp    |-> <<"nil", "empty", "seq", "seqset">>,
         origin |-> <<0, 2>>,
         med    |-> <<0, 7>>,
         ebgp   |-> <<FALSE, TRUE>>,
         id     |-> <<0, 9>>,
         src    |-> <<0, 3>>,
         comm   |-> <<"nil", "empty", "two">>,
         lcomm  |-> <<"nil", "empty", "two">>,
         oid    |-> <<0, 5>>,
         cl     |-> <<"nil", "empty", "one", "two">>,
         unk    |-> <<"nil", "one", "two">>,
         pid    |-> <<0, 3>>,
         post   |-> <<FALSE, TRUE>>,
         otc    |-> <<0, 65001>>,
         hidden |-> <<0, 1, 2, 3, 4, 5, 6, 7>> ]
Fields == DOMAIN Dom
Base == [f \in Fields |-> Dom[f][1]]
Vals(f) == {Dom[f][i] : i \in 1..Len(Dom[f])}

Near == UNION {UNION {{[Base EXCEPT ![f] = v, ![g] = w] : v \in Vals(f), w \in Vals(g)} : g \in Fields} : f \in Fields}
RECURSIVE RandRec(_)
RandRec(S) == IF S = {} THEN <<>>
              ELSE LET f == CHOOSE x \in S : TRUE IN (f :> RandomElement(Vals(f))) @@ RandRec(S \ {f})

Init == IF Mode = "near" THEN p \in Near ELSE \E i \in 1..Sample : p = RandRec(Fields)
Next == UNCHANGED p

(* nil and empty lists are the same thing in the API (a repeated field) *)
L(v) == IF v = "nil" THEN "empty" ELSE v
ApiFields(q) ==
    IF q.type = "static" THEN [type |-> "static", nh |-> q.nh]
    ELSE [type |-> "bgp", nh |-> q.nh, lp |-> q.lp, asp |-> L(q.asp), origin |-> q.origin, med |-> q.med, ebgp |-> q.ebgp,
          id |-> q.id, src |-> q.src, comm |-> L(q.comm), lcomm |-> L(q.lcomm), oid |-> q.oid, cl |-> L(q.cl), unk |-> L(q.unk),
          pid |-> q.pid, post |-> q.post, otc |-> q.otc]

(* laws *)
ApiFieldsIdempotentOnLists == \A f \in {"asp", "comm", "lcomm", "cl", "unk"} : p.type = "bgp" => ApiFields(p)[f] # "nil"
StaticCarriesOnlyNextHop == p.type = "static" => DOMAIN ApiFields(p) = {"type", "nh"}

EmitCase == PrintT("BEH " \o ToJson([a |-> "Conv", p |-> p, api |-> ApiFields(p), hidden |-> p.hidden # 0]))
=============================================================================
