-------------------------------- MODULE WireRx --------------------------------
(* Structured input space for the BGP message decoder (protocols/bgp/packet    *)
(* Decode), property C16: decoding is total and bounded.  The module is a wire *)
(* grammar: a dozen valid messages written field by field (so that every       *)
(* length field, prefix length and count is a known position), and mutation    *)
(* classes applied to them; TLC enumerates message x mutation x decode options *)
(* and emits the resulting bytes.                                              *)
EXTENDS Naturals, Sequences, FiniteSets, TLC, Json

CONSTANTS Msgs,      \* subset of DOMAIN Base
          Muts,      \* subset of {"none", "trunc", "byte", "grow", "lenfield"}
          ByteVals,  \* values written by the "byte" mutation
          OptSets    \* subset of 0..15: bit 0 add-path IPv4, bit 1 add-path IPv6, bit 2 4-octet ASN, bit 3 extended next hop

VARIABLES c, bytes

RECURSIVE Rep(_, _)
Rep(v, n) == IF n = 0 THEN <<>> ELSE <<v>> \o Rep(v, n - 1)
U16(n) == <<n \div 256, n % 256>>
U32(n) == <<0, 0, n \div 256, n % 256>>
RECURSIVE Cat(_)
Cat(ss) == IF ss = <<>> THEN <<>> ELSE Head(ss) \o Cat(Tail(ss))

Hdr(type, body) == Rep(255, 16) \o U16(19 + Len(body)) \o <<type>> \o body
Attr(flags, type, v) == IF Len(v) > 255 THEN <<flags + 16, type>> \o U16(Len(v)) \o v ELSE <<flags, type, Len(v)>> \o v
Update(wd, attrs, nlri) == Hdr(2, U16(Len(wd)) \o wd \o U16(Len(attrs)) \o attrs \o nlri)

Origin == Attr(64, 1, <<0>>)
ASPath4 == Attr(64, 2, <<2, 2>> \o U32(65001) \o U32(65002) \o <<1, 1>> \o U32(65003))     \* AS_SEQUENCE + AS_SET, 4-octet
ASPath2 == Attr(64, 2, <<2, 2>> \o U16(65001) \o U16(65002))
NextHop == Attr(64, 3, <<10, 0, 0, 1>>)
MED == Attr(128, 4, U32(77))
LocalPref == Attr(64, 5, U32(100))
Atomic == Attr(64, 6, <<>>)
Aggregator == Attr(192, 7, U16(65001) \o <<10, 0, 0, 9>>)
Communities == Attr(192, 8, U32(1) \o <<255, 255, 255, 1>>)
OriginatorID == Attr(128, 9, U32(9))
ClusterList == Attr(128, 10, U32(1) \o U32(2))
LargeComm == Attr(192, 32, U32(1) \o U32(2) \o U32(3))
OTC == Attr(192, 35, U32(65001))
Unknown == Attr(192, 99, Rep(7, 5))
UnknownLong == Attr(192, 100, Rep(9, 300))
V6NextHop == <<32, 1, 13, 184>> \o Rep(0, 11) \o <<1>>
MPReach6 == Attr(128, 14, <<0, 2, 1, 16>> \o V6NextHop \o <<0>> \o <<48, 32, 1, 13, 184, 0, 1>> \o <<64, 32, 1, 13, 184, 0, 2, 0, 3>>)
MPReach6AP == Attr(128, 14, <<0, 2, 1, 16>> \o V6NextHop \o <<0>> \o U32(7) \o <<48, 32, 1, 13, 184, 0, 1>>)
MPUnreach6 == Attr(128, 15, <<0, 2, 1>> \o <<48, 32, 1, 13, 184, 0, 1>>)
MPReach4 == Attr(128, 14, <<0, 1, 1, 4, 10, 0, 0, 1, 0>> \o <<24, 10, 1, 2>>)

Cap(code, v) == <<code, Len(v)>> \o v
Caps == Cat(<< Cap(1, <<0, 1, 0, 1>>), Cap(1, <<0, 2, 0, 1>>), Cap(65, U32(65001)), Cap(69, <<0, 1, 1, 3, 0, 2, 1, 3>>),
               Cap(9, <<3>>), Cap(5, <<0, 1, 0, 1, 0, 2>>), Cap(70, <<>>), Cap(200, <<1, 2, 3>>) >>)
Open(caps) == Hdr(1, <<4>> \o U16(65001) \o U16(90) \o <<10, 0, 0, 1>> \o
                     (IF caps = <<>> THEN <<0>> ELSE <<Len(caps) + 2, 2, Len(caps)>> \o caps))

Base == [ keepalive  |-> Hdr(4, <<>>),
          notif      |-> Hdr(3, <<6, 2, 1, 2, 3>>),
          open       |-> Open(Caps),
          openNoCaps |-> Open(<<>>),
          updV4      |-> Update(<<16, 10, 9>>, Cat(<<Origin, ASPath4, NextHop, MED, LocalPref, Communities>>), <<24, 10, 1, 2>> \o <<32, 10, 1, 2, 3>> \o <<0>>),
          updV4as2   |-> Update(<<>>, Cat(<<Origin, ASPath2, NextHop>>), <<8, 10>>),
          updV4ap    |-> Update(U32(1) \o <<16, 10, 9>>, Cat(<<Origin, ASPath4, NextHop>>), U32(2) \o <<24, 10, 1, 2>>),
          updAllAttr |-> Update(<<>>, Cat(<<Origin, ASPath4, NextHop, MED, LocalPref, Atomic, Aggregator, Communities, OriginatorID, ClusterList,
                                           LargeComm, OTC, Unknown>>), <<24, 10, 1, 2>>),
          updLong    |-> Update(<<>>, Cat(<<Origin, ASPath4, NextHop, UnknownLong>>), <<24, 10, 1, 2>>),
          updV6      |-> Update(<<>>, Cat(<<MPReach6, Origin, ASPath4>>), <<>>),
          updV6ap    |-> Update(<<>>, Cat(<<MPReach6AP, Origin, ASPath4>>), <<>>),
          updV6wd    |-> Update(<<>>, MPUnreach6, <<>>),
          updMP4     |-> Update(<<>>, Cat(<<MPReach4, Origin, ASPath4>>), <<>>),
          eor        |-> Update(<<>>, <<>>, <<>>) ]

-----------------------------------------------------------------------------
SubSeqSafe(s, a, b) == IF b < a THEN <<>> ELSE SubSeq(s, a, b)
Truncate(s, k) == SubSeqSafe(s, 1, k)
SetByte(s, k, v) == [s EXCEPT ![k] = v]
(* the header announces k more bytes than the message has; the adapter may or may not supply them (zero filled) *)
Grow(s, k) == LET n == Len(s) + k IN [s EXCEPT ![17] = n \div 256, ![18] = n % 256] \o Rep(0, k)

LenOf == [m \in DOMAIN Base |-> Len(Base[m])] @@ <<>>
BaseOf == Base @@ <<>>

Cases == UNION { { [msg |-> m, mut |-> "none", k |-> 0, v |-> 0] : x \in IF "none" \in Muts THEN {1} ELSE {} }
                 \cup { [msg |-> m, mut |-> "trunc", k |-> k, v |-> 0] : k \in IF "trunc" \in Muts THEN 0..(LenOf[m] - 1) ELSE {} }
                 \cup { [msg |-> m, mut |-> "byte", k |-> kv[1], v |-> kv[2]] :
                           kv \in IF "byte" \in Muts THEN (1..LenOf[m]) \X ByteVals ELSE {} }
                 \cup { [msg |-> m, mut |-> "grow", k |-> k, v |-> 0] : k \in IF "grow" \in Muts THEN {1, 2, 7, 300, 4000} ELSE {} }
               : m \in Msgs }

Bytes(x) == LET b == BaseOf[x.msg] IN
            CASE x.mut = "none" -> b
              [] x.mut = "trunc" -> Truncate(b, x.k)
              [] x.mut = "byte" -> SetByte(b, x.k, x.v)
              [] x.mut = "grow" -> Grow(b, x.k)

Init == c \in Cases \X OptSets /\ bytes = Bytes(c[1])
Next == UNCHANGED <<c, bytes>>

(* laws of the grammar: every base message is framed correctly and within 4096 bytes; mutations stay bytes *)
WellFramed == LET n == LenOf[c[1].msg] IN n >= 19 /\ n <= 4096 /\ (c[1].mut = "none" => bytes[17] * 256 + bytes[18] = n)
IsBytes == \A i \in 1..Len(bytes) : bytes[i] \in 0..255

EmitCase == PrintT("BEH " \o ToJson([a |-> "Decode", msg |-> c[1].msg, mut |-> c[1].mut, k |-> c[1].k, v |-> c[1].v, opts |-> c[2],
                                     bytes |-> bytes]))
=============================================================================
