-------------------------------- MODULE WireRx --------------------------------
(* Structured input space for the BGP message decoder (protocols/bgp/packet    *)
(* Decode), property C16: decoding is total and bounded.  The module is a wire *)
(* grammar: a dozen valid messages written field by field (so that every       *)
(* length field, prefix length and count is a known position), and mutation    *)
(* classes applied to them; TLC enumerates message x mutation x decode options *)
(* and emits the resulting bytes.                                              *)
EXTENDS Naturals, Sequences, FiniteSets, TLC, Json

CONSTANTS Msgs,      \* subset of DOMAIN Base
          Muts,      \* subset of {"none", "trunc", "cutfix", "byte", "grow", "attrtrunc", "nlritrunc", "captrunc"}
          ByteVals,  \* values written by the "byte" mutation
          OptSets    \* subset of 0..15: bit 0 add-path IPv4, bit 1 add-path IPv6, bit 2 4-octet ASN, bit 3 extended next hop

VARIABLES c, bytes

RECURSIVE Rep(_, _)
Rep(v, n) == IF n = 0 THEN <<>> ELSE <<v>> \o Rep(v, n - 1)
U16(n) == <<n \div 256, n % 256>>
U32(n) == <<0, 0, n \div 256, n % 256>>
RECURSIVE Cat(_)
Cat(ss) == IF ss = <<>> THEN <<>> ELSE Head(ss) \o Cat(Tail(ss))

Hdr(type, body) == Rep(255, 16) \o U16(19 + Len(body)) \o <<type>> \o body
Attr(flags, type, v) == IF Len(v) > 255 THEN <<flags + 16, type>> \o U16(Len(v)) \o v ELSE <<flags, type, Len(v)>> \o v
Update(wd, attrs, nlri) == Hdr(2, U16(Len(wd)) \o wd \o U16(Len(attrs)) \o attrs \o nlri)

(* attributes as <<flags, type, value>>; the encoder adds the length (extended length for values over 255 bytes) *)
A(flags, type, v) == <<flags, type, v>>
Enc(a) == Attr(a[1], a[2], a[3])
RECURSIVE EncAll(_)
EncAll(as) == IF as = <<>> THEN <<>> ELSE Enc(Head(as)) \o EncAll(Tail(as))

Origin == A(64, 1, <<0>>)
ASPath4 == A(64, 2, <<2, 2>> \o U32(65001) \o U32(65002) \o <<1, 1>> \o U32(65003))     \* AS_SEQUENCE + AS_SET, 4-octet
ASPath2 == A(64, 2, <<2, 2>> \o U16(65001) \o U16(65002))
NextHop == A(64, 3, <<10, 0, 0, 1>>)
MED == A(128, 4, U32(77))
LocalPref == A(64, 5, U32(100))
Atomic == A(64, 6, <<>>)
Aggregator == A(192, 7, U16(65001) \o <<10, 0, 0, 9>>)
Communities == A(192, 8, U32(1) \o <<255, 255, 255, 1>>)
OriginatorID == A(128, 9, U32(9))
ClusterList == A(128, 10, U32(1) \o U32(2))
LargeComm == A(192, 32, U32(1) \o U32(2) \o U32(3))
OTC == A(192, 35, U32(65001))
AS4Path == A(192, 17, <<2, 1>> \o U32(65010))
AS4Aggr == A(192, 18, U32(65001) \o <<10, 0, 0, 9>>)
Unknown == A(192, 99, Rep(7, 5))
UnknownLong == A(192, 100, Rep(9, 300))
V6NextHop == <<32, 1, 13, 184>> \o Rep(0, 11) \o <<1>>
V6LinkLocal == <<254, 128>> \o Rep(0, 13) \o <<1>>
MPReach6 == A(128, 14, <<0, 2, 1, 16>> \o V6NextHop \o <<0>> \o <<48, 32, 1, 13, 184, 0, 1>> \o <<64, 32, 1, 13, 184, 0, 2, 0, 3>>)
MPReach6LL == A(128, 14, <<0, 2, 1, 32>> \o V6NextHop \o V6LinkLocal \o <<0>> \o <<48, 32, 1, 13, 184, 0, 1>>)   \* global + link-local next hop
MPReach6AP == A(128, 14, <<0, 2, 1, 16>> \o V6NextHop \o <<0>> \o U32(7) \o <<48, 32, 1, 13, 184, 0, 1>>)
MPUnreach6 == A(128, 15, <<0, 2, 1>> \o <<48, 32, 1, 13, 184, 0, 1>>)
MPReach4 == A(128, 14, <<0, 1, 1, 4, 10, 0, 0, 1, 0>> \o <<24, 10, 1, 2>>)
MPUnreach4 == A(128, 15, <<0, 1, 1>> \o <<24, 10, 1, 2>> \o <<16, 10, 9>>)
(* labeled unicast (SAFI 4): prefix length counts the 24 label bits; two labels, the second with bottom-of-stack *)
MPReach6LU == A(128, 14, <<0, 2, 4, 16>> \o V6NextHop \o <<0>> \o <<96, 0, 1, 0, 0, 2, 1, 32, 1, 13, 184, 0, 1>>)
MPUnreach6LU == A(128, 15, <<0, 2, 4>> \o <<72, 128, 0, 0, 32, 1, 13, 184, 0, 1>>)
MPReach4LU == A(128, 14, <<0, 1, 4, 4, 10, 0, 0, 1, 0>> \o <<48, 0, 1, 1, 10, 1, 2>>)

Cap(code, v) == <<code, Len(v)>> \o v
C(code, v) == <<code, v>>
RECURSIVE EncCaps(_)
EncCaps(cs) == IF cs = <<>> THEN <<>> ELSE Cap(Head(cs)[1], Head(cs)[2]) \o EncCaps(Tail(cs))
CapList == << C(1, <<0, 1, 0, 1>>), C(1, <<0, 2, 0, 1>>), C(65, U32(65001)), C(69, <<0, 1, 1, 3, 0, 2, 1, 3>>),
              C(9, <<3>>), C(5, <<0, 1, 0, 1, 0, 2>>), C(70, <<>>), C(200, <<1, 2, 3>>) >>
Open(caps) == Hdr(1, <<4>> \o U16(65001) \o U16(90) \o <<10, 0, 0, 1>> \o
                     (IF caps = <<>> THEN <<0>> ELSE <<Len(caps) + 2, 2, Len(caps)>> \o caps))

(* UPDATEs as structures: withdrawn routes, attribute list, NLRI *)
Upd(wd, attrs, nlri) == [wd |-> wd, attrs |-> attrs, nlri |-> nlri]
UpdDef == [ updV4      |-> Upd(<<16, 10, 9>>, <<Origin, ASPath4, NextHop, MED, LocalPref, Communities>>, <<24, 10, 1, 2>> \o <<32, 10, 1, 2, 3>> \o <<0>>),
            updV4as2   |-> Upd(<<>>, <<Origin, ASPath2, NextHop>>, <<8, 10>>),
            updV4ap    |-> Upd(U32(1) \o <<16, 10, 9>>, <<Origin, ASPath4, NextHop>>, U32(2) \o <<24, 10, 1, 2>>),
            updAllAttr |-> Upd(<<>>, <<Origin, ASPath4, NextHop, MED, LocalPref, Atomic, Aggregator, Communities, OriginatorID, ClusterList,
                                      LargeComm, OTC, AS4Path, AS4Aggr, Unknown>>, <<24, 10, 1, 2>>),
            updLong    |-> Upd(<<>>, <<Origin, ASPath4, NextHop, UnknownLong>>, <<24, 10, 1, 2>>),
            updV6      |-> Upd(<<>>, <<MPReach6, Origin, ASPath4>>, <<>>),
            updV6ll    |-> Upd(<<>>, <<MPReach6LL, Origin, ASPath4>>, <<>>),
            updV6ap    |-> Upd(<<>>, <<MPReach6AP, Origin, ASPath4>>, <<>>),
            updV6wd    |-> Upd(<<>>, <<MPUnreach6>>, <<>>),
            updMP4     |-> Upd(<<>>, <<MPReach4, Origin, ASPath4>>, <<>>),
            updMP4wd   |-> Upd(<<>>, <<MPUnreach4>>, <<>>),
            updV6lu    |-> Upd(<<>>, <<MPReach6LU, Origin, ASPath4>>, <<>>),
            updV6luwd  |-> Upd(<<>>, <<MPUnreach6LU>>, <<>>),
            updV4lu    |-> Upd(<<>>, <<MPReach4LU, Origin, ASPath4>>, <<>>),
            eor        |-> Upd(<<>>, <<>>, <<>>) ]
EncUpd(u) == Update(u.wd, EncAll(u.attrs), u.nlri)

Base == [ m \in DOMAIN UpdDef |-> EncUpd(UpdDef[m]) ] @@
        [ keepalive  |-> Hdr(4, <<>>),
          notif      |-> Hdr(3, <<6, 2, 1, 2, 3>>),
          open       |-> Open(EncCaps(CapList)),
          openNoCaps |-> Open(<<>>) ]

-----------------------------------------------------------------------------
SubSeqSafe(s, a, b) == IF b < a THEN <<>> ELSE SubSeq(s, a, b)
Truncate(s, k) == SubSeqSafe(s, 1, k)
SetByte(s, k, v) == [s EXCEPT ![k] = v]
(* the header announces k more bytes than the message has; the adapter may or may not supply them (zero filled) *)
Grow(s, k) == LET n == Len(s) + k IN [s EXCEPT ![17] = n \div 256, ![18] = n % 256] \o Rep(0, k)

LenOf == [m \in DOMAIN Base |-> Len(Base[m])] @@ <<>>
BaseOf == Base @@ <<>>

(* truncate the message and make the header agree (what is inside then announces more than there is) *)
CutFix(s, k) == LET t == Truncate(s, k) IN [t EXCEPT ![17] = k \div 256, ![18] = k % 256]
(* structural truncations: ONE field is shorter than its content expects, all enclosing lengths are right *)
ReplaceAt(seq, i, x) == [seq EXCEPT ![i] = x]
AttrTrunc(u, i, n) == EncUpd([u EXCEPT !.attrs = ReplaceAt(@, i, A(@[i][1], @[i][2], Truncate(@[i][3], n)))])
NlriTrunc(u, n) == EncUpd([u EXCEPT !.nlri = Truncate(@, n)])
WdTrunc(u, n) == EncUpd([u EXCEPT !.wd = Truncate(@, n)])
CapTrunc(i, n) == Open(EncCaps(ReplaceAt(CapList, i, C(CapList[i][1], Truncate(CapList[i][2], n)))))

IsUpd(m) == m \in DOMAIN UpdDef
Case(m, mut, k, v) == [msg |-> m, mut |-> mut, k |-> k, v |-> v]
Cases == UNION { { Case(m, "none", 0, 0) : x \in IF "none" \in Muts THEN {1} ELSE {} }
                 \cup { Case(m, "trunc", k, 0) : k \in IF "trunc" \in Muts THEN 0..(LenOf[m] - 1) ELSE {} }
                 \cup { Case(m, "cutfix", k, 0) : k \in IF "cutfix" \in Muts THEN 19..(LenOf[m] - 1) ELSE {} }
                 \cup { Case(m, "byte", kv[1], kv[2]) : kv \in IF "byte" \in Muts THEN (1..LenOf[m]) \X ByteVals ELSE {} }
                 \cup { Case(m, "grow", k, 0) : k \in IF "grow" \in Muts THEN {1, 2, 7, 300, 4000} ELSE {} }
                 \cup (IF "attrtrunc" \in Muts /\ IsUpd(m)
                       THEN UNION { { Case(m, "attrtrunc", i, n) : n \in 0..(Len(UpdDef[m].attrs[i][3]) - 1) } : i \in 1..Len(UpdDef[m].attrs) }
                       ELSE {})
                 \cup (IF "nlritrunc" \in Muts /\ IsUpd(m)
                       THEN { Case(m, "nlritrunc", n, 0) : n \in 0..(Len(UpdDef[m].nlri) - 1) } \cup { Case(m, "wdtrunc", n, 0) : n \in 0..(Len(UpdDef[m].wd) - 1) }
                       ELSE {})
                 \cup (IF "captrunc" \in Muts /\ m = "open"
                       THEN UNION { { Case(m, "captrunc", i, n) : n \in 0..(Len(CapList[i][2]) - 1) } : i \in 1..Len(CapList) }
                       ELSE {})
               : m \in Msgs }

Bytes(x) == LET b == BaseOf[x.msg] IN
            CASE x.mut = "none" -> b
              [] x.mut = "trunc" -> Truncate(b, x.k)
              [] x.mut = "cutfix" -> CutFix(b, x.k)
              [] x.mut = "byte" -> SetByte(b, x.k, x.v)
              [] x.mut = "grow" -> Grow(b, x.k)
              [] x.mut = "attrtrunc" -> AttrTrunc(UpdDef[x.msg], x.k, x.v)
              [] x.mut = "nlritrunc" -> NlriTrunc(UpdDef[x.msg], x.k)
              [] x.mut = "wdtrunc" -> WdTrunc(UpdDef[x.msg], x.k)
              [] x.mut = "captrunc" -> CapTrunc(x.k, x.v)

Init == c \in Cases \X OptSets /\ bytes = Bytes(c[1])
Next == UNCHANGED <<c, bytes>>

(* laws of the grammar: every base message is framed correctly and within 4096 bytes; mutations stay bytes *)
WellFramed == LET n == LenOf[c[1].msg] IN n >= 19 /\ n <= 4096 /\ (c[1].mut = "none" => bytes[17] * 256 + bytes[18] = n)
(* the structural truncations keep the outer framing right *)
OuterFramed == c[1].mut \in {"cutfix", "attrtrunc", "nlritrunc", "wdtrunc", "captrunc"} => bytes[17] * 256 + bytes[18] = Len(bytes)
IsBytes == \A i \in 1..Len(bytes) : bytes[i] \in 0..255

EmitCase == PrintT("BEH " \o ToJson([a |-> "Decode", msg |-> c[1].msg, mut |-> c[1].mut, k |-> c[1].k, v |-> c[1].v, opts |-> c[2],
                                     bytes |-> bytes]))
=============================================================================
