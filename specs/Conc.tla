-------------------------------- MODULE Conc --------------------------------
(* Lock discipline of the RIB pipeline and of session control (property C25).  *)
(* Goroutines run public operations at the same time; an operation is the      *)
(* sequence of lock / channel steps it takes in the code                       *)
(*   routingtable/locRIB/loc_rib.go      L  (LocRIB.mu, RW)                    *)
(*   routingtable/client_manager.go      CM (ClientManager.mu of the Loc-RIB)  *)
(*   routingtable/adjRIBOut              A1, A2 (AdjRIBOut.mu per session)     *)
(*   routingtable/adjRIBIn               I  (AdjRIBIn.mu)                      *)
(*   protocols/bgp/server/peer.go        F  (peer.fsmsMu), ev (FSM.eventCh)    *)
(* Go's RWMutex prefers writers: once a writer has announced itself, new       *)
(* readers wait.  Discipline = "original" is the code as found (two lock-order *)
(* inversions and a lock that is never released), "fixed" the code after the   *)
(* repairs; TLC shows the first to deadlock and the second to be free of it.   *)
(* A scenario (which operations run concurrently) is an initial state; the     *)
(* harness runs every scenario on the real objects under a watchdog.           *)
EXTENDS Naturals, Sequences, FiniteSets, TLC, Json

CONSTANTS Ops,         \* operations used in this run (subset of DOMAIN Code)
          NProcs,      \* goroutines
          Discipline   \* "original" | "fixed"

VARIABLES prog,        \* [Procs -> operation name]
          pc,          \* [Procs -> index of the next instruction]
          writer,      \* [Locks -> holder of the write lock or 0]
          readers,     \* [Locks -> set of holders of the read lock]
          pendW        \* [Locks -> set of writers that have announced themselves]
vars == <<prog, pc, writer, readers, pendW>>

Procs == 1..NProcs
Locks == {"L", "CM", "A1", "A2", "I", "F", "CMX"}
W(l) == <<"acqW", l>>
R(l) == <<"acqR", l>>
U(l) == <<"rel", l>>

(* Loc-RIB AddPath / RemovePath: table lock, then every client (the sessions' Adj-RIB-Out) *)
ToClients == <<R("CM"), U("CM"), W("A1"), U("A1"), W("A2"), U("A2")>>
LocChange == <<W("L")>> \o ToClients \o <<U("L")>>
ExportReplace(a) == IF Discipline = "original"
                    THEN <<W(a), R("L"), U("L"), U(a)>>          \* AdjRIBOut.ReplaceFilterChain: own lock, then LocRIB.RefreshClient
                    ELSE <<R("L"), W(a), U(a), U("L")>>          \* table first, client second (LocRIB.RefreshClientSynchronized)
Register(a) == <<W("CM"), U("CM"), R("L"), R("CM"), U("CM"), W(a), U(a), U("L")>>   \* RegisterWithOptions + UpdateNewClient

Code == [
  churn    |-> LocChange,                                                  \* LocRIB.AddPath / RemovePath
  inchurn  |-> <<W("I")>> \o LocChange \o <<U("I")>>,                       \* AdjRIBIn.AddPath / RemovePath (a session learns / loses a route)
  imp      |-> <<W("I")>> \o LocChange \o LocChange \o <<U("I")>>,          \* AdjRIBIn.ReplaceFilterChain: re-evaluates every route
  exp1     |-> ExportReplace("A1"),
  exp2     |-> ExportReplace("A2"),
  rereg1   |-> <<W("CM"), U("CM")>> \o Register("A1"),                      \* Unregister + Register of a session's Adj-RIB-Out
  rereg2   |-> <<W("CM"), U("CM")>> \o Register("A2"),
  dump     |-> <<R("L"), U("L"), R("A1"), U("A1"), R("I"), U("I")>>,
  unreg    |-> <<W("CM"), U("CM"), R("I"), U("I"), R("A1"), U("A1")>>,      \* Unregister of a client that is not registered, at every table
  \* an FSM that is not taking events for a while (reconnect pause) with a Cease already waiting for it, then peer.stop
  fsmcease |-> << <<"recv", "ev">> >>,
  \* a ClientManager at its end of life: Dispose, then a late registration
  cmlate   |-> IF Discipline = "original" THEN <<W("CMX")>> ELSE <<W("CMX"), U("CMX")>>,   \* RegisterWithOptions returned with the lock held
  cmuse    |-> <<R("CMX"), U("CMX")>>,                                      \* ClientCount / Clients / Unregister afterwards
  \* session control: peer.stop sends ManualStop to every FSM; an FSM handling an OPEN runs the collision check under fsmsMu
  stop     |-> IF Discipline = "original" THEN <<W("F"), <<"send", "ev">>, U("F")>> ELSE <<W("F"), U("F"), <<"send", "ev">>>>,
  fsmopen  |-> <<W("F"), U("F"), <<"recv", "ev">>>>,
  fsmidle  |-> << <<"recv", "ev">> >> ]

ASSUME Ops \subseteq DOMAIN Code

Instr(p) == Code[prog[p]][pc[p]]
Done(p) == pc[p] > Len(Code[prog[p]])

(* scenarios: which operations run at the same time (an operation may run in several goroutines) *)
Init == /\ prog \in [Procs -> Ops]
        /\ pc = [p \in Procs |-> 1]
        /\ writer = [l \in Locks |-> 0] /\ readers = [l \in Locks |-> {}] /\ pendW = [l \in Locks |-> {}]

Advance(p) == pc' = [pc EXCEPT ![p] = @ + 1]

Announce(p) == /\ ~Done(p) /\ Instr(p)[1] = "acqW" /\ p \notin pendW[Instr(p)[2]]
               /\ pendW' = [pendW EXCEPT ![Instr(p)[2]] = @ \cup {p}]
               /\ UNCHANGED <<prog, pc, writer, readers>>
AcqW(p) == LET l == Instr(p)[2] IN
           /\ ~Done(p) /\ Instr(p)[1] = "acqW" /\ p \in pendW[l]
           /\ writer[l] = 0 /\ readers[l] = {}
           /\ writer' = [writer EXCEPT ![l] = p] /\ pendW' = [pendW EXCEPT ![l] = @ \ {p}]
           /\ Advance(p) /\ UNCHANGED <<prog, readers>>
AcqR(p) == LET l == Instr(p)[2] IN
           /\ ~Done(p) /\ Instr(p)[1] = "acqR"
           /\ writer[l] = 0 /\ pendW[l] = {}                                \* writer preference
           /\ readers' = [readers EXCEPT ![l] = @ \cup {p}]
           /\ Advance(p) /\ UNCHANGED <<prog, writer, pendW>>
Rel(p) == LET l == Instr(p)[2] IN
          /\ ~Done(p) /\ Instr(p)[1] = "rel"
          /\ IF writer[l] = p THEN writer' = [writer EXCEPT ![l] = 0] /\ UNCHANGED readers
                              ELSE readers' = [readers EXCEPT ![l] = @ \ {p}] /\ UNCHANGED writer
          /\ Advance(p) /\ UNCHANGED <<prog, pendW>>
(* unbuffered channel: a send completes only together with a receive *)
Rendezvous(p, q) == /\ p # q /\ ~Done(p) /\ ~Done(q)
                    /\ Instr(p)[1] = "send" /\ Instr(q)[1] = "recv" /\ Instr(p)[2] = Instr(q)[2]
                    /\ pc' = [pc EXCEPT ![p] = @ + 1, ![q] = @ + 1]
                    /\ UNCHANGED <<prog, writer, readers, pendW>>

(* the receiver is gone (an FSM that ceased, or none at all): the repaired stop() notices (the FSM's done channel), the original waits forever *)
WillReceive(q, ch) == ~Done(q) /\ \E i \in pc[q]..Len(Code[prog[q]]) : Code[prog[q]][i] = <<"recv", ch>>
SkipSend(p) == /\ Discipline = "fixed" /\ ~Done(p) /\ Instr(p)[1] = "send"
               /\ ~\E q \in Procs \ {p} : WillReceive(q, Instr(p)[2])
               /\ Advance(p) /\ UNCHANGED <<prog, writer, readers, pendW>>

Step == \/ \E p \in Procs : Announce(p) \/ AcqW(p) \/ AcqR(p) \/ Rel(p) \/ SkipSend(p)
        \/ \E p, q \in Procs : Rendezvous(p, q)
Next == Step
NextGen == UNCHANGED vars
Spec == Init /\ [][Next]_vars /\ WF_vars(Step)

-----------------------------------------------------------------------------
(* an FSM that only waits for events, and a sender nobody listens to, are not stuck operations of their own: *)
(* a process waiting at "recv" is done when nobody will ever send                                           *)
Waiting(p) == ~Done(p) /\ Instr(p)[1] = "recv"
Finished == \A p \in Procs : Done(p) \/ Waiting(p)
(* C25 on the model: whenever some operation is unfinished, some step is possible *)
NoDeadlock == Finished \/ ENABLED Step
(* every operation completes *)
AllComplete == <>Finished
(* the lock state is sane *)
LocksOK == \A l \in Locks : /\ (writer[l] # 0 => readers[l] = {})
                            /\ ((\A p \in Procs : Done(p)) => (writer[l] = 0 /\ readers[l] = {}))      \* nothing stays locked

EmitCase == (pc = [p \in Procs |-> 1] /\ pendW = [l \in Locks |-> {}]) =>
               PrintT("BEH " \o ToJson(<< [a |-> "Scenario", ops |-> [p \in Procs |-> prog[p]], discipline |-> Discipline] >>))
=============================================================================
