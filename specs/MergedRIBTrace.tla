---------------------------- MODULE MergedRIBTrace ----------------------------
(* Trace validation (M2): an ndjson log recorded from the real MergedLocRIB is *)
(* accepted iff it is a behaviour of MergedRIB whose Loc-RIB content equals    *)
(* the logged one after every event.                                           *)
EXTENDS MergedRIB

log == ndJsonDeserialize("trace.ndjson")
VARIABLE l

TInit == Init /\ l = 1 /\ TLCSet(1, 1)

IsEvent(e) == l <= Len(log) /\ log[l].a = e /\ l' = l + 1
Logged == rib' = {log[l].rib[i] : i \in 1..Len(log[l].rib)}

TAdd == IsEvent("Add") /\ Add(log[l].src, log[l].r) /\ Logged
TRemove == IsEvent("Remove") /\ Remove(log[l].src, log[l].r) /\ Logged
TDrop == IsEvent("DropAll") /\ DropAll(log[l].src) /\ Logged
(* a new trace starts: fresh tables *)
TReset == IsEvent("Reset") /\ srcs' = [r \in Routes |-> {}] /\ rib' = {} /\ hist' = <<>>

TNext == (TAdd \/ TRemove \/ TDrop \/ TReset) /\ TLCSet(1, l')
TSpec == TInit /\ [][TNext]_<<vars, l>>
TView == <<srcs, rib, l>>
Accepted == TLCGet(1) = Len(log) + 1
=============================================================================
