-------------------------------- MODULE Sender --------------------------------
(* The update sender of one session (protocols/bgp/server/update_sender.go):   *)
(* announcements are queued per attribute bundle and sent in periodic rounds,  *)
(* withdrawals are sent at once.  Property C10: once the queue is empty, the   *)
(* peer's view (fold of the UPDATEs it received, keyed by prefix and path id)  *)
(* equals the Adj-RIB-Out, for every interleaving of changes and rounds.       *)
(* Actions = the calls the Adj-RIB-Out makes (AddPath, RemovePath) and the     *)
(* sender's own steps (one bucket of a round; a complete flush).               *)
EXTENDS Naturals, Sequences, FiniteSets, TLC, Json

CONSTANTS Pfxs,       \* e.g. {"x", "y"}
          Paths,      \* attribute bundles, e.g. {"a", "b", "c"}; each has its own path identifier with add-path
          AddPathTX,  \* BOOLEAN: add-path send
          MaxDepth,
          Acts,       \* subset of {"add", "remove", "flush", "bucket", "put"}
          ViaRibOut   \* BOOLEAN: the calls are made on the session's Adj-RIB-Out (which passes them on to the sender), see Put

VARIABLES adjOut,     \* [Pfxs -> SUBSET Paths]: what the Adj-RIB-Out currently advertises through this sender
          queue,      \* set of <<pfx, path>>: announcements waiting for the next round
          peer,       \* [Pfxs -> SUBSET Paths]: what the peer holds after the UPDATEs sent so far
          hist
vars == <<adjOut, queue, peer, hist>>

J(f) == {[pfx |-> x, paths |-> f[x]] : x \in Pfxs}
Log(r) == hist' = Append(hist, r @@ [st |-> [adjout |-> J(adjOut'), queued |-> Cardinality(queue'), peer |-> J(peer')]])

Init == /\ adjOut = [x \in Pfxs |-> {}]
        /\ queue = {}
        /\ peer = [x \in Pfxs |-> {}]
        /\ hist = <<>>

(* the peer's reaction to an announcement: without add-path a new announcement of the prefix replaces the old one *)
Announced(v, x, p) == [v EXCEPT ![x] = IF AddPathTX THEN @ \cup {p} ELSE {p}]
Withdrawn(v, x, p) == [v EXCEPT ![x] = IF AddPathTX THEN @ \ {p} ELSE {}]

(* Adj-RIB-Out -> sender.  Without add-path the Adj-RIB-Out withdraws the previous path of a prefix before it adds a new one. *)
AddPath(x, p) ==
    /\ p \notin adjOut[x] /\ (AddPathTX \/ adjOut[x] = {})
    /\ adjOut' = [adjOut EXCEPT ![x] = @ \cup {p}]
    /\ queue' = queue \cup {<<x, p>>}
    /\ UNCHANGED peer
    /\ Log([a |-> "AddPath", pfx |-> x, p |-> p])

(* AdjRIBOut.AddPath on a session without add-path, whatever the table holds for the prefix: a path replaces the stored one    *)
(* (the sender is told to withdraw the old one, then to announce the new one) - also when it is the very same path again       *)
Put(x, p) ==
    /\ ViaRibOut /\ ~AddPathTX
    /\ adjOut' = [adjOut EXCEPT ![x] = {p}]
    /\ queue' = {e \in queue : e[1] # x} \cup {<<x, p>>}
    /\ peer' = IF adjOut[x] = {} THEN peer ELSE [peer EXCEPT ![x] = {}]
    /\ Log([a |-> "Put", pfx |-> x, p |-> p])

(* the withdrawal goes out at once; an announcement of the same (prefix, path) that is still queued must not follow it *)
RemovePath(x, p) ==
    /\ p \in adjOut[x]
    /\ adjOut' = [adjOut EXCEPT ![x] = @ \ {p}]
    /\ queue' = queue \ {<<x, p>>}
    /\ peer' = Withdrawn(peer, x, p)
    /\ Log([a |-> "RemovePath", pfx |-> x, p |-> p])

RECURSIVE SendAll(_, _)
SendAll(v, S) == IF S = {} THEN v ELSE LET e == CHOOSE e \in S : TRUE IN SendAll(Announced(v, e[1], e[2]), S \ {e})

(* one bucket (all queued prefixes of one attribute bundle) of the periodic round *)
SendBucket(p) ==
    /\ \E x \in Pfxs : <<x, p>> \in queue
    /\ peer' = SendAll(peer, {e \in queue : e[2] = p})
    /\ queue' = {e \in queue : e[2] # p}
    /\ UNCHANGED adjOut
    /\ Log([a |-> "SendBucket", p |-> p])

(* a complete flush (end of the initial dump, or a whole round without interleaved changes) *)
Flush ==
    /\ peer' = SendAll(peer, queue)
    /\ queue' = {}
    /\ UNCHANGED adjOut
    /\ Log([a |-> "Flush"])

Step == \/ "add" \in Acts /\ \E x \in Pfxs, p \in Paths : AddPath(x, p)
        \/ "put" \in Acts /\ \E x \in Pfxs, p \in Paths : Put(x, p)
        \/ "remove" \in Acts /\ \E x \in Pfxs, p \in Paths : RemovePath(x, p)
        \/ "bucket" \in Acts /\ \E p \in Paths : SendBucket(p)
        \/ "flush" \in Acts /\ Flush
Next == Len(hist) < MaxDepth /\ Step
NextSim == IF Len(hist) < MaxDepth THEN Step ELSE PrintT("BEH " \o ToJson(hist)) /\ UNCHANGED vars
Spec == Init /\ [][Next]_vars
FairSpec == Init /\ [][Step]_vars /\ \A p \in Paths : WF_vars(SendBucket(p))

-----------------------------------------------------------------------------
QueueWithinAdjOut == \A e \in queue : e[2] \in adjOut[e[1]]
(* without add-path at most one announcement per prefix is queued, so the order of the buckets cannot matter *)
OneQueuedPerPrefix == ~AddPathTX => \A e, f \in queue : e[1] = f[1] => e = f
(* C10 *)
Converged == queue = {} => peer = adjOut
(* the peer never holds something that is neither advertised nor about to be replaced by a queued announcement *)
NoStale == \A x \in Pfxs : \A p \in peer[x] : p \in adjOut[x] \/ (~AddPathTX /\ \E q \in Paths : <<x, q>> \in queue)
EventuallyQuiet == <>(queue = {})

View == <<adjOut, queue, peer>>
Emit == PrintT("BEH " \o ToJson(hist'))
=============================================================================
