-------------------------------- MODULE BGPFSM --------------------------------
(* The RFC 4271 session state machine as seen on a passive bio-rd peer         *)
(* (protocols/bgp/server/fsm*.go): one connection at a time, events from the   *)
(* peer (messages, malformed input), from timers and from the administrator.   *)
(*   C23  every observed state sequence is a behaviour of this machine; routes *)
(*        are attached to the Loc-RIB exactly while Established; UPDATEs are   *)
(*        only processed in Established; every return to Idle from OpenSent,   *)
(*        OpenConfirm or Established closes the connection                     *)
(*   C07  leaving Established withdraws everything the session contributed     *)
(*   C21  malformed input is answered with the RFC 4271 section 6 NOTIFICATION *)
(*   C22  OPEN negotiation admits only valid sessions                          *)
(*   C19/C20 malformed UPDATEs install nothing, valid ones are applied per NLRI*)
(*   C12  (server level) a policy replaced through the server takes effect in  *)
(*        whatever state the session is                                        *)
EXTENDS Naturals, Sequences, FiniteSets, TLC, Json

CONSTANTS Opens,       \* OPEN classes offered by the peer (subset of DOMAIN OpenDef)
          Updates,     \* UPDATE classes (subset of DOMAIN UpdDef)
          Garbage,     \* malformed-header classes (subset of DOMAIN HdrDef)
          Stops,       \* administrative / timer events used: subset of {"ManualStop", "HoldExpires", "WriteFails", "Wait", "ConnLost", "Sustain"} \cup DOMAIN NotifDef
          LocalCfg,    \* name of the local peer configuration (DOMAIN CfgDef)
          Pols,        \* policies the operator may put in place through the server ({} = none): subset of {"accept", "reject"}
          Origs,       \* prefixes another source may put into the Loc-RIB ({} = none): subset of {"o1", "o2"}
          MaxDepth, MaxSessions

VARIABLES st,          \* "none" (no connection yet) | "OpenSent" | "OpenConfirm" | "Established" | "Idle"
          conn,        \* "none" | "open" | "closed"
          attached,    \* the session's Adj-RIBs are registered with the Loc-RIB
          adjIn,       \* set of [pfx, pid]: routes learned over the current session
          out,         \* sequence of messages the speaker wrote on the current connection
          hold,        \* negotiated hold time (0 until negotiated)
          nsess,       \* connections accepted so far
          pol,         \* [imp, exp: the peer's import / export policy, orig: prefixes in the Loc-RIB from another source]
          hist
vars == <<st, conn, attached, adjIn, out, hold, nsess, pol, hist>>

(* local configurations *)
CfgDef == [ ebgp   |-> [ibgp |-> FALSE, hold |-> 90, role |-> "none",     strict |-> FALSE, addpath |-> FALSE, rrc |-> "no", other |-> FALSE, active |-> FALSE, v6only |-> FALSE],
            ibgp   |-> [ibgp |-> TRUE,  hold |-> 90, role |-> "none",     strict |-> FALSE, addpath |-> FALSE, rrc |-> "no", other |-> FALSE, active |-> FALSE, v6only |-> FALSE],
            hold3  |-> [ibgp |-> FALSE, hold |-> 3,  role |-> "none",     strict |-> FALSE, addpath |-> FALSE, rrc |-> "no", other |-> FALSE, active |-> FALSE, v6only |-> FALSE],
            cust   |-> [ibgp |-> FALSE, hold |-> 90, role |-> "customer", strict |-> FALSE, addpath |-> FALSE, rrc |-> "no", other |-> FALSE, active |-> FALSE, v6only |-> FALSE],
            custS  |-> [ibgp |-> FALSE, hold |-> 90, role |-> "customer", strict |-> TRUE,  addpath |-> FALSE, rrc |-> "no", other |-> FALSE, active |-> FALSE, v6only |-> FALSE],
            ap     |-> [ibgp |-> FALSE, hold |-> 90, role |-> "none",     strict |-> FALSE, addpath |-> TRUE, rrc |-> "no", other |-> FALSE, active |-> FALSE, v6only |-> FALSE],
            \* the peer is a route reflector client: the cluster id (default = the router id, or configured) takes part in loop
            \* detection exactly while the session is attached
            rr     |-> [ibgp |-> TRUE,  hold |-> 90, role |-> "none",     strict |-> FALSE, addpath |-> FALSE, rrc |-> "default", other |-> FALSE, active |-> FALSE, v6only |-> FALSE],
            rrcid  |-> [ibgp |-> TRUE,  hold |-> 90, role |-> "none",     strict |-> FALSE, addpath |-> FALSE, rrc |-> "explicit", other |-> FALSE, active |-> FALSE, v6only |-> FALSE],
            \* a session with another peer of the same VRF (same local AS) is established before and throughout the behaviour: the local
            \* AS keeps taking part in loop detection whatever this session does
            ebgp2  |-> [ibgp |-> FALSE, hold |-> 90, role |-> "none",     strict |-> FALSE, addpath |-> FALSE, rrc |-> "no", other |-> TRUE, active |-> FALSE, v6only |-> FALSE],
            \* the peer is not passive: its own FSM dials, gets the connection handed over (Connect) and is used again for the next
            \* session after a short pause - nothing of the previous session may survive in it
            ebgpA  |-> [ibgp |-> FALSE, hold |-> 90, role |-> "none",     strict |-> FALSE, addpath |-> FALSE, rrc |-> "no", other |-> FALSE, active |-> TRUE, v6only |-> FALSE],
            ibgpA  |-> [ibgp |-> TRUE,  hold |-> 90, role |-> "none",     strict |-> FALSE, addpath |-> FALSE, rrc |-> "no", other |-> FALSE, active |-> TRUE, v6only |-> FALSE],
            apA    |-> [ibgp |-> FALSE, hold |-> 90, role |-> "none",     strict |-> FALSE, addpath |-> TRUE,  rrc |-> "no", other |-> FALSE, active |-> TRUE, v6only |-> FALSE],
            \* iBGP inside a 4-octet AS: the 2-octet field of every OPEN says AS_TRANS, the real AS is in the capability
            ibgp4  |-> [ibgp |-> TRUE,  hold |-> 90, role |-> "none",     strict |-> FALSE, addpath |-> FALSE, rrc |-> "no", other |-> FALSE, active |-> FALSE, v6only |-> FALSE],
            \* add-path send is configured (several paths per prefix), add-path receive is not
            apTx   |-> [ibgp |-> FALSE, hold |-> 90, role |-> "none",     strict |-> FALSE, addpath |-> FALSE, rrc |-> "no", other |-> FALSE, active |-> FALSE, v6only |-> FALSE],
            \* only the IPv6 address family is configured for the peer
            ap6A   |-> [ibgp |-> FALSE, hold |-> 90, role |-> "none",     strict |-> FALSE, addpath |-> TRUE,  rrc |-> "no", other |-> FALSE, active |-> TRUE, v6only |-> TRUE],
            ap6    |-> [ibgp |-> FALSE, hold |-> 90, role |-> "none",     strict |-> FALSE, addpath |-> TRUE,  rrc |-> "no", other |-> FALSE, active |-> FALSE, v6only |-> TRUE] ]
L == CfgDef[LocalCfg]
RouterID == 100
LocalAS == 65000
PeerAS == IF L.ibgp THEN LocalAS ELSE 65001

(* OPEN classes: as = "cfg" (configured peer AS) | "other" | "trans" (AS_TRANS, real AS in the 4-octet capability);                 *)
(* as4 = value of the 4-octet AS capability: "none" | "cfg" | "other"; id = "ok" | "zero" | "ours"; hold; role = peer's role or none *)
O(as, as4, id, h, role, ver) == [as |-> as, as4 |-> as4, id |-> id, hold |-> h, role |-> role, version |-> ver]
OpenDef == [ ok        |-> O("cfg", "cfg", "ok", 90, "none", 4),
             okNoAS4   |-> O("cfg", "none", "ok", 90, "none", 4),
             okOddAP   |-> O("cfg", "cfg", "ok", 90, "none", 4),                 \* as ok, plus add-path tuples for families the peer is not configured for
             okNoAP    |-> O("cfg", "cfg", "ok", 90, "none", 4),                 \* as ok, but without the add-path capability (see NoAP)
             okTrans   |-> O("trans", "cfg", "ok", 90, "none", 4),
             hold0     |-> O("cfg", "cfg", "ok", 0, "none", 4),
             hold3     |-> O("cfg", "cfg", "ok", 3, "none", 4),
             hold30    |-> O("cfg", "cfg", "ok", 30, "none", 4),
             hold1     |-> O("cfg", "cfg", "ok", 1, "none", 4),
             hold2     |-> O("cfg", "cfg", "ok", 2, "none", 4),
             badAS     |-> O("other", "other", "ok", 90, "none", 4),
             badASgoodAS4 |-> O("other", "cfg", "ok", 90, "none", 4),            \* a real wrong AS in the 2-octet field: the capability does not repair it
             badAS4    |-> O("trans", "other", "ok", 90, "none", 4),
             transNo4  |-> O("trans", "none", "ok", 90, "none", 4),
             idZero    |-> O("cfg", "cfg", "zero", 90, "none", 4),
             idOurs    |-> O("cfg", "cfg", "ours", 90, "none", 4),
             version3  |-> O("cfg", "cfg", "ok", 90, "none", 3),
             roleProv  |-> O("cfg", "cfg", "ok", 90, "provider", 4),
             roleCust  |-> O("cfg", "cfg", "ok", 90, "customer", 4),
             rolePeer  |-> O("cfg", "cfg", "ok", 90, "peer", 4),
             rolesCPP  |-> O("cfg", "cfg", "ok", 90, "multi", 4),               \* three role capabilities: customer, provider, provider
             okAP3     |-> O("cfg", "cfg", "ok", 90, "none", 4),                 \* as ok, the add-path capability says send and receive (3)
             hold6     |-> O("cfg", "cfg", "ok", 6, "none", 4) ]

(* RFC 9234: compatible role pairs *)
RolesOK(l, r) == r # "multi" /\ (\/ l = "none" \/ r = "none"
                 \/ <<l, r>> \in {<<"provider", "customer">>, <<"customer", "provider">>, <<"rs", "rsclient">>, <<"rsclient", "rs">>, <<"peer", "peer">>})

(* the verdict on an OPEN: <<code, subcode>> of the NOTIFICATION, or <<0, 0>> = acceptable *)
ResolvedAS(o) == IF o.as = "trans" THEN (IF o.as4 = "cfg" THEN "cfg" ELSE IF o.as4 = "none" THEN "trans" ELSE "other")
                 ELSE o.as                                           \* the 2-octet field is authoritative unless it is AS_TRANS
OpenVerdict(o) ==
    IF o.version # 4 THEN <<2, 1>>
    ELSE IF ResolvedAS(o) # "cfg" THEN <<2, 2>>
    ELSE IF o.id = "zero" \/ (L.ibgp /\ o.id = "ours") THEN <<2, 3>>
    ELSE IF o.hold \in {1, 2} THEN <<2, 6>>
    ELSE IF ~L.ibgp /\ L.role # "none" /\ ~RolesOK(L.role, o.role) THEN <<2, 11>>
    ELSE IF ~L.ibgp /\ L.role # "none" /\ L.strict /\ o.role = "none" THEN <<2, 11>>
    ELSE <<0, 0>>
Min(a, b) == IF a < b THEN a ELSE b

(* malformed headers: RFC 4271 6.1 *)
HdrDef == [ badMarker |-> <<1, 1>>, lenShort |-> <<1, 2>>, lenLong |-> <<1, 2>>, len18 |-> <<1, 2>>, badType |-> <<1, 3>>, type0 |-> <<1, 3>> ]

(* UPDATE classes: ok = TRUE: applied; otherwise the session is reset with an UPDATE Message Error (3, acceptable subcodes; {} = any) *)
(* announce / withdraw = sets of [pfx, pid] the message carries (pid 0 without add-path)                                        *)
N(p, i) == [pfx |-> p, pid |-> i]
U(ok, ann, wd, subs) == [ok |-> ok, announce |-> ann, withdraw |-> wd, subs |-> subs]
UpdDef == [ annA      |-> U(TRUE, {N("a", 0)}, {}, {}),
            annAB     |-> U(TRUE, {N("a", 0), N("b", 0)}, {}, {}),
            annC6     |-> U(TRUE, {N("c6", 0)}, {}, {}),                       \* IPv6 prefix in MP_REACH_NLRI
            annLoop   |-> U(TRUE, {N("l", 0)}, {}, {}),                        \* prefix "l": its AS_PATH contains the local AS (stored, never eligible)
            \* well-formed UPDATEs with further attributes: AS4_AGGREGATOR, AS4_PATH, AGGREGATOR + ATOMIC_AGGREGATE, an unknown transitive
            \* attribute, communities and large communities
            \* MP_REACH_NLRI that ends right after its next hop (no reserved octet, no NLRI): it announces nothing; the code takes it as
            \* an empty announcement, which no listed property forbids - what matters is that it does no harm
            mpNoReserved |-> U(TRUE, {}, {}, {}),
            annAas4aggr |-> U(TRUE, {N("a", 0)}, {}, {}),
            annAas4path |-> U(TRUE, {N("a", 0)}, {}, {}),
            annAaggr    |-> U(TRUE, {N("a", 0)}, {}, {}),
            annAunk     |-> U(TRUE, {N("a", 0)}, {}, {}),
            annAcomm    |-> U(TRUE, {N("a", 0)}, {}, {}),
            wdA       |-> U(TRUE, {}, {N("a", 0)}, {}),
            wdAannB   |-> U(TRUE, {N("b", 0)}, {N("a", 0)}, {}),
            wdAannA   |-> U(TRUE, {N("a", 0)}, {N("a", 0)}, {}),               \* the same prefix withdrawn and announced: the announcement counts (RFC 4271 4.3)
            wdC6      |-> U(TRUE, {}, {N("c6", 0)}, {}),
            annD6wdC6 |-> U(TRUE, {N("d6", 0)}, {N("c6", 0)}, {}),             \* MP_REACH_NLRI and MP_UNREACH_NLRI in one UPDATE
            annC6D6   |-> U(TRUE, {N("c6", 0), N("d6", 0)}, {}, {}),
            apA1A2    |-> U(TRUE, {N("a", 1), N("a", 2)}, {}, {}),             \* add-path: two paths of one prefix, own ids
            apA1B2    |-> U(TRUE, {N("a", 1), N("b", 2)}, {}, {}),
            apC1C2    |-> U(TRUE, {N("c6", 1), N("c6", 2)}, {}, {}),           \* IPv6, two paths of one prefix
            apWdC1    |-> U(TRUE, {}, {N("c6", 1)}, {}),
            apC1D2    |-> U(TRUE, {N("c6", 1), N("d6", 2)}, {}, {}),           \* IPv6, two prefixes with their own path ids in one MP_REACH_NLRI
            apA0A1    |-> U(TRUE, {N("a", 0), N("a", 1)}, {}, {}),             \* path identifier 0 is an identifier like any other
            apWdA0    |-> U(TRUE, {}, {N("a", 0)}, {}),
            apWdA1    |-> U(TRUE, {}, {N("a", 1)}, {}),
            apWdA1A2  |-> U(TRUE, {}, {N("a", 1), N("a", 2)}, {}),             \* two withdrawn NLRI with their own path ids
            apWdA1B2  |-> U(TRUE, {}, {N("a", 1), N("b", 2)}, {}),
            apWdA2annB1 |-> U(TRUE, {N("b", 1)}, {N("a", 2)}, {}),
            eor       |-> U(TRUE, {}, {}, {}),
            \* malformed (RFC 4271 6.3)
            wdLenBeyond   |-> U(FALSE, {N("a", 0)}, {}, {1}),                  \* withdrawn routes length beyond the message
            attrLenBeyond |-> U(FALSE, {N("a", 0)}, {}, {1}),                  \* total path attribute length beyond the message
            attrLenShort  |-> U(FALSE, {N("a", 0)}, {}, {1, 5, 10}),           \* attribute section shorter than its attributes
            originLen2    |-> U(FALSE, {N("a", 0)}, {}, {5}),                  \* ORIGIN declared with length 2
            nextHopLen3   |-> U(FALSE, {N("a", 0)}, {}, {5}),
            medLen5       |-> U(FALSE, {N("a", 0)}, {}, {5}),
            medLen5ext    |-> U(FALSE, {N("a", 0)}, {}, {5}),                  \* the same with the extended-length flag (two length bytes)
            asPathTrunc   |-> U(FALSE, {N("a", 0)}, {}, {11, 5}),
            pfxLen33      |-> U(FALSE, {N("a", 0)}, {}, {10}),                 \* IPv4 NLRI with prefix length 33
            pfxLen129     |-> U(FALSE, {N("c6", 0)}, {}, {10, 9}),             \* IPv6 NLRI with prefix length 129
            noOrigin      |-> U(FALSE, {N("a", 0)}, {}, {3}),
            noASPath      |-> U(FALSE, {N("a", 0)}, {}, {3}),
            noNextHop     |-> U(FALSE, {N("a", 0)}, {}, {3}),
            noAttrs       |-> U(FALSE, {N("a", 0)}, {}, {3}),
            noNextHopMP   |-> U(FALSE, {N("a", 0), N("c6", 0)}, {}, {3}),      \* IPv4 NLRI without NEXT_HOP next to an MP_REACH_NLRI
            mpNoOrigin    |-> U(FALSE, {N("c6", 0)}, {}, {3}),                 \* MP_REACH_NLRI without ORIGIN
            mpNoASPath    |-> U(FALSE, {N("c6", 0)}, {}, {3}),                  \* NLRI but no path attributes at all
            nlriTrunc     |-> U(FALSE, {N("a", 0)}, {}, {10, 1}),
            mpNH32short   |-> U(FALSE, {N("c6", 0)}, {}, {}) ]                  \* MP_REACH_NLRI announces a 32-byte next hop, 20 bytes follow

-----------------------------------------------------------------------------
Msg(k, c, s) == [kind |-> k, code |-> c, sub |-> s]
Notif(c, s) == Msg("NOTIFICATION", c, s)
(* what the policies mean for the tables (C12 at server level): the Loc-RIB holds the other source's prefixes and, while the  *)
(* session is attached and the import policy accepts, the session's; the Adj-RIB-Out holds the other source's prefixes while *)
(* the session is attached and the export policy accepts (the session's own routes are never sent back to it)                *)
Eligible(n) == n.pfx # "l"                                                 \* C06: a path with the local AS in its AS_PATH never gets there
LocOf(att, ai, pl) == {[pfx |-> x, pid |-> 0] : x \in pl.orig} \cup (IF att /\ pl.imp = "accept" THEN {n \in ai : Eligible(n)} ELSE {})
OutOf(att, pl) == IF att /\ pl.exp = "accept" THEN pl.orig ELSE {}
St == [st |-> st', conn |-> conn', attached |-> attached', adjin |-> adjIn', out |-> out', hold |-> hold', nsess |-> nsess',
       imp |-> pol'.imp, exp |-> pol'.exp, loc |-> LocOf(attached', adjIn', pol'), adjout |-> OutOf(attached', pol'),
       asn |-> attached' \/ L.other]                                      \* the local AS takes part in the VRF's loop detection
(* add-path is in force on the current connection only if both sides advertised it: the peer's OPEN classes in NoAP lack the      *)
(* capability.  The negotiated value is carried in the log (field ap of every entry) rather than in a variable of its own.        *)
NoAP == {"okNoAP"}
ApOf(h) == IF h = <<>> THEN FALSE ELSE h[Len(h)].ap
ApAfter(r) == IF r.a = "Connect" THEN FALSE
              ELSE IF r.a = "RecvOpen" THEN (st' = "OpenConfirm" /\ L.addpath /\ r.o \notin NoAP)
              ELSE IF st' \in {"Idle", "none"} THEN FALSE ELSE ApOf(hist)
(* which OPEN class the current connection was opened with (what it negotiated lives in the real FSM, not in the abstract state) *)
LoOf(h) == IF h = <<>> THEN "none" ELSE h[Len(h)].lo
LoAfter(r) == IF r.a = "Connect" THEN "none"
              ELSE IF r.a = "RecvOpen" THEN (IF st' = "OpenConfirm" THEN r.o ELSE "none")
              ELSE IF st' \in {"Idle", "none"} THEN "none" ELSE LoOf(hist)
LogP(r) == hist' = Append(hist, r @@ [s |-> St, ap |-> ApAfter(r), lo |-> LoAfter(r)])
Log(r) == UNCHANGED pol /\ LogP(r)

Init == /\ st = "none" /\ conn = "none" /\ attached = FALSE /\ adjIn = {} /\ out = <<>> /\ hold = 0 /\ nsess = 0
        /\ pol = [imp |-> "accept", exp |-> "accept", orig |-> {}]
        /\ hist = << [a |-> "Config", cfg |-> L, cfgname |-> LocalCfg, ap |-> FALSE, lo |-> "none",
                      s |-> [st |-> "none", conn |-> "none", attached |-> FALSE, adjin |-> {}, out |-> <<>>, hold |-> 0, nsess |-> 0,
                             imp |-> "accept", exp |-> "accept", loc |-> {}, adjout |-> {}, asn |-> L.other]] >>

(* every way back to Idle: optional NOTIFICATION, connection closed, routes gone *)
ToIdle(msgs) ==
    /\ st' = "Idle" /\ conn' = "closed" /\ attached' = FALSE /\ adjIn' = {}
    /\ out' = out \o msgs
    /\ UNCHANGED <<hold, nsess>>

(* an incoming TCP connection: the speaker sends its OPEN *)
Connect ==
    /\ st \in {"none", "Idle"} /\ nsess < MaxSessions
    /\ st' = "OpenSent" /\ conn' = "open" /\ out' = <<Msg("OPEN", 0, 0)>> /\ hold' = 0 /\ nsess' = nsess + 1
    /\ attached' = FALSE /\ adjIn' = {}
    /\ Log([a |-> "Connect"])

RecvOpen(o) ==
    /\ st \in {"OpenSent", "OpenConfirm", "Established"}
    /\ IF st = "OpenSent"
       THEN LET v == OpenVerdict(OpenDef[o]) IN
            IF v = <<0, 0>>
            THEN /\ st' = "OpenConfirm" /\ out' = Append(out, Msg("KEEPALIVE", 0, 0))
                 /\ hold' = Min(L.hold, OpenDef[o].hold)
                 /\ UNCHANGED <<conn, attached, adjIn, nsess>>
            ELSE ToIdle(<<Notif(v[1], v[2])>>)
       ELSE ToIdle(<<Notif(5, 0)>>)                                             \* FSM error
    /\ Log([a |-> "RecvOpen", o |-> o, open |-> OpenDef[o], noap |-> o \in NoAP])

RecvKeepalive ==
    /\ st \in {"OpenSent", "OpenConfirm", "Established"}
    /\ CASE st = "OpenSent" -> ToIdle(<<Notif(5, 0)>>)
         [] st = "OpenConfirm" -> /\ st' = "Established" /\ attached' = TRUE
                                  /\ UNCHANGED <<conn, adjIn, out, hold, nsess>>
         [] st = "Established" -> UNCHANGED <<st, conn, attached, adjIn, out, hold, nsess>>
    /\ Log([a |-> "RecvKeepalive"])

(* without add-path the path identifiers of an UPDATE class are not on the wire: everything is identifier 0 *)
Flat(ns) == IF ApOf(hist) THEN ns ELSE {N(n.pfx, 0) : n \in ns}
Applies(u) == LET d == UpdDef[u] IN
    {e \in adjIn : ~(\E w \in Flat(d.withdraw) : w.pfx = e.pfx /\ w.pid = e.pid)
                   /\ ~(\E n \in Flat(d.announce) : n.pfx = e.pfx /\ n.pid = e.pid)} \cup Flat(d.announce)

RecvUpdate(u) ==
    /\ st \in {"OpenSent", "OpenConfirm", "Established"}
    /\ IF st = "Established"
       THEN IF UpdDef[u].ok
            THEN /\ adjIn' = Applies(u) /\ UNCHANGED <<st, conn, attached, out, hold, nsess>>
            ELSE ToIdle(<<Notif(3, 0)>>)                                        \* subcode: see UpdDef[u].subs
       ELSE ToIdle(<<Notif(5, 0)>>)                                             \* UPDATEs are only processed in Established
    /\ Log([a |-> "RecvUpdate", u |-> u, upd |-> UpdDef[u]])

RecvGarbage(g) ==
    /\ st \in {"OpenSent", "OpenConfirm", "Established"}
    /\ ToIdle(<<Notif(HdrDef[g][1], HdrDef[g][2])>>)
    /\ Log([a |-> "RecvGarbage", g |-> g])

(* NOTIFICATIONs the peer may send: a plain Cease, one with data, and ones whose code / subcode this speaker does not know *)
(* (RFC 7313 code 7, a header error subcode beyond 3): whatever it says, the session ends, nothing is sent back          *)
NotifDef == [Notification |-> <<6, 0, 0>>, NotifData |-> <<6, 2, 5>>, NotifCode7 |-> <<7, 1, 0>>, NotifBadSub |-> <<1, 9, 0>>,
             NotifHdr |-> <<1, 2, 0>>, NotifOpen |-> <<2, 1, 2>>]
RecvNotification(n) ==
    /\ st \in {"OpenSent", "OpenConfirm", "Established"}
    /\ ToIdle(<<>>)
    /\ Log([a |-> "RecvNotification", n |-> n, code |-> NotifDef[n][1], sub |-> NotifDef[n][2], datalen |-> NotifDef[n][3]])

(* the transport connection breaks (the peer is gone without a NOTIFICATION): RFC 4271 event 18, TcpConnectionFails *)
ConnLost ==
    /\ st \in {"OpenSent", "OpenConfirm", "Established"}
    /\ ToIdle(<<>>)
    /\ Log([a |-> "ConnLost", from |-> st])

HoldExpires ==
    /\ st \in {"OpenConfirm", "Established"} /\ hold # 0
    /\ ToIdle(<<Notif(4, 0)>>)
    /\ Log([a |-> "HoldExpires"])

(* the hold timer expires and the NOTIFICATION cannot be written any more *)
HoldExpiresNoWrite ==
    /\ st \in {"OpenConfirm", "Established"} /\ hold # 0
    /\ ToIdle(<<>>)
    /\ Log([a |-> "HoldExpiresNoWrite"])

(* the KEEPALIVE timer fires and the write fails *)
WriteFails ==
    /\ st \in {"OpenConfirm", "Established"} /\ hold # 0
    /\ ToIdle(<<>>)
    /\ Log([a |-> "WriteFails"])

(* a few seconds pass without any event: nothing happens (RFC 4271 8.2.2: in OpenSent the hold timer runs with a large value;  *)
(* afterwards with the negotiated one, and the keepalive interval of the configurations used here is 30 s or off)                *)
Wait ==
    /\ st \in {"OpenSent", "OpenConfirm", "Established"} /\ (st # "OpenSent" => (hold = 0 \/ hold >= 6))
    /\ UNCHANGED <<st, conn, attached, adjIn, out, hold, nsess>>
    /\ Log([a |-> "Wait"])

(* an established session with a short hold time lives on for longer than the hold time as long as the peer keeps sending *)
(* KEEPALIVEs (events 26 and 11: the hold timer restarts, the speaker sends its own KEEPALIVEs every third of the hold time;  *)
(* those are not part of `out`: the adapter counts them)                                                                    *)
Sustain ==
    /\ st = "Established" /\ hold \in 3..10
    /\ UNCHANGED <<st, conn, attached, adjIn, out, hold, nsess>>
    /\ Log([a |-> "Sustain", seconds |-> hold + 2])

ManualStop ==
    /\ st \in {"OpenSent", "OpenConfirm", "Established"}
    /\ ToIdle(<<Notif(6, 0)>>)
    /\ Log([a |-> "ManualStop"])

(* the operator replaces the peer's import / export policy through the server (BGPServer.ReplaceImportFilterChain /          *)
(* ReplaceExportFilterChain), in whatever state the session is; another source adds / removes a Loc-RIB route               *)
Same == UNCHANGED <<st, conn, attached, adjIn, out, hold, nsess>>
SetImport(p) == p # pol.imp /\ pol' = [pol EXCEPT !.imp = p] /\ Same /\ LogP([a |-> "SetImport", p |-> p])
SetExport(p) == p # pol.exp /\ pol' = [pol EXCEPT !.exp = p] /\ Same /\ LogP([a |-> "SetExport", p |-> p])
Originate(x) == x \notin pol.orig /\ pol' = [pol EXCEPT !.orig = @ \cup {x}] /\ Same /\ LogP([a |-> "Originate", x |-> x])
Unoriginate(x) == x \in pol.orig /\ pol' = [pol EXCEPT !.orig = @ \ {x}] /\ Same /\ LogP([a |-> "Unoriginate", x |-> x])

Step == \/ \E p \in Pols : SetImport(p) \/ SetExport(p)
        \/ \E x \in Origs : Originate(x) \/ Unoriginate(x)
        \/ Connect
        \/ \E o \in Opens : RecvOpen(o)
        \/ RecvKeepalive
        \/ \E u \in Updates : RecvUpdate(u)
        \/ \E g \in Garbage : RecvGarbage(g)
        \/ \E n \in Stops \cap DOMAIN NotifDef : RecvNotification(n)
        \/ "HoldExpires" \in Stops /\ HoldExpires
        \/ "WriteFails" \in Stops /\ WriteFails
        \/ "HoldExpiresNoWrite" \in Stops /\ HoldExpiresNoWrite
        \/ "ConnLost" \in Stops /\ ConnLost
        \/ "Sustain" \in Stops /\ Len(hist) >= 1 /\ hist[Len(hist)].a # "Sustain" /\ Sustain
        \/ "ManualStop" \in Stops /\ ManualStop
        \/ "Wait" \in Stops /\ Len(hist) >= 1 /\ hist[Len(hist)].a # "Wait" /\ Wait
Next == Len(hist) < MaxDepth /\ Step
(* simulation: a behaviour ends at MaxDepth or when no connection may be opened any more *)
Finished == Len(hist) >= MaxDepth \/ (st = "Idle" /\ nsess >= MaxSessions)
NextSim == IF ~Finished THEN Step ELSE PrintT("BEH " \o ToJson(hist)) /\ UNCHANGED vars
Spec == Init /\ [][Next]_vars

-----------------------------------------------------------------------------
AttachedIffEstablished == attached <=> st = "Established"
RoutesOnlyWhileEstablished == adjIn # {} => st = "Established"
IdleClosed == st = "Idle" => conn = "closed"
EstablishedOnlyAfterValidOpen == st \in {"OpenConfirm", "Established"} => hold \in {0} \cup 3..L.hold
(* action property: leaving Established empties the contribution and closes the connection *)
LeavingEstablished == [][(st = "Established" /\ st' # "Established") => (adjIn' = {} /\ ~attached' /\ conn' = "closed")]_vars
(* action property: every message sent before closing on an error is a NOTIFICATION *)
ErrorsAreNotified == [][(st' = "Idle" /\ st \in {"OpenSent", "OpenConfirm", "Established"} /\ Len(out') > Len(out))
                          => out'[Len(out')].kind = "NOTIFICATION"]_vars

View == <<st, conn, attached, adjIn, out, hold, nsess, pol, ApOf(hist), LoOf(hist)>>
Emit == PrintT("BEH " \o ToJson(hist'))
=============================================================================
