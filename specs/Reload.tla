-------------------------------- MODULE Reload --------------------------------
(* Configuration reload of the BGP part of the daemon (cmd/bio-rd/bgp.go,      *)
(* cmd/bio-rd/config/bgp.go, server.PeerConfig.NeedsRestart), property C36.    *)
(* A configuration is two groups (gA: neighbours n1, n2 over IPv4; gB: n3 over *)
(* IPv6) with group settings and per-neighbour overrides.  Effective(c) is the *)
(* set of sessions with their settings after inheritance: what a fresh start   *)
(* with c gives.  The reload action must lead to exactly that.                 *)
EXTENDS Naturals, Sequences, FiniteSets, TLC, Json

CONSTANTS Variants,   \* names of the configurations used in this run (subset of DOMAIN CfgDef)
          MaxDepth

VARIABLES sessions,   \* set of effective session records currently configured in the server
          hist
vars == <<sessions, hist>>

RouterID == 184483841      \* 10.255.0.1, used as cluster id when a route reflector has none configured

(* group / neighbour records: 0, "" and <<>> mean "not set" for inheritable settings *)
Fam(apRecv, sendMulti, sendCount) == [on |-> TRUE, apRecv |-> apRecv, sendMulti |-> sendMulti, sendCount |-> sendCount]
NoFam == [on |-> FALSE, apRecv |-> FALSE, sendMulti |-> FALSE, sendCount |-> 0]

G(peerAS, local) == [peerAS |-> peerAS, local |-> local, ttl |-> 0, hold |-> 0, passive |-> TRUE, rrc |-> FALSE, rsc |-> FALSE,
                     cluster |-> "", ipv4 |-> NoFam, ipv6 |-> NoFam, import |-> <<>>, export |-> <<>>]
N(addr) == [addr |-> addr, on |-> TRUE, peerAS |-> 0, ttl |-> 0, hold |-> 0, disabled |-> FALSE, ipv4 |-> NoFam,
            import |-> <<>>, export |-> <<>>, mp |-> FALSE, passive |-> "inherit"]

Base == [ gA |-> G(65001, "10.0.0.254"), gB |-> G(65002, "2001:db8::fe"),
          n1 |-> N("10.0.0.1"), n2 |-> N("10.0.0.2"), n3 |-> N("2001:db8::3") ]

CfgDef == [
  base      |-> Base,
  ttl       |-> [Base EXCEPT !.gA.ttl = 5],
  ttlN      |-> [Base EXCEPT !.n1.ttl = 7],
  hold      |-> [Base EXCEPT !.gA.hold = 30],
  holdN     |-> [Base EXCEPT !.n2.hold = 45],
  peerAS    |-> [Base EXCEPT !.n1.peerAS = 65009],
  local     |-> [Base EXCEPT !.gA.local = "10.0.0.253"],
  rr        |-> [Base EXCEPT !.gA.rrc = TRUE, !.gA.cluster = "1.1.1.1"],
  rrCluster |-> [Base EXCEPT !.gA.rrc = TRUE, !.gA.cluster = "2.2.2.2"],
  rrNoId    |-> [Base EXCEPT !.gA.rrc = TRUE],
  rsc       |-> [Base EXCEPT !.gA.rsc = TRUE],
  apRecv    |-> [Base EXCEPT !.gA.ipv4 = Fam(TRUE, FALSE, 0)],
  apSend    |-> [Base EXCEPT !.gA.ipv4 = Fam(FALSE, TRUE, 4)],
  apSend2   |-> [Base EXCEPT !.gA.ipv4 = Fam(FALSE, TRUE, 2)],
  apRecvN   |-> [Base EXCEPT !.n1.ipv4 = Fam(TRUE, FALSE, 0)],
  v6fam     |-> [Base EXCEPT !.gA.ipv6 = Fam(FALSE, FALSE, 0)],
  imp       |-> [Base EXCEPT !.gA.import = <<"POL_A">>],
  imp2      |-> [Base EXCEPT !.gA.import = <<"POL_B">>],
  impN      |-> [Base EXCEPT !.gA.import = <<"POL_A">>, !.n1.import = <<"POL_B">>],
  exp       |-> [Base EXCEPT !.gA.export = <<"POL_A">>],
  expN      |-> [Base EXCEPT !.n2.export = <<"POL_A", "POL_B">>],
  rm2       |-> [Base EXCEPT !.n2.on = FALSE],
  rm3       |-> [Base EXCEPT !.n3.on = FALSE],
  only3     |-> [Base EXCEPT !.n1.on = FALSE, !.n2.on = FALSE],
  dis       |-> [Base EXCEPT !.n1.disabled = TRUE],
  mp        |-> [Base EXCEPT !.n1.mp = TRUE],
  active2   |-> [Base EXCEPT !.n2.passive = "no"],
  \* nothing left: every neighbour (hence every group) removed
  rmAll     |-> [Base EXCEPT !.n1.on = FALSE, !.n2.on = FALSE, !.n3.on = FALSE],
  \* policies of the group whose sessions run over IPv6, and of an IPv4 group that also carries the IPv6 family
  impB      |-> [Base EXCEPT !.gB.import = <<"POL_B">>],
  expB      |-> [Base EXCEPT !.gB.export = <<"POL_A">>],
  v6exp     |-> [Base EXCEPT !.gA.ipv6 = Fam(FALSE, FALSE, 0), !.gA.export = <<"POL_B">>],
  v6imp     |-> [Base EXCEPT !.gA.ipv6 = Fam(FALSE, FALSE, 0), !.gA.import = <<"POL_A">>] ]

ASSUME Variants \subseteq DOMAIN CfgDef

-----------------------------------------------------------------------------
(* inheritance: the neighbour's value if set, else the group's *)
Pick(n, g) == IF n # 0 THEN n ELSE g
PickSeq(n, g) == IF n # <<>> THEN n ELSE g
FamEff(nf, gf, v4peer, isV4fam, imp, exp) ==
    LET f == IF nf.on THEN nf ELSE gf
        present == f.on \/ (v4peer = isV4fam)             \* the family of the transport address is always present
    IN IF ~present THEN [on |-> FALSE]
       ELSE [on |-> TRUE, apRecv |-> f.on /\ f.apRecv, sendBest |-> ~(f.on /\ f.sendMulti),
             sendMax |-> IF f.on THEN f.sendCount ELSE 0, import |-> imp, export |-> exp]

Session(n, g, v4peer) ==
    LET imp == PickSeq(n.import, g.import)
        exp == PickSeq(n.export, g.export)
        hold == Pick(n.hold, IF g.hold = 0 THEN 90 ELSE g.hold)
    IN [ peer |-> n.addr, peerAS |-> Pick(n.peerAS, g.peerAS), localAddr |-> g.local, ttl |-> Pick(n.ttl, g.ttl),
         holdTime |-> hold, keepAlive |-> hold \div 3,
         passive |-> IF n.passive = "inherit" THEN g.passive ELSE n.passive = "yes",
         rsClient |-> g.rsc, rrClient |-> g.rrc,
         cluster |-> IF g.cluster # "" THEN g.cluster ELSE IF g.rrc THEN "router-id" ELSE "",
         disabled |-> n.disabled, mp |-> n.mp,
         ipv4 |-> FamEff(n.ipv4, g.ipv4, v4peer, TRUE, imp, exp),
         ipv6 |-> FamEff(NoFam, g.ipv6, v4peer, FALSE, imp, exp) ]

Effective(c) == {Session(c.n1, c.gA, TRUE) : x \in IF c.n1.on THEN {1} ELSE {}}
                \cup {Session(c.n2, c.gA, TRUE) : x \in IF c.n2.on THEN {1} ELSE {}}
                \cup {Session(c.n3, c.gB, FALSE) : x \in IF c.n3.on THEN {1} ELSE {}}

Init == sessions = {} /\ hist = <<>>

(* Reload(v): after the reload the configured sessions are exactly those of a fresh start with v *)
Reload(v) == /\ sessions' = Effective(CfgDef[v])
             /\ hist' = Append(hist, [a |-> "Reload", v |-> v, cfg |-> CfgDef[v], sessions |-> sessions'])

Step == \E v \in Variants : Reload(v)
Next == Len(hist) < MaxDepth /\ Step
NextSim == IF Len(hist) < MaxDepth THEN Step ELSE PrintT("BEH " \o ToJson(hist)) /\ UNCHANGED vars
Spec == Init /\ [][Next]_vars

-----------------------------------------------------------------------------
(* C36 on the spec: the state never depends on what was configured before *)
HistoryFree == hist # <<>> => sessions = Effective(CfgDef[hist[Len(hist)].v])
OneSessionPerPeer == \A s, t \in sessions : s.peer = t.peer => s = t
RemovedAreGone == hist # <<>> => \A s \in sessions : \E n \in {"n1", "n2", "n3"} :
                     CfgDef[hist[Len(hist)].v][n].on /\ CfgDef[hist[Len(hist)].v][n].addr = s.peer

View == <<sessions, IF hist = <<>> THEN "" ELSE hist[Len(hist)].v>>
Emit == PrintT("BEH " \o ToJson(hist'))
=============================================================================
