-------------------------------- MODULE ISISIfa --------------------------------
(* IS-IS interfaces under link state changes (protocols/isis/server            *)
(* net_ifa.go, hello_sender.go, net_ifa_manager.go), property C33:             *)
(*   any sequence of link up / link down events on active or passive           *)
(*   interfaces leaves the server running, and after a link comes (back) up    *)
(*   an active interface sends hellos and can form adjacencies again.          *)
(*                                                                             *)
(* One action per event the code handles: LinkUp / LinkDown = one device       *)
(* update delivered to netIfa.DeviceUpdate (which starts / stops IS-IS on the  *)
(* interface when the operational state changes), HelloTick = the clock        *)
(* advances by one hello interval (all periodic work of the server runs),      *)
(* FormAdj = the neighbour on the link sends the two hellos of the three-way   *)
(* handshake.  The mechanism is the intended one: start creates the ethernet   *)
(* handle, the hello sender and the receiver of an ACTIVE interface, stop      *)
(* tears exactly those down, and a later start creates them anew.              *)
EXTENDS Naturals, Sequences, FiniteSets, TLC, Json

CONSTANTS Ifs,        \* interfaces of the server under test (subset of DOMAIN IfDef)
          Acts,       \* enabled action kinds (subset of {"LinkUp", "LinkDown", "HelloTick", "FormAdj"})
          Probe,      \* FALSE: any interleaving of the actions; TRUE: link events first, then the observation (see ProbeShape)
          LinkPhase,  \* with Probe: at most this many link events
          MaxDepth

VARIABLES oper,       \* [Ifs -> {"unknown", "up", "down"}]  last operational state delivered
          running,    \* [Ifs -> BOOLEAN]  IS-IS enabled on the interface
          handle,     \* [Ifs -> BOOLEAN]  an open ethernet handle exists
          sender,     \* [Ifs -> BOOLEAN]  hello sender (and receiver) alive
          adjUp,      \* [Ifs -> BOOLEAN]  adjacency with the neighbour on the link is up
          hellos,     \* interfaces that emitted a hello during the last HelloTick
          alive,      \* the server answers
          hist
vars == <<oper, running, handle, sender, adjUp, hellos, alive, hist>>

IfDef == [ act  |-> [passive |-> FALSE],
           act2 |-> [passive |-> FALSE],
           pas  |-> [passive |-> TRUE] ]
Passive(i) == IfDef[i].passive

State == [oper |-> oper', senders |-> {i \in Ifs : sender'[i]}, adjup |-> {i \in Ifs : adjUp'[i]}, hellos |-> hellos', alive |-> alive']
Log(r) == hist' = Append(hist, r @@ [st |-> State])

Init == /\ oper = [i \in Ifs |-> "unknown"]
        /\ running = [i \in Ifs |-> FALSE]
        /\ handle = [i \in Ifs |-> FALSE]
        /\ sender = [i \in Ifs |-> FALSE]
        /\ adjUp = [i \in Ifs |-> FALSE]
        /\ hellos = {}
        /\ alive = TRUE
        /\ hist = << [a |-> "Init", ifs |-> {[name |-> i, passive |-> Passive(i)] : i \in Ifs},
                      st |-> [oper |-> oper, senders |-> {}, adjup |-> {}, hellos |-> {}, alive |-> TRUE]] >>

(* start of IS-IS on an interface: only an active interface gets a handle, a hello sender and a receiver *)
Start(i) == /\ running' = [running EXCEPT ![i] = TRUE]
            /\ handle' = [handle EXCEPT ![i] = ~Passive(i)]
            /\ sender' = [sender EXCEPT ![i] = ~Passive(i)]
            /\ UNCHANGED adjUp
(* stop: neighbours go down, sender and receiver end, the handle (if any) is closed *)
Stop(i) == /\ running' = [running EXCEPT ![i] = FALSE]
           /\ handle' = [handle EXCEPT ![i] = FALSE]
           /\ sender' = [sender EXCEPT ![i] = FALSE]
           /\ adjUp' = [adjUp EXCEPT ![i] = FALSE]

LinkUp(i) ==
    /\ "LinkUp" \in Acts
    /\ oper' = [oper EXCEPT ![i] = "up"]
    /\ IF oper[i] # "up" THEN Start(i) ELSE UNCHANGED <<running, handle, sender, adjUp>>
    /\ hellos' = {}
    /\ UNCHANGED alive
    /\ Log([a |-> "LinkUp", i |-> i])

LinkDown(i) ==
    /\ "LinkDown" \in Acts
    /\ oper' = [oper EXCEPT ![i] = "down"]
    /\ IF oper[i] = "up" THEN Stop(i) ELSE UNCHANGED <<running, handle, sender, adjUp>>
    /\ hellos' = {}
    /\ UNCHANGED alive
    /\ Log([a |-> "LinkDown", i |-> i])

(* one hello interval passes: every live hello sender emits (at least) one hello *)
HelloTick ==
    /\ "HelloTick" \in Acts
    /\ hellos' = {i \in Ifs : sender[i]}
    /\ UNCHANGED <<oper, running, handle, sender, adjUp, alive>>
    /\ Log([a |-> "HelloTick"])

(* the neighbour's hellos reach the receiver of a running active interface: the adjacency comes up *)
FormAdj(i) ==
    /\ "FormAdj" \in Acts
    /\ sender[i]
    /\ adjUp' = [adjUp EXCEPT ![i] = TRUE]
    /\ hellos' = {}
    /\ UNCHANGED <<oper, running, handle, sender, alive>>
    /\ Log([a |-> "FormAdj", i |-> i])

Step == \/ \E i \in Ifs : LinkUp(i) \/ LinkDown(i) \/ FormAdj(i)
        \/ HelloTick
Next == Len(hist) < MaxDepth /\ Step
NextSim == IF Len(hist) < MaxDepth THEN Step ELSE PrintT("BEH " \o ToJson(hist)) /\ UNCHANGED vars
Spec == Init /\ [][Next]_vars

-----------------------------------------------------------------------------
(* C33 *)
ServerAlive == alive
RunningIffUp == \A i \in Ifs : running[i] <=> oper[i] = "up"
(* after a link came (back) up an active interface has a live hello sender, a passive or down one never *)
SenderIffActiveUp == \A i \in Ifs : sender[i] <=> (oper[i] = "up" /\ ~Passive(i))
HandleIffSender == \A i \in Ifs : handle[i] <=> sender[i]                  \* no handle on passive interfaces, none left open after stop
AdjNeedsLink == \A i \in Ifs : adjUp[i] => sender[i]
(* a HelloTick makes exactly the active interfaces whose link is up emit hellos *)
Last == hist[Len(hist)]
HelloAfterUp == Last.a = "HelloTick" => hellos = {i \in Ifs : oper[i] = "up" /\ ~Passive(i)}
(* ... and an adjacency can form (again) on each of them *)
CanFormAdj == ("FormAdj" \in Acts /\ Len(hist) < MaxDepth) => \A i \in Ifs : (oper[i] = "up" /\ ~Passive(i)) => ENABLED FormAdj(i)

View == <<oper, running, handle, sender, adjUp, hellos, alive>>
Emit == PrintT("BEH " \o ToJson(hist'))
(* The quantifier of the property, "all up/down sequences up to length n", as an action constraint: the link events *)
(* form a prefix of at most LinkPhase events; what follows is the observation the property asks for: one hello     *)
(* interval passes, then (while some hello sender is alive) the neighbour's hellos and a hello interval alternate. *)
IsLinkRec(s) == s.a \in {"LinkUp", "LinkDown"}
ProbeShape ==
    LET h == hist'
        n == Len(h)
    IN IF ~Probe THEN TRUE
       ELSE IF IsLinkRec(h[n]) THEN n - 1 <= LinkPhase /\ \A k \in 2..(n - 1) : IsLinkRec(h[k])
       ELSE IF n = 2 \/ IsLinkRec(h[n - 1]) THEN h[n].a = "HelloTick"
       ELSE IF h[n - 1].a = "HelloTick" THEN (IF h[n - 1].st.senders # {} THEN h[n].a = "FormAdj" ELSE h[n].a = "HelloTick")
       ELSE h[n].a = "HelloTick"

(* all paths are emitted (no VIEW): only complete ones are printed, their prefixes are replayed on the way *)
EmitMax == IF Len(hist') = MaxDepth THEN PrintT("BEH " \o ToJson(hist')) ELSE TRUE
=============================================================================
