--------------------------------- MODULE RibIn ---------------------------------
(* One inbound BGP session: Adj-RIB-In with import policy feeding the Loc-RIB  *)
(* and a second consumer (routingtable/adjRIBIn).                              *)
(*   C05  the Loc-RIB holds exactly the stored, eligible announcements as      *)
(*        rewritten by the import policy;                                      *)
(*   C06  ineligible paths never reach the Loc-RIB or any other consumer;      *)
(*   C12  after a policy replacement the consumers equal a fresh start with    *)
(*        the new policy (import side).                                        *)
(* One action per public call of AdjRIBIn.                                     *)
EXTENDS Policy, Integers, Json

CONSTANTS Pfxs,        \* abstract prefixes (bit sequences)
          Bundles,     \* names of announcement bundles (subset of DOMAIN BD)
          Pols,        \* names of import policies (subset of DOMAIN PolDef)
          Cfgs,        \* session configurations to start from (subset of DOMAIN CfgDef)
          MaxDepth

VARIABLES cfg,         \* name of the session configuration (fixed after Init)
          adjIn,       \* [Pfxs \X Pids -> bundle name | "none"]
          pol,         \* current import policy
          reg,         \* [{"loc", "late"} -> BOOLEAN]: registered consumers
          got,         \* [{"loc", "late"} -> set of [pfx, path]]: what each consumer currently holds from this session
          hist
vars == <<cfg, adjIn, pol, reg, got, hist>>

LocalASN == 65000
PeerASNe == 65001
RouterID == 77
ClusterID == 88
Consumers == {"loc", "late"}

(* session configurations *)
CfgDef == [ ebgp    |-> [ibgp |-> FALSE, addpath |-> FALSE, roles |-> FALSE, remote |-> "none"],
            ibgp    |-> [ibgp |-> TRUE,  addpath |-> FALSE, roles |-> FALSE, remote |-> "none"],
            ebgpAP  |-> [ibgp |-> FALSE, addpath |-> TRUE,  roles |-> FALSE, remote |-> "none"],
            ibgpAP  |-> [ibgp |-> TRUE,  addpath |-> TRUE,  roles |-> FALSE, remote |-> "none"],
            fromCustomer |-> [ibgp |-> FALSE, addpath |-> FALSE, roles |-> TRUE, remote |-> "customer"],
            fromRSClient |-> [ibgp |-> FALSE, addpath |-> FALSE, roles |-> TRUE, remote |-> "rsclient"],
            fromPeer     |-> [ibgp |-> FALSE, addpath |-> FALSE, roles |-> TRUE, remote |-> "peer"],
            fromProvider |-> [ibgp |-> FALSE, addpath |-> FALSE, roles |-> TRUE, remote |-> "provider"],
            fromRS       |-> [ibgp |-> FALSE, addpath |-> FALSE, roles |-> TRUE, remote |-> "rs"] ]
C == CfgDef[cfg]
Pids == IF C.addpath THEN {1, 2} ELSE {0}
PeerASN == IF C.ibgp THEN LocalASN ELSE PeerASNe

(* announcement bundles: what the peer sends *)
B(lp, med, nh, asp, oid, cl, otc) ==
    [type |-> "bgp", lp |-> lp, med |-> med, nh |-> nh, asp |-> asp, oid |-> oid, cl |-> cl, otc |-> otc, pid |-> 0]
BD == [ ok1    |-> B(0,   0, 1, <<65001, 65002>>, 0, <<>>, 0),
        ok2    |-> B(150, 5, 2, <<65001>>, 0, <<>>, 0),
        ok3    |-> B(0,   0, 3, <<65001, 65003, 65004>>, 5, <<9>>, 0),     \* reflected by somebody else
        loop   |-> B(0,   0, 4, <<65001, 65000, 65002>>, 0, <<>>, 0),      \* contains the local ASN
        oid    |-> B(0,   0, 5, <<65001>>, RouterID, <<9>>, 0),            \* our router id as ORIGINATOR_ID
        clus   |-> B(0,   0, 6, <<65001>>, 5, <<9, ClusterID>>, 0),        \* our cluster id in the CLUSTER_LIST
        empty  |-> B(0,   0, 7, <<>>, 0, <<>>, 0),                         \* empty AS_PATH
        otcP   |-> B(0,   0, 8, <<65001>>, 0, <<>>, PeerASNe),             \* OTC = the peer's ASN
        otcX   |-> B(0,   0, 9, <<65001, 65007>>, 0, <<>>, 65007) ]        \* OTC = some other ASN

InSeq(x, s) == \E i \in 1..Len(s) : s[i] = x

(* RFC 9234 section 5 ingress *)
OTCOk(b) ==
    IF ~C.roles THEN TRUE
    ELSE IF b.otc # 0 /\ C.remote \in {"customer", "rsclient"} THEN FALSE
    ELSE IF b.otc # 0 /\ C.remote = "peer" /\ b.otc # PeerASN THEN FALSE
    ELSE TRUE

Eligible(n) ==
    LET b == BD[n] IN
    /\ ~(~C.ibgp /\ b.asp = <<>>)
    /\ ~InSeq(LocalASN, b.asp)
    /\ b.oid # RouterID
    /\ ~InSeq(ClusterID, b.cl)
    /\ OTCOk(b)

(* the stored form of an accepted announcement: default LOCAL_PREF on eBGP, OTC added when received from *)
(* a provider, peer or route server without one                                                         *)
Pre(n, pid) ==
    LET b == BD[n]
        lp == IF ~C.ibgp /\ b.lp = 0 THEN 100 ELSE b.lp
        otc == IF C.roles /\ b.otc = 0 /\ C.remote \in {"provider", "peer", "rs"} THEN PeerASN ELSE b.otc
    IN [b EXCEPT !.lp = lp, !.otc = otc, !.pid = pid]

(* import policies *)
PolDef == [ accept  |-> AcceptAll,
            rejall  |-> RejectAll,
            rej01   |-> << << Term(<<Cond(<<RF(<<0, 1>>, "orlonger")>>, <<>>)>>, <<Act("reject")>>),
                              Term(<<>>, <<Act("accept")>>) >> >>,
            setlp   |-> << << Term(<<>>, <<ActV("lp", 200), Act("accept")>>) >> >>,
            setlp3  |-> << << Term(<<>>, <<ActV("lp", 300), Act("accept")>>) >> >>,
            setmed  |-> << << Term(<<>>, <<ActV("med", 7), Act("accept")>>) >> >>,
            setnh   |-> << << Term(<<>>, <<ActV("nh", 9), Act("accept")>>) >> >>,
            prep    |-> << << Term(<<>>, <<ActPrepend(65009, 1), Act("accept")>>) >> >>,
            prep2   |-> << << Term(<<>>, <<ActPrepend(65008, 1), Act("accept")>>) >> >>,
            lp01    |-> << << Term(<<Cond(<<RF(<<0, 1>>, "exact")>>, <<>>)>>, <<ActV("lp", 250)>>),
                              Term(<<>>, <<Act("accept")>>) >> >> ]

Import(po, x, n, pid) == Eval(PolDef[po], x, Pre(n, pid))
Visible(po, x, n, pid) == n # "none" /\ Eligible(n) /\ ~Import(po, x, n, pid).reject
(* what a registered consumer must hold for table t under policy po *)
Contribution(t, po) == {[pfx |-> k[1], path |-> Import(po, k[1], t[k], k[2]).path] :
                          k \in {k \in DOMAIN t : Visible(po, k[1], t[k], k[2])}}

State == [adjin |-> {[pfx |-> k[1], pid |-> k[2], b |-> adjIn'[k]] : k \in {k \in DOMAIN adjIn' : adjIn'[k] # "none"}},
          pol |-> pol', reg |-> reg', got |-> got']
Log(r) == hist' = Append(hist, r @@ [st |-> State])

Init == /\ cfg \in Cfgs
        /\ adjIn = [k \in Pfxs \X (IF CfgDef[cfg].addpath THEN {1, 2} ELSE {0}) |-> "none"]
        /\ pol \in Pols
        /\ reg = [c \in Consumers |-> c = "loc"]                 \* the session's address family registers the Loc-RIB first
        /\ got = [c \in Consumers |-> {}]
        /\ hist = << [a |-> "Config", cfg |-> CfgDef[cfg], cfgname |-> cfg, pol |-> pol, chain |-> PolDef[pol],
                      st |-> [adjin |-> {}, pol |-> pol, reg |-> reg, got |-> got]] >>

(* every registered consumer is brought from the contribution of (t1, p1) to that of (t2, p2) *)
Deliver(t1, p1, t2, p2) ==
    got' = [c \in Consumers |-> IF reg[c] THEN (got[c] \ Contribution(t1, p1)) \cup Contribution(t2, p2) ELSE got[c]]

(* an UPDATE announcing pfx with path id pid: replaces the previous announcement with the same key *)
Announce(x, pid, n) ==
    /\ LET t2 == [adjIn EXCEPT ![<<x, pid>>] = n] IN
         adjIn' = t2 /\ Deliver(adjIn, pol, t2, pol)
    /\ UNCHANGED <<cfg, pol, reg>>
    /\ Log([a |-> "Announce", pfx |-> x, pid |-> pid, b |-> n, br |-> BD[n]])

(* a withdrawal: with add-path receive only the path with that id, otherwise everything stored for the prefix *)
Withdraw(x, pid) ==
    /\ LET t2 == [adjIn EXCEPT ![<<x, pid>>] = "none"] IN
         adjIn' = t2 /\ Deliver(adjIn, pol, t2, pol)
    /\ UNCHANGED <<cfg, pol, reg>>
    /\ Log([a |-> "Withdraw", pfx |-> x, pid |-> pid])

Flush ==
    /\ LET t2 == [k \in DOMAIN adjIn |-> "none"] IN
         adjIn' = t2 /\ Deliver(adjIn, pol, t2, pol)
    /\ UNCHANGED <<cfg, pol, reg>>
    /\ Log([a |-> "Flush"])

Register(c) ==
    /\ ~reg[c]
    /\ reg' = [reg EXCEPT ![c] = TRUE]
    /\ got' = [got EXCEPT ![c] = Contribution(adjIn, pol)]
    /\ UNCHANGED <<cfg, adjIn, pol>>
    /\ Log([a |-> "Register", c |-> c])

(* unregistering removes exactly what the session contributed to that consumer *)
Unregister(c) ==
    /\ reg[c]
    /\ reg' = [reg EXCEPT ![c] = FALSE]
    /\ got' = [got EXCEPT ![c] = {}]
    /\ UNCHANGED <<cfg, adjIn, pol>>
    /\ Log([a |-> "Unregister", c |-> c])

ReplacePolicy(p2) ==
    /\ p2 # pol
    /\ pol' = p2
    /\ Deliver(adjIn, pol, adjIn, p2)
    /\ UNCHANGED <<cfg, adjIn, reg>>
    /\ Log([a |-> "ReplacePolicy", pol |-> p2, chain |-> PolDef[p2]])

Step == \/ \E x \in Pfxs, pid \in Pids, n \in Bundles : Announce(x, pid, n)
        \/ \E x \in Pfxs, pid \in Pids : Withdraw(x, pid)
        \/ Flush
        \/ \E c \in Consumers : Register(c) \/ Unregister(c)
        \/ \E p2 \in Pols : ReplacePolicy(p2)
Next == Len(hist) < MaxDepth /\ Step
NextSim == IF Len(hist) < MaxDepth THEN Step ELSE PrintT("BEH " \o ToJson(hist)) /\ UNCHANGED vars
Spec == Init /\ [][Next]_vars

-----------------------------------------------------------------------------
(* C05 / C12: a registered consumer holds exactly the contribution under the CURRENT policy; an unregistered one nothing *)
MirrorsAdjRIBIn == \A c \in Consumers : got[c] = (IF reg[c] THEN Contribution(adjIn, pol) ELSE {})
(* C06 *)
NoIneligible == \A c \in Consumers : \A e \in got[c] :
                  \E k \in DOMAIN adjIn : k[1] = e.pfx /\ adjIn[k] # "none" /\ Eligible(adjIn[k]) /\ e.path.pid = k[2]
(* replacement: same key never contributes twice *)
OnePerKey == \A c \in Consumers : \A e1, e2 \in got[c] : (e1.pfx = e2.pfx /\ e1.path.pid = e2.path.pid) => e1 = e2

View == <<cfg, adjIn, pol, reg, got>>
Emit == PrintT("BEH " \o ToJson(hist'))
=============================================================================
