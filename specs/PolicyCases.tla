----------------------------- MODULE PolicyCases -----------------------------
(* Enumeration / sampling of policy programs for C14.  Every case = a chain,   *)
(* the outcome of Policy!Eval on every prefix of the universe x 3 paths, and   *)
(* the single-leaf mutations of the chain with the verdict whether they are    *)
(* outcome-equivalent (for the clause on Chain.Equal).                         *)
EXTENDS Policy, Integers, Json

CONSTANTS W,        \* universe of prefixes: bit sequences of length 0..W
          Mode,     \* "small": all 1-filter 1-term programs;  "random": Sample random programs of up to 3x3 terms
          Sample

VARIABLES chain

Universe == UNION {[1..n -> {0, 1}] : n \in 0..W}

Pats == {<<>>, <<0>>, <<0, 1>>, <<1, 0>>}
RFSet == {RF(p, m) : p \in Pats, m \in {"exact", "orlonger", "longer"}}
         \cup {RFRange(<<>>, 1, 2), RFRange(<<0>>, 1, 2), RFRange(<<0>>, 2, 3), RFRange(<<0, 1>>, 0, 3)}
PLSet == {<< <<0>> >>, << <<0, 1>>, <<1>> >>, << <<>> >>}
CondSet == {Cond(<<rf>>, <<>>) : rf \in RFSet}
           \cup {Cond(<<>>, <<pl>>) : pl \in PLSet}
           \cup {Cond(<<RF(<<0>>, "orlonger")>>, << << <<0, 1>>, <<1>> >> >>),       \* route filter AND prefix list
                 Cond(<<RF(<<0, 1>>, "exact"), RF(<<1>>, "orlonger")>>, <<>>),        \* two route filters: any
                 Cond(<<>>, << << <<0>> >>, << <<1>> >> >>),                          \* two prefix lists: any
                 CondProto(<<"bgp">>), CondProto(<<"static">>), CondProto(<<"static", "bgp">>)}
(* action values collide on purpose with values of OTHER attributes of the input paths (LOCAL_PREF 100/200, MED 0/5, *)
(* next hop 1/2/3) so that an action reading or writing the wrong attribute is visible                             *)
ActSet == {Act("accept"), Act("reject"), ActV("lp", 200), ActV("lp", 5), ActV("med", 5), ActV("med", 100), ActV("med", 200),
           ActV("nh", 9), ActV("nh", 2), ActPrepend(65001, 2), ActPrepend(65010, 1)}

PathIn == [ A |-> [type |-> "bgp", lp |-> 100, med |-> 0, nh |-> 1, asp |-> <<65010>>],
            B |-> [type |-> "bgp", lp |-> 200, med |-> 5, nh |-> 2, asp |-> <<>>],
            S |-> [type |-> "static", lp |-> 0, med |-> 0, nh |-> 3, asp |-> <<>>] ]

-----------------------------------------------------------------------------
(* random programs; every generator takes a dummy argument so that TLC does not cache it as a constant *)
RECURSIVE RandSeq(_, _)
RandSeq(S, n) == IF n = 0 THEN <<>> ELSE <<RandomElement(S)>> \o RandSeq(S, n - 1)
RandTerm(d) == [from |-> RandSeq(CondSet, RandomElement(0..2)), then |-> RandSeq(ActSet, RandomElement(1..3))]
RECURSIVE RandFilter(_)
RandFilter(n) == IF n = 0 THEN <<>> ELSE <<RandTerm(n)>> \o RandFilter(n - 1)
RECURSIVE RandChain(_)
RandChain(n) == IF n = 0 THEN <<>> ELSE <<RandFilter(RandomElement(1..3))>> \o RandChain(n - 1)

SmallChains == {<< << Term(f, t) >> >> :
                  f \in {<<>>} \cup {<<c>> : c \in CondSet},
                  t \in {<<a>> : a \in ActSet} \cup {<<a, b>> : a \in ActSet \ {Act("accept"), Act("reject")}, b \in ActSet}}

Init == IF Mode = "small" THEN chain \in SmallChains
        ELSE \E i \in 1..Sample : chain = RandChain(RandomElement(1..3))
Next == UNCHANGED chain

-----------------------------------------------------------------------------
(* single-leaf mutations *)
MutAct(a) == CASE a.k = "lp" -> {[a EXCEPT !.v = a.v + 1]}
               [] a.k = "med" -> {[a EXCEPT !.v = a.v + 1]}
               [] a.k = "nh" -> {[a EXCEPT !.v = a.v + 1]}
               [] a.k = "prepend" -> {[a EXCEPT !.n = a.n + 1], [a EXCEPT !.v = a.v + 1]}
               [] a.k = "accept" -> {Act("reject")}
               [] a.k = "reject" -> {Act("accept")}
MutRF(rf) == {[rf EXCEPT !.m = IF rf.m = "exact" THEN "orlonger" ELSE "exact"],
              [rf EXCEPT !.pat = IF rf.pat = <<>> THEN <<1>> ELSE <<>>]}
              \cup (IF rf.m = "range" THEN {[rf EXCEPT !.max = rf.max + 1], [rf EXCEPT !.min = IF rf.min > 0 THEN rf.min - 1 ELSE 1]} ELSE {})
MutCond(c) == {[c EXCEPT !.rfs[i] = r] : i \in 1..Len(c.rfs), r \in UNION {MutRF(c.rfs[j]) : j \in 1..Len(c.rfs)}}
              \cup {[c EXCEPT !.pls[i] = Append(@, <<1, 1>>)] : i \in 1..Len(c.pls)}
              \cup {[c EXCEPT !.pls[i] = << <<1, 1>> >>] : i \in 1..Len(c.pls)}
              \cup (IF c.protos # <<>> THEN {[c EXCEPT !.protos = IF @ = <<"bgp">> THEN <<"static">> ELSE <<"bgp">>]} ELSE {})
Mutations(ch) ==
    UNION {UNION {
        {[ch EXCEPT ![f][t].then[i] = a2] : i \in 1..Len(ch[f][t].then), a2 \in UNION {MutAct(ch[f][t].then[j]) : j \in 1..Len(ch[f][t].then)}}
        \cup {[ch EXCEPT ![f][t].from[i] = c2] : i \in 1..Len(ch[f][t].from), c2 \in UNION {MutCond(ch[f][t].from[j]) : j \in 1..Len(ch[f][t].from)}}
      : t \in 1..Len(ch[f])} : f \in 1..Len(ch)}

Outcomes(ch) == {[pfx |-> x, path |-> n, out |-> Eval(ch, x, PathIn[n])] : x \in Universe, n \in DOMAIN PathIn}
SameOutcome(c, d) == \A x \in Universe, n \in DOMAIN PathIn : Eval(c, x, PathIn[n]) = Eval(d, x, PathIn[n])

-----------------------------------------------------------------------------
(* design checks of the interpreter *)
AcceptAllAccepts == \A x \in Universe, n \in DOMAIN PathIn :
                      Eval(AcceptAll, x, PathIn[n]) = [path |-> PathIn[n], reject |-> FALSE]
EmptyChainAccepts == \A x \in Universe, n \in DOMAIN PathIn : Eval(<<>>, x, PathIn[n]) = [path |-> PathIn[n], reject |-> FALSE]
(* appending anything after a chain that always terminates changes nothing *)
TerminationIsFinal == \A x \in Universe, n \in DOMAIN PathIn :
                        Eval(chain \o RejectAll, x, PathIn[n]).reject \/ Eval(chain, x, PathIn[n]) = Eval(chain \o RejectAll, x, PathIn[n])
(* a rejected path is never rewritten differently from what the chain did before terminating: prefix-closure *)
FilterConcat == \A x \in Universe, n \in DOMAIN PathIn :
                  Eval(AcceptAll \o chain, x, PathIn[n]) = [path |-> PathIn[n], reject |-> FALSE]

EmitCase == PrintT("BEH " \o ToJson([a |-> "Policy", chain |-> chain, paths |-> PathIn, res |-> Outcomes(chain),
               alts |-> {[chain |-> d, same |-> SameOutcome(chain, d)] : d \in Mutations(chain)}]))
=============================================================================
