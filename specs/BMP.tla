---------------------------------- MODULE BMP ----------------------------------
(* BMP receiver: one monitored router (protocols/bgp/server Router: serve,      *)
(* processMsg, bmp_neighbor_manager, fsmAddressFamily.bmpInit/bmpDispose,       *)
(* routingtable/vrf VRFRegistry).  Property C28:                                *)
(*   each per-VRF table of the router holds exactly the routes announced and    *)
(*   not withdrawn by the currently up peers of that VRF; after a peer-down, a  *)
(*   termination message or the loss of the BMP connection nothing learned from *)
(*   that peer / session remains; table observers are informed.                 *)
(* One action per BMP message type the router processes (processMsg) and per    *)
(* connection event (serve returns / serve is called again).                    *)
(* RFC 7854: a monitored peer is exported as up to two views, the pre-policy    *)
(* and the post-policy Adj-RIB-In (L flag); they are separate tables here.      *)
EXTENDS Integers, Sequences, FiniteSets, TLC, Json

CONSTANTS Peers,       \* monitored sessions (subset of DOMAIN PeerDef)
          Pfxs,        \* abstract prefixes (bit sequences)
          Bundles,     \* attribute bundles (subset of DOMAIN BD)
          Stages,      \* views the monitored router exports (subset of {"pre", "post"})
          Cfgs,        \* receiver configurations (subset of DOMAIN CfgDef)
          MaxDepth

VARIABLES cfg,         \* name of the receiver configuration (fixed after Init)
          conn,        \* "up": a connection is being served; "down": serve has returned
          up,          \* set of peers for which a peer-up was received on this connection and no peer-down since
          adjIn,       \* [Peers -> [AllStages -> [Keys(p) -> bundle name | "none"]]]: the monitored Adj-RIBs-In
          seen,        \* VRFs that exist on this connection (created by the first peer-up)
          obs,         \* [VRFs -> "none" | "live" | "ended"]: an observer registered on the VRF's table
          tbl,         \* [VRFs -> set of entries]: the receiver's per-VRF table, maintained message by message
          held,        \* [VRFs -> set of entries]: what a live observer has been told
          hist
vars == <<cfg, conn, up, adjIn, seen, obs, tbl, held, hist>>

AllStages == {"pre", "post"}
LocalASN == 65000

(* monitored sessions: VRF (route distinguisher), transport address, AS, add-path receive negotiated by the two OPENs. *)
(* p3 has the same transport address as p1 in another VRF; p4 is an IPv6 session.                                       *)
PeerDef == [ p1 |-> [vrf |-> "v0", addr |-> 1, as |-> 65001,   addpath |-> FALSE, v6 |-> FALSE],
             p2 |-> [vrf |-> "v0", addr |-> 2, as |-> 65002,   addpath |-> TRUE,  v6 |-> FALSE],
             p3 |-> [vrf |-> "v1", addr |-> 1, as |-> LocalASN, addpath |-> FALSE, v6 |-> FALSE],
             p4 |-> [vrf |-> "v1", addr |-> 4, as |-> 65004,   addpath |-> TRUE,  v6 |-> TRUE] ]
VRFs == {PeerDef[p].vrf : p \in Peers}
Pids(p) == IF PeerDef[p].addpath THEN {1, 2} ELSE {0}
Keys(p) == Pfxs \X Pids(p)

(* what a peer announces *)
BD == [ b1 |-> [nh |-> 1, asp |-> <<65010>>,               med |-> 0, lp |-> 100, comm |-> <<>>],
        b2 |-> [nh |-> 2, asp |-> <<65010, 65020>>,        med |-> 5, lp |-> 200, comm |-> <<100>>],
        b3 |-> [nh |-> 3, asp |-> <<65030, 65020, 65010>>, med |-> 0, lp |-> 100, comm |-> <<100, 200>>] ]

(* receiver configuration (RouterConfig) *)
CfgDef == [ both     |-> [ignorePre |-> FALSE, ignorePost |-> FALSE],
            postOnly |-> [ignorePre |-> TRUE,  ignorePost |-> FALSE],
            preOnly  |-> [ignorePre |-> FALSE, ignorePost |-> TRUE] ]
C == CfgDef[cfg]
Listened(s) == IF s = "pre" THEN ~C.ignorePre ELSE ~C.ignorePost

Empty(p) == [s \in AllStages |-> [k \in Keys(p) |-> "none"]]
Entry(p, s, k, b) == [peer |-> p, post |-> (s = "post"), pfx |-> k[1], pid |-> k[2], b |-> b]
(* the routes of one session: both views *)
Contribution(p, t) == UNION {{Entry(p, s, k, t[s][k]) : k \in {k \in Keys(p) : t[s][k] # "none"}} : s \in AllStages}
(* C28: what the table of VRF v must hold *)
Mirror(v, u, a) == UNION {Contribution(p, a[p]) : p \in {q \in u : PeerDef[q].vrf = v}}

AdjSet(a) == UNION {UNION {{[peer |-> p, stage |-> s, pfx |-> k[1], pid |-> k[2], b |-> a[p][s][k]] :
                              k \in {k \in Keys(p) : a[p][s][k] # "none"}} : s \in AllStages} : p \in Peers}
State == [conn |-> conn', up |-> up', adjin |-> AdjSet(adjIn'), seen |-> seen', obs |-> obs', tbl |-> tbl', held |-> held']
Log(r) == hist' = Append(hist, r @@ [st |-> State])

Init == /\ cfg \in Cfgs
        /\ conn = "up"
        /\ up = {}
        /\ adjIn = [p \in Peers |-> Empty(p)]
        /\ seen = {}
        /\ obs = [v \in VRFs |-> "none"]
        /\ tbl = [v \in VRFs |-> {}]
        /\ held = [v \in VRFs |-> {}]
        /\ hist = << [a |-> "Config", cfg |-> CfgDef[cfg], cfgname |-> cfg, peers |-> [p \in Peers |-> PeerDef[p]],
                      bd |-> [b \in Bundles |-> BD[b]],
                      st |-> [conn |-> "up", up |-> {}, adjin |-> {}, seen |-> {}, obs |-> obs, tbl |-> tbl, held |-> held]] >>

(* a live observer follows its table *)
Follow(t2) == held' = [v \in VRFs |-> IF obs[v] = "live" THEN t2[v] ELSE held[v]]

(* Initiation message (sysName / sysDescr): may arrive at any time, does not touch the tables *)
Initiation ==
    /\ conn = "up"
    /\ UNCHANGED <<cfg, conn, up, adjIn, seen, obs, tbl, held>>
    /\ Log([a |-> "Initiation"])

(* Peer Up Notification: a pseudo session with empty Adj-RIBs-In; the VRF is created if needed *)
PeerUp(p) ==
    /\ conn = "up" /\ p \notin up
    /\ up' = up \cup {p}
    /\ adjIn' = [adjIn EXCEPT ![p] = Empty(p)]
    /\ seen' = seen \cup {PeerDef[p].vrf}
    /\ UNCHANGED <<cfg, conn, obs, tbl, held>>
    /\ Log([a |-> "PeerUp", p |-> p])

(* Route Monitoring message with an UPDATE announcing (b # "none") or withdrawing one NLRI in view s *)
RouteMon(p, s, k, b) ==
    /\ conn = "up" /\ p \in up
    /\ LET v == PeerDef[p].vrf
           old == adjIn[p][s][k]
           rm == IF old = "none" THEN {} ELSE {Entry(p, s, k, old)}
           add == IF b = "none" THEN {} ELSE {Entry(p, s, k, b)}
           t2 == [tbl EXCEPT ![v] = (@ \ rm) \cup add]
       IN IF Listened(s)
          THEN adjIn' = [adjIn EXCEPT ![p][s][k] = b] /\ tbl' = t2 /\ Follow(t2)
          ELSE UNCHANGED <<adjIn, tbl, held>>           \* the receiver is configured to ignore this view
    /\ UNCHANGED <<cfg, conn, up, seen, obs>>
    /\ Log([a |-> "RouteMon", p |-> p, stage |-> s, pfx |-> k[1], pid |-> k[2], b |-> b,
            br |-> IF b = "none" THEN BD.b1 ELSE BD[b], listened |-> Listened(s)])

(* Route Monitoring message whose UPDATE carries two NLRI of one view: both announced with the same attributes, or both *)
(* withdrawn (each NLRI with its own path identifier on an add-path session)                                            *)
RouteMonMulti(p, s, ks, b) ==
    /\ conn = "up" /\ p \in up /\ Cardinality(ks) = 2
    /\ LET v == PeerDef[p].vrf
           rm == {Entry(p, s, k, adjIn[p][s][k]) : k \in {k \in ks : adjIn[p][s][k] # "none"}}
           add == IF b = "none" THEN {} ELSE {Entry(p, s, k, b) : k \in ks}
           t2 == [tbl EXCEPT ![v] = (@ \ rm) \cup add]
       IN IF Listened(s)
          THEN adjIn' = [adjIn EXCEPT ![p][s] = [k \in Keys(p) |-> IF k \in ks THEN b ELSE @[k]]] /\ tbl' = t2 /\ Follow(t2)
          ELSE UNCHANGED <<adjIn, tbl, held>>
    /\ UNCHANGED <<cfg, conn, up, seen, obs>>
    /\ Log([a |-> "RouteMonMulti", p |-> p, stage |-> s, keys |-> {[pfx |-> k[1], pid |-> k[2]] : k \in ks}, b |-> b,
            br |-> IF b = "none" THEN BD.b1 ELSE BD[b], listened |-> Listened(s)])

(* Route Monitoring for a session that is not up (never announced or already down): nothing may be learned *)
StrayRouteMon(p, s, k, b) ==
    /\ conn = "up" /\ p \notin up
    /\ UNCHANGED <<cfg, conn, up, adjIn, seen, obs, tbl, held>>
    /\ Log([a |-> "RouteMon", p |-> p, stage |-> s, pfx |-> k[1], pid |-> k[2], b |-> b, br |-> BD[b], listened |-> FALSE])

(* messages about an up session that carry no route: the End-of-RIB marker of a view, a Statistics Report, *)
(* a Route Mirroring message (which repeats a PDU verbatim and must not be applied to the tables)          *)
Other(p, kind, s) ==
    /\ conn = "up" /\ p \in up
    /\ UNCHANGED <<cfg, conn, up, adjIn, seen, obs, tbl, held>>
    /\ Log([a |-> "Other", p |-> p, kind |-> kind, stage |-> s])

(* Peer Down Notification: everything learned from the session goes, observers are told *)
PeerDown(p) ==
    /\ conn = "up" /\ p \in up
    /\ up' = up \ {p}
    /\ adjIn' = [adjIn EXCEPT ![p] = Empty(p)]
    /\ LET v == PeerDef[p].vrf
           t2 == [tbl EXCEPT ![v] = {e \in @ : e.peer # p}]
       IN tbl' = t2 /\ Follow(t2)
    /\ UNCHANGED <<cfg, conn, seen, obs>>
    /\ Log([a |-> "PeerDown", p |-> p])

(* the session ends: everything goes, the observers of this session's tables are told and released *)
EndSession ==
    /\ conn' = "down"
    /\ up' = {}
    /\ adjIn' = [p \in Peers |-> Empty(p)]
    /\ seen' = {}
    /\ tbl' = [v \in VRFs |-> {}]
    /\ held' = [v \in VRFs |-> {}]
    /\ obs' = [v \in VRFs |-> IF obs[v] = "live" THEN "ended" ELSE obs[v]]
    /\ UNCHANGED cfg

(* Termination message: the router announces the end of the session; the receiver closes the connection *)
Termination == conn = "up" /\ EndSession /\ Log([a |-> "Termination"])
(* the transport connection breaks *)
ConnLoss == conn = "up" /\ EndSession /\ Log([a |-> "ConnLoss"])

(* the router connects again (BMPReceiver serves the same Router object) *)
Reconnect ==
    /\ conn = "down"
    /\ conn' = "up"
    /\ UNCHANGED <<cfg, up, adjIn, seen, obs, tbl, held>>
    /\ Log([a |-> "Reconnect"])

(* somebody (RIS) registers on the table of an existing VRF and is given its current content *)
Observe(v) ==
    /\ conn = "up" /\ v \in seen /\ obs[v] # "live"
    /\ obs' = [obs EXCEPT ![v] = "live"]
    /\ held' = [held EXCEPT ![v] = tbl[v]]
    /\ UNCHANGED <<cfg, conn, up, adjIn, seen, tbl>>
    /\ Log([a |-> "Observe", vrf |-> v])

Step == \/ Initiation
        \/ \E p \in Peers : PeerUp(p) \/ PeerDown(p)
        \/ \E p \in Peers, s \in Stages : \E k \in Keys(p), b \in Bundles \cup {"none"} : RouteMon(p, s, k, b)
        \/ \E p \in Peers, s \in Stages : \E ks \in SUBSET Keys(p), b \in Bundles \cup {"none"} : RouteMonMulti(p, s, ks, b)
        \/ \E p \in Peers, s \in Stages : \E k \in Keys(p), b \in Bundles : StrayRouteMon(p, s, k, b)
        \/ \E p \in Peers, s \in Stages : Other(p, "eor", s)
        \/ \E p \in Peers : Other(p, "stats", "pre") \/ Other(p, "mirror", "pre")
        \/ Termination \/ ConnLoss \/ Reconnect
        \/ \E v \in VRFs : Observe(v)
Next == Len(hist) < MaxDepth /\ Step
NextSim == IF Len(hist) < MaxDepth THEN Step ELSE PrintT("BEH " \o ToJson(hist)) /\ UNCHANGED vars
Spec == Init /\ [][Next]_vars

-----------------------------------------------------------------------------
(* C28 *)
MirrorsSessions == \A v \in VRFs : tbl[v] = Mirror(v, up, adjIn)
NothingRemains ==
    /\ \A p \in Peers \ up : adjIn[p] = Empty(p)
    /\ \A v \in VRFs : \A e \in tbl[v] : e.peer \in up /\ PeerDef[e.peer].vrf = v
    /\ conn = "down" => up = {} /\ seen = {} /\ \A v \in VRFs : tbl[v] = {}
ObserversInformed == \A v \in VRFs : held[v] = (IF obs[v] = "live" THEN tbl[v] ELSE {})
OnePerKey == \A v \in VRFs : \A e1, e2 \in tbl[v] :
                (e1.peer = e2.peer /\ e1.post = e2.post /\ e1.pfx = e2.pfx /\ e1.pid = e2.pid) => e1 = e2
IgnoredViewsStayOut == \A v \in VRFs : \A e \in tbl[v] : Listened(IF e.post THEN "post" ELSE "pre")
TypeOK == /\ conn \in {"up", "down"} /\ up \subseteq Peers /\ seen \subseteq VRFs
          /\ \A p \in up : PeerDef[p].vrf \in seen
          /\ \A v \in VRFs : obs[v] = "live" => v \in seen

View == <<cfg, conn, up, adjIn, seen, obs, tbl, held>>
Emit == PrintT("BEH " \o ToJson(hist'))
=============================================================================
