-------------------------------- MODULE LocRIB --------------------------------
(* Loc-RIB with observers (routingtable/locRIB, routingtable/client_manager).  *)
(* C02: the selection (best path, ECMP set, order) depends only on the set of  *)
(*      paths present, not on the history.                                     *)
(* C04: a registered client's accumulated paths equal the first paths of the   *)
(*      current selection that its option admits.                              *)
(*                                                                             *)
(* rib[pfx] is the best-first sequence of path names; PD maps a name to its    *)
(* record (DecisionDefs).  One action per public call of LocRIB.               *)
EXTENDS DecisionDefs, Json

CONSTANTS Pfxs,       \* abstract prefixes (bit strings), e.g. {"0", "01"}
          Names,      \* subset of DOMAIN PD used in this run
          Clients,    \* subset of DOMAIN Opt
          MaxDepth,
          MaxPaths,   \* bound on Len(rib[pfx])
          Acts        \* enabled action kinds, subset of {"add", "remove", "replace", "client"}

VARIABLES rib,        \* [Pfxs -> Seq(Names)]  best first
          reg,        \* [Clients -> BOOLEAN]
          view,       \* [Clients -> [Pfxs -> SUBSET Names]] what the client has been given and not taken away
          hist
vars == <<rib, reg, view, hist>>

(* the path domain: pairwise distinguishable, exercising every decision step *)
PD == [ h1 |-> BGP(200, 3, 0, 0, FALSE, 9, 0, -1, 9, 1),    \* highest LOCAL_PREF
        h2 |-> BGP(100, 1, 0, 0, FALSE, 9, 0, -1, 9, 2),    \* shorter AS_PATH
        h3 |-> BGP(100, 2, 0, 5, FALSE, 1, 0, -1, 1, 3),    \* worse MED
        h4 |-> BGP(100, 2, 0, 0, TRUE,  9, 0, -1, 9, 4),    \* eBGP
        h5 |-> BGP(100, 2, 2, 0, TRUE,  1, 0, -1, 1, 5),    \* worse ORIGIN
        t1 |-> BGP(100, 2, 0, 0, FALSE, 2, 0, -1, 1, 6),
        t2 |-> BGP(100, 2, 0, 0, FALSE, 2, 0,  1, 1, 7),    \* CLUSTER_LIST of 1 vs absent
        t3 |-> BGP(100, 2, 0, 0, FALSE, 2, 0,  2, 1, 8),
        t4 |-> BGP(100, 2, 0, 0, FALSE, 3, 2,  1, 2, 9),    \* ORIGINATOR_ID 2 stands in for the identifier
        t5 |-> BGP(100, 2, 0, 0, FALSE, 1, 0, -1, 2, 10),   \* lowest identifier
        t6 |-> BGP(100, 2, 0, 0, FALSE, 2, 0, -1, 2, 11),   \* peer address
        s1 |-> Static(1),
        s2 |-> Static(2) ]
Rec(n) == PD[n]

Opt == [ best |-> [kind |-> "best", n |-> 1], ecmp |-> [kind |-> "ecmp", n |-> 0],
         max1 |-> [kind |-> "max", n |-> 1], max2 |-> [kind |-> "max", n |-> 2], max4 |-> [kind |-> "max", n |-> 4] ]

ASSUME Names \subseteq DOMAIN PD /\ Clients \subseteq DOMAIN Opt
ASSUME \A m, n \in Names : m # n => Cmp(PD[m], PD[n]) # 0      \* no ties in the domain: the selection is a total order

-----------------------------------------------------------------------------
Min(a, b) == IF a < b THEN a ELSE b
SeqSet(s) == {s[i] : i \in 1..Len(s)}
Remove(s, x) == SelectSeq(s, LAMBDA y : y # x)

(* number of leading paths that are equal-cost with the best one *)
ECMPCount(s) == IF s = <<>> THEN 0
                ELSE LET bad == {i \in 2..Len(s) : ~ECMP(PD[s[i - 1]], PD[s[i]])}
                     IN IF bad = {} THEN Len(s) ELSE (CHOOSE i \in bad : \A j \in bad : i <= j) - 1

Limit(s, c) == CASE Opt[c].kind = "best" -> Min(1, Len(s))
                 [] Opt[c].kind = "ecmp" -> ECMPCount(s)
                 [] Opt[c].kind = "max" -> Min(Opt[c].n, Len(s))
TopN(s, c) == {s[i] : i \in 1..Limit(s, c)}

(* what propagateChanges does for one prefix: withdraw what left the window, advertise what entered *)
Propagate(pfx, old, new) ==
    [c \in Clients |-> IF reg[c]
                       THEN [view[c] EXCEPT ![pfx] = (@ \ (TopN(old, c) \ TopN(new, c))) \cup (TopN(new, c) \ TopN(old, c))]
                       ELSE view[c]]

Log(r) == hist' = Append(hist, r @@ [rib |-> rib', ecmp |-> [x \in Pfxs |-> ECMPCount(rib'[x])],
                                     reg |-> reg', view |-> view'])

Init == /\ rib = [x \in Pfxs |-> <<>>]
        /\ reg = [c \in Clients |-> FALSE]
        /\ view = [c \in Clients |-> [x \in Pfxs |-> {}]]
        /\ hist = <<>>

AddPath(pfx, n) ==
    /\ n \notin SeqSet(rib[pfx]) /\ Len(rib[pfx]) < MaxPaths
    /\ LET new == InsertBy(Rec, rib[pfx], n) IN
         /\ rib' = [rib EXCEPT ![pfx] = new]
         /\ view' = Propagate(pfx, rib[pfx], new)
    /\ UNCHANGED reg
    /\ Log([a |-> "AddPath", pfx |-> pfx, p |-> n, pr |-> PD[n]])

(* removing an absent path changes nothing *)
RemovePath(pfx, n) ==
    /\ LET new == Remove(rib[pfx], n) IN
         /\ rib' = [rib EXCEPT ![pfx] = new]
         /\ view' = Propagate(pfx, rib[pfx], new)
    /\ UNCHANGED reg
    /\ Log([a |-> "RemovePath", pfx |-> pfx, p |-> n, pr |-> PD[n]])

ReplacePath(pfx, o, n) ==
    /\ o \in SeqSet(rib[pfx]) /\ n \notin SeqSet(rib[pfx])
    /\ LET new == InsertBy(Rec, Remove(rib[pfx], o), n) IN
         /\ rib' = [rib EXCEPT ![pfx] = new]
         /\ view' = Propagate(pfx, rib[pfx], new)
    /\ UNCHANGED reg
    /\ Log([a |-> "ReplacePath", pfx |-> pfx, old |-> o, oldr |-> PD[o], p |-> n, pr |-> PD[n]])

(* a (fresh) client registers: it is dumped the current window of every prefix *)
Register(c) ==
    /\ ~reg[c]
    /\ reg' = [reg EXCEPT ![c] = TRUE]
    /\ view' = [view EXCEPT ![c] = [x \in Pfxs |-> TopN(rib[x], c)]]
    /\ UNCHANGED rib
    /\ Log([a |-> "Register", c |-> c, opt |-> Opt[c]])

Unregister(c) ==
    /\ reg[c]
    /\ reg' = [reg EXCEPT ![c] = FALSE]
    /\ UNCHANGED <<rib, view>>
    /\ Log([a |-> "Unregister", c |-> c])

(* RefreshClient re-sends the window of every prefix *)
Refresh(c) ==
    /\ reg[c]
    /\ view' = [view EXCEPT ![c] = [x \in Pfxs |-> TopN(rib[x], c)]]
    /\ UNCHANGED <<rib, reg>>
    /\ Log([a |-> "Refresh", c |-> c])

Step == \/ "add" \in Acts /\ \E pfx \in Pfxs, n \in Names : AddPath(pfx, n)
        \/ "remove" \in Acts /\ \E pfx \in Pfxs, n \in Names : RemovePath(pfx, n)
        \/ "replace" \in Acts /\ \E pfx \in Pfxs, o, n \in Names : ReplacePath(pfx, o, n)
        \/ "client" \in Acts /\ \E c \in Clients : Register(c) \/ Unregister(c) \/ Refresh(c)

Next == Len(hist) < MaxDepth /\ Step
NextSim == IF Len(hist) < MaxDepth THEN Step ELSE PrintT("BEH " \o ToJson(hist)) /\ UNCHANGED vars
Spec == Init /\ [][Next]_vars

-----------------------------------------------------------------------------
(* C02: the selection is a function of the set of paths present *)
RECURSIVE SortSet(_)
SortSet(S) == IF S = {} THEN <<>>
              ELSE LET b == CHOOSE x \in S : \A y \in S \ {x} : Cmp(PD[x], PD[y]) = 1
                   IN <<b>> \o SortSet(S \ {b})
SelectionIsFunctionOfSet == \A x \in Pfxs : rib[x] = SortSet(SeqSet(rib[x]))

(* C04 *)
ClientsHoldWindow == \A c \in Clients : reg[c] => \A x \in Pfxs : view[c][x] = TopN(rib[x], c)
UnregisteredUntouched == [][\A c \in Clients : (~reg[c] /\ ~reg'[c]) => view'[c] = view[c]]_vars
(* the window is a prefix of the selection, so the best path is in every non-empty window *)
WindowHasBest == \A c \in Clients, x \in Pfxs : (reg[c] /\ rib[x] # <<>>) => Head(rib[x]) \in view[c][x]

View == <<rib, reg, view>>
Emit == PrintT("BEH " \o ToJson(hist'))
=============================================================================
