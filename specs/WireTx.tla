-------------------------------- MODULE WireTx --------------------------------
(* What bio-rd puts on the wire for a set of prefixes sharing one attribute    *)
(* bundle (packet.PathAttributes, BGPUpdate.SerializeUpdate, UpdateSender      *)
(* packing): byte-exact sizes and the attribute set, properties C17, C18 and   *)
(* the wire clauses of C09.  A case = session options + attribute size classes *)
(* + number and length of the prefixes; TLC enumerates the classes around the  *)
(* encoding boundaries (255/256 bytes, 255 ASNs per segment, 4096 bytes).      *)
EXTENDS Naturals, Sequences, FiniteSets, TLC, Json

CONSTANTS Sessions,     \* subset of DOMAIN SessDef
          ASCounts,     \* numbers of ASNs in the AS_PATH
          CommCounts, LCommCounts, ClusterCounts,
          UnknownSizes, \* sizes of one unknown transitive attribute (0 = none)
          PfxCounts, PfxLens,
          Flavours      \* subset of {"plain", "otc", "med", "prepend-full-segment", "prepend-many", "two-unknown"}

VARIABLES c             \* the case

SessDef == [ v4e    |-> [v6 |-> FALSE, addpath |-> FALSE, ibgp |-> FALSE, rrc |-> FALSE, asn4 |-> TRUE],
             v4e2   |-> [v6 |-> FALSE, addpath |-> FALSE, ibgp |-> FALSE, rrc |-> FALSE, asn4 |-> FALSE],
             v4eAP  |-> [v6 |-> FALSE, addpath |-> TRUE,  ibgp |-> FALSE, rrc |-> FALSE, asn4 |-> TRUE],
             v4i    |-> [v6 |-> FALSE, addpath |-> FALSE, ibgp |-> TRUE,  rrc |-> FALSE, asn4 |-> TRUE],
             v4rr   |-> [v6 |-> FALSE, addpath |-> FALSE, ibgp |-> TRUE,  rrc |-> TRUE,  asn4 |-> TRUE],
             v6e    |-> [v6 |-> TRUE,  addpath |-> FALSE, ibgp |-> FALSE, rrc |-> FALSE, asn4 |-> TRUE],
             v6iAP  |-> [v6 |-> TRUE,  addpath |-> TRUE,  ibgp |-> TRUE,  rrc |-> FALSE, asn4 |-> TRUE],
             v6rr   |-> [v6 |-> TRUE,  addpath |-> FALSE, ibgp |-> TRUE,  rrc |-> TRUE,  asn4 |-> TRUE] ]

Init == c \in [sess : Sessions, as : ASCounts, comm : CommCounts, lcomm : LCommCounts, cl : ClusterCounts,
               unk : UnknownSizes, npfx : PfxCounts, plen : PfxLens, flavour : Flavours]
Next == UNCHANGED c

S == SessDef[c.sess]
Max(a, b) == IF a > b THEN a ELSE b
CeilDiv(a, b) == (a + b - 1) \div b

(* an attribute of v value bytes: 3 bytes of header, 4 with extended length, which is used iff v > 255 *)
AttrLen(v) == v + (IF v > 255 THEN 4 ELSE 3)

(* AS_PATH: segments of at most 255 ASNs *)
ASN == CASE c.flavour = "prepend-full-segment" -> c.as + 1                \* one more ASN prepended at export
         [] c.flavour = "prepend-many" -> c.as + 10                        \* a policy prepends the local AS ten times
         [] OTHER -> c.as
ASSegments == CeilDiv(ASN, 255)
ASPathValue == 2 * ASSegments + ASN * (IF S.asn4 THEN 4 ELSE 2)

MED == IF c.flavour = "med" THEN 77 ELSE 0
OTC == IF c.flavour = "otc" THEN 65001 ELSE 0
Unknowns == IF c.unk = 0 THEN <<>> ELSE IF c.flavour = "two-unknown" THEN <<c.unk, 7>> ELSE <<c.unk>>
RECURSIVE SumAttr(_, _)
SumAttr(s, i) == IF i > Len(s) THEN 0 ELSE AttrLen(s[i]) + SumAttr(s, i + 1)

(* the attribute type codes expected on the wire, and the bytes of all attributes but MP_REACH_NLRI *)
Types == {1, 2}
         \cup (IF S.v6 THEN {14} ELSE {3})
         \cup (IF MED # 0 THEN {4} ELSE {})
         \cup (IF S.ibgp THEN {5} ELSE {})                                      \* LOCAL_PREF only towards iBGP peers
         \cup (IF S.rrc /\ c.cl > 0 THEN {9, 10} ELSE {})                       \* reflected routes
         \cup (IF c.comm > 0 THEN {8} ELSE {})
         \cup (IF c.lcomm > 0 THEN {32} ELSE {})
         \cup (IF OTC # 0 THEN {35} ELSE {})
         \cup (IF c.unk > 0 THEN {200} ELSE {}) \cup (IF Len(Unknowns) = 2 THEN {201} ELSE {})
BaseAttrBytes ==
      4                                                     \* ORIGIN
    + AttrLen(ASPathValue)
    + (IF S.v6 THEN 0 ELSE 7)                               \* NEXT_HOP
    + (IF MED # 0 THEN 7 ELSE 0)
    + (IF S.ibgp THEN 7 ELSE 0)
    + (IF S.rrc /\ c.cl > 0 THEN 7 + AttrLen(4 * c.cl) ELSE 0)
    + (IF c.comm > 0 THEN AttrLen(4 * c.comm) ELSE 0)
    + (IF c.lcomm > 0 THEN AttrLen(12 * c.lcomm) ELSE 0)
    + (IF OTC # 0 THEN 7 ELSE 0)
    + SumAttr(Unknowns, 1)

PerPrefix == 1 + CeilDiv(c.plen, 8) + (IF S.addpath THEN 4 ELSE 0)
(* message length with k prefixes *)
MPReachLen(k) == AttrLen(2 + 1 + 1 + 16 + 1 + k * PerPrefix)
MsgLen(k) == 19 + 4 + BaseAttrBytes + (IF S.v6 THEN MPReachLen(k) ELSE k * PerPrefix)
(* does a single prefix fit at all? otherwise nothing may be emitted for this bundle *)
Fits == MsgLen(1) <= 4096

(* sanity of the arithmetic *)
LenMonotone == MsgLen(2) > MsgLen(1)
ExtendedIffLong == \A v \in {0, 1, 255, 256, 4000} : (AttrLen(v) = v + 4) <=> (v > 255)

(* ORIGINATOR_ID / CLUSTER_LIST on a route that is not reflected (no CLUSTER_LIST yet) towards an RR client: not prescribed *)
OptionalTypes == IF S.rrc /\ c.cl = 0 THEN {9, 10} ELSE {}
OptionalBytes == IF S.rrc /\ c.cl = 0 THEN {0, 7} ELSE {0}

EmitCase == PrintT("BEH " \o ToJson([a |-> "Tx", case |-> c, sess |-> S, asn |-> ASN, med |-> MED, otc |-> OTC,
                unknowns |-> Unknowns, types |-> Types, opttypes |-> OptionalTypes, optbytes |-> OptionalBytes, segs |-> ASSegments, base |-> BaseAttrBytes, perpfx |-> PerPrefix, fits |-> Fits,
                len1 |-> MsgLen(1)]))
=============================================================================
