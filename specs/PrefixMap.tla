------------------------------- MODULE PrefixMap -------------------------------
(* The routing table as a prefix map (routingtable/table.go, trie.go), C01.    *)
(* Abstract prefixes are bit sequences of length <= W (<<>> is the default     *)
(* route); the adapter embeds them at several offsets of the IPv4 and IPv6     *)
(* address space.  tbl maps a prefix to the set of path ids stored for it; the *)
(* lookups are defined on tbl exactly as the property reads.                   *)
EXTENDS Naturals, Sequences, FiniteSets, TLC, Json

CONSTANTS W,          \* universe: all bit sequences of length 0..W (queries range over all of them)
          Pfxs,       \* the prefixes the actions operate on (subset of the universe)
          Ids,        \* path ids, e.g. {"x", "y"}
          MaxDepth,
          Acts,       \* subset of {"add", "remove", "replace", "removepfx"}
          QueryAll    \* TRUE: every step carries the expected lookups; FALSE: only the last step of an emitted behaviour

VARIABLES tbl, hist
vars == <<tbl, hist>>

Universe == UNION {[1..n -> {0, 1}] : n \in 0..W}
ASSUME Pfxs \subseteq Universe

IsPrefixOf(p, q) == Len(p) <= Len(q) /\ \A i \in 1..Len(p) : p[i] = q[i]   \* p contains or equals q
Stored(t) == {p \in Pfxs : t[p] # {}}

(* the lookups *)
Get(t, q) == IF q \in Pfxs THEN t[q] ELSE {}
LPM(t, q) == {p \in Stored(t) : IsPrefixOf(p, q)}          \* stored prefixes that contain or equal q
Longer(t, q) == {p \in Stored(t) : IsPrefixOf(q, p)}       \* q itself if stored and every stored prefix inside q
Dump(t) == Stored(t)
Queries(t) == [dump |-> Dump(t), count |-> Cardinality(Stored(t)),
               qs |-> {[q |-> q, get |-> Get(t, q), lpm |-> LPM(t, q), longer |-> Longer(t, q)] : q \in Universe}]

TblJ(t) == {[pfx |-> p, ids |-> t[p]] : p \in Stored(t)}

Init == tbl = [p \in Pfxs |-> {}] /\ hist = <<>>

(* hist keeps the raw table after each step; the expected lookups are only evaluated when a behaviour is printed *)
Log(r) == hist' = Append(hist, r @@ [st |-> tbl'])
J(h) == [i \in 1..Len(h) |->
           IF QueryAll \/ i = Len(h) THEN [h[i] EXCEPT !.st = TblJ(h[i].st)] @@ [q |-> Queries(h[i].st)]
           ELSE [h[i] EXCEPT !.st = TblJ(h[i].st)]]

AddPath(p, i) == /\ i \notin tbl[p]
                 /\ tbl' = [tbl EXCEPT ![p] = @ \cup {i}]
                 /\ Log([a |-> "AddPath", pfx |-> p, id |-> i])
RemovePath(p, i) == /\ tbl' = [tbl EXCEPT ![p] = @ \ {i}]
                    /\ Log([a |-> "RemovePath", pfx |-> p, id |-> i])
ReplacePath(p, i) == /\ tbl' = [tbl EXCEPT ![p] = {i}]
                     /\ Log([a |-> "ReplacePath", pfx |-> p, id |-> i])
RemovePfx(p) == /\ tbl' = [tbl EXCEPT ![p] = {}]
                /\ Log([a |-> "RemovePfx", pfx |-> p, id |-> ""])

Step == \/ "add" \in Acts /\ \E p \in Pfxs, i \in Ids : AddPath(p, i)
        \/ "remove" \in Acts /\ \E p \in Pfxs, i \in Ids : RemovePath(p, i)
        \/ "replace" \in Acts /\ \E p \in Pfxs, i \in Ids : ReplacePath(p, i)
        \/ "removepfx" \in Acts /\ \E p \in Pfxs : RemovePfx(p)
Next == Len(hist) < MaxDepth /\ Step
NextSim == IF Len(hist) < MaxDepth THEN Step ELSE PrintT("BEH " \o ToJson(J(hist))) /\ UNCHANGED vars
Spec == Init /\ [][Next]_vars

-----------------------------------------------------------------------------
(* laws relating the lookups (design check) *)
GetIffDumped == \A q \in Universe : (Get(tbl, q) # {}) <=> (q \in Dump(tbl))
LPMIsChain == \A q \in Universe : \A a, b \in LPM(tbl, q) : IsPrefixOf(a, b) \/ IsPrefixOf(b, a)
LongerOfRootIsDump == Longer(tbl, <<>>) = Dump(tbl)
LPMAndLongerMeetAtQuery == \A q \in Universe : LPM(tbl, q) \cap Longer(tbl, q) = (IF q \in Stored(tbl) THEN {q} ELSE {})
Duality == \A a, b \in Universe : (a \in Stored(tbl) /\ b \in Stored(tbl) /\ IsPrefixOf(a, b)) =>
              (a \in LPM(tbl, b) /\ b \in Longer(tbl, a))
CountIsDump == Queries(tbl).count = Cardinality(Dump(tbl))

View == tbl
Emit == PrintT("BEH " \o ToJson(J(hist')))
=============================================================================
