------------------------------- MODULE ISISWire -------------------------------
(* IS-IS PDUs on the wire (protocols/isis/packet), property C30.               *)
(*                                                                             *)
(* A PDU is a record of a kind (hello / lsp / csnp / psnp), a class of fixed   *)
(* field values and a sequence of TLV descriptors [k, n, w]: kind, number of   *)
(* items, per-item width parameter.  The module defines the byte LAYOUT of a   *)
(* PDU (sequence of field sizes: LLC, common header, fixed part, TLVs), from   *)
(* which the total length, the PDU-length field, the offset of every TLV and   *)
(* every field boundary follow, and the MUTATION classes of a serialised PDU   *)
(* (truncation at every field boundary, TLV length 0 / 1 / true-1 / true+1 /   *)
(* 255, TLV type replaced by every other known or unknown type, PDU length     *)
(* field wrong, PDU type replaced, inner length bytes, header bytes, trailing  *)
(* bytes).                                                                     *)
(*                                                                             *)
(* Pure-function convention: Init enumerates cases, EmitCase prints them.      *)
(*   RoundTrip  a PDU bio-rd builds with its constructors and serialises must  *)
(*              decode back to the same content (fixed fields, PDU length,     *)
(*              and per TLV type the same items in the same order);            *)
(*   SNP        n LSP entries handed to NewCSNPs / NewPSNPs with a maximum     *)
(*              PDU length: the PDUs produced must decode back to exactly      *)
(*              those entries (how they are packed into TLVs/PDUs is free);    *)
(*   Mutate     the mutated bytes of a valid PDU: Decode returns a PDU or an   *)
(*              error, without panic and without hanging.                      *)
EXTENDS Naturals, Integers, Sequences, FiniteSets, TLC, Json

CONSTANTS Mode,      \* "rt-near" | "rt-random" | "snp" | "mut" | "mut-wide" | "mut-bytes"
          Sample     \* number of random PDUs for "rt-random"

VARIABLES c          \* the case

-----------------------------------------------------------------------------
(* TLV descriptors *)
T(k, n, w) == [k |-> k, n |-> n, w |-> w]

TypeCode(t) == CASE t.k = "area"     -> 1
                 [] t.k = "isneigh"  -> 6
                 [] t.k = "padding"  -> 8
                 [] t.k = "entries"  -> 9
                 [] t.k = "checksum" -> 12
                 [] t.k = "extis"    -> 22
                 [] t.k = "proto"    -> 129
                 [] t.k = "ipaddr"   -> 132
                 [] t.k = "terid"    -> 134
                 [] t.k = "extip"    -> 135
                 [] t.k = "hostname" -> 137
                 [] t.k = "p2padj"   -> 240
                 [] t.k = "unknown"  -> t.w

BytesIn(bits) == (bits + 7) \div 8

(* length of the value part *)
ValLen(t) == CASE t.k = "area"     -> t.n * (1 + t.w)         \* n areas of w bytes, each with a length byte
               [] t.k = "isneigh"  -> 6
               [] t.k = "padding"  -> t.n
               [] t.k = "entries"  -> 16 * t.n
               [] t.k = "checksum" -> 2
               [] t.k = "extis"    -> t.n * (11 + t.w)        \* w = bytes of sub-TLVs per neighbour (0 or 22)
               [] t.k = "proto"    -> t.n
               [] t.k = "ipaddr"   -> 4 * t.n
               [] t.k = "terid"    -> 4
               [] t.k = "extip"    -> t.n * (5 + BytesIn(t.w)) \* w = prefix length in bits
               [] t.k = "hostname" -> t.n
               [] t.k = "p2padj"   -> IF t.n = 1 THEN 15 ELSE 5 \* n = 1: neighbour present
               [] t.k = "unknown"  -> t.n

RECURSIVE Rep(_, _)
Rep(s, n) == IF n = 0 THEN <<>> ELSE s \o Rep(s, n - 1)
NZ(s) == SelectSeq(s, LAMBDA x : x > 0)                         \* a field of size 0 is no field

(* field sizes of the value part *)
ValFields(t) == NZ(CASE t.k = "area"     -> Rep(<<1, t.w>>, t.n)
                     [] t.k = "isneigh"  -> <<6>>
                     [] t.k = "padding"  -> <<t.n>>
                     [] t.k = "entries"  -> Rep(<<2, 6, 1, 1, 4, 2>>, t.n)
                     [] t.k = "checksum" -> <<2>>
                     [] t.k = "extis"    -> Rep(<<6, 1, 3, 1>> \o (IF t.w = 22 THEN <<1, 1, 4, 1, 1, 4, 1, 1, 4, 4>> ELSE <<>>), t.n)
                     [] t.k = "proto"    -> Rep(<<1>>, t.n)
                     [] t.k = "ipaddr"   -> Rep(<<4>>, t.n)
                     [] t.k = "terid"    -> <<4>>
                     [] t.k = "extip"    -> Rep(<<4, 1, BytesIn(t.w)>>, t.n)
                     [] t.k = "hostname" -> <<t.n>>
                     [] t.k = "p2padj"   -> IF t.n = 1 THEN <<1, 4, 6, 4>> ELSE <<1, 4>>
                     [] t.k = "unknown"  -> <<t.n>>)

(* offsets (inside the value) of length bytes that the decoder interprets *)
InnerLenOffsets(t) == IF t.k = "area" THEN {(i - 1) * (1 + t.w) : i \in 1..t.n} ELSE {}

-----------------------------------------------------------------------------
(* PDUs *)
LLC == <<1, 1, 1>>
Header == <<1, 1, 1, 1, 1, 1, 1, 1>>          \* discriminator, length indicator, id ext, id len, PDU type, version, reserved, max areas
HdrLen == 11                                   \* LLC + common header
PDUTypeOff == 7                                \* offset of the PDU type byte

Fixed(kind) == CASE kind = "hello" -> <<1, 6, 2, 2, 1>>                  \* circuit type, system id, holding timer, PDU length, circuit id
                 [] kind = "lsp"   -> <<2, 2, 6, 1, 1, 4, 2, 1>>         \* PDU length, lifetime, LSP id, sequence, checksum, type block
                 [] kind = "csnp"  -> <<2, 6, 1, 6, 1, 1, 6, 1, 1>>      \* PDU length, source id, start LSP id, end LSP id
                 [] kind = "psnp"  -> <<2, 6, 1>>                        \* PDU length, source id
PDULenOff(kind) == IF kind = "hello" THEN HdrLen + 9 ELSE HdrLen
PDUType(kind) == CASE kind = "hello" -> 17 [] kind = "lsp" -> 20 [] kind = "csnp" -> 25 [] kind = "psnp" -> 27

RECURSIVE SumSeq(_)
SumSeq(s) == IF s = <<>> THEN 0 ELSE Head(s) + SumSeq(Tail(s))
RECURSIVE Flat(_)
Flat(ss) == IF ss = <<>> THEN <<>> ELSE Head(ss) \o Flat(Tail(ss))

TLVFields(t) == <<1, 1>> \o ValFields(t)
Layout(p) == LLC \o Header \o Fixed(p.kind) \o Flat([i \in 1..Len(p.tlvs) |-> TLVFields(p.tlvs[i])])
Total(p) == SumSeq(Layout(p))
PDULen(p) == Total(p) - 3                       \* the LLC header is not part of the PDU
FixedLen(kind) == SumSeq(Fixed(kind))
TLVOff(p, i) == HdrLen + FixedLen(p.kind) + SumSeq([j \in 1..(i - 1) |-> 2 + ValLen(p.tlvs[j])])
RECURSIVE Prefixes(_, _)
Prefixes(s, acc) == IF s = <<>> THEN {acc} ELSE {acc} \cup Prefixes(Tail(s), acc + Head(s))
Boundaries(p) == Prefixes(Layout(p), 0)          \* every field boundary, 0 and Total included

PDU(kind, fix, tlvs) == [kind |-> kind, fix |-> fix, tlvs |-> tlvs]

-----------------------------------------------------------------------------
(* round-trip domain: parameter records, every one within 2 changes of the base + random ones *)
Extra(x) == CASE x = "none"     -> <<>>
              [] x = "pad0"     -> <<T("padding", 0, 0)>>
              [] x = "pad255"   -> <<T("padding", 255, 0)>>
              [] x = "unk0"     -> <<T("unknown", 0, 3)>>
              [] x = "unk7"     -> <<T("unknown", 7, 250)>>
              [] x = "unk255"   -> <<T("unknown", 255, 42)>>
              [] x = "checksum" -> <<T("checksum", 1, 0)>>
              [] x = "isneigh"  -> <<T("isneigh", 1, 0)>>
              [] x = "terid"    -> <<T("terid", 1, 0)>>
              [] x = "twoarea"  -> <<T("area", 1, 2), T("area", 1, 4)>>      \* the same TLV type twice

HelloDom == [ fix   |-> <<"typ", "zero", "max">>,
              adj   |-> <<0, 1>>,
              proto |-> <<2, 0, 1, 3>>,
              ip    |-> <<1, 0, 2, 63>>,
              area  |-> <<1, 0, 2, 3>>,
              areaw |-> <<3, 0, 1, 13>>,
              extra |-> <<"none", "pad0", "pad255", "unk0", "unk7", "unk255", "checksum", "isneigh", "terid", "twoarea">> ]
HelloPDU(r) == PDU("hello", r.fix, <<T("p2padj", r.adj, 0), T("proto", r.proto, 0), T("ipaddr", r.ip, 0), T("area", r.area, r.areaw)>> \o Extra(r.extra))

LSPDom == [ fix    |-> <<"typ", "zero", "max">>,
            area   |-> <<1, 0, 3>>,
            areaw  |-> <<3, 1, 13>>,
            proto  |-> <<2, 0, 3>>,
            ip     |-> <<1, 0, 2, 63>>,
            xip    |-> <<1, 0, 2, 28>>,
            xipw   |-> <<31, 0, 8, 24, 32>>,
            xis    |-> <<1, 0, 2, 7>>,
            xisw   |-> <<22, 0>>,
            host   |-> <<6, 0, 1, 255>>,
            extra  |-> <<"none", "pad255", "unk0", "unk7", "checksum", "isneigh", "terid", "twoarea">> ]
LSPPDU(r) == PDU("lsp", r.fix, <<T("area", r.area, r.areaw), T("proto", r.proto, 0), T("ipaddr", r.ip, 0), T("extip", r.xip, r.xipw),
                                 T("extis", r.xis, r.xisw)>> \o (IF r.host = 0 THEN <<>> ELSE <<T("hostname", r.host, 0)>>) \o Extra(r.extra))
(* host = 0: the server leaves the TLV out when it has no host name; an empty host name TLV is in the extras of the wide mutation set *)

Vals(D, f) == {D[f][i] : i \in 1..Len(D[f])}
BaseOf(D) == [f \in DOMAIN D |-> D[f][1]]
Near(D) == UNION {UNION {{[BaseOf(D) EXCEPT ![f] = v, ![g] = w] : v \in Vals(D, f), w \in Vals(D, g)} : g \in DOMAIN D} : f \in DOMAIN D}
Near1(D) == UNION {{[BaseOf(D) EXCEPT ![f] = v] : v \in Vals(D, f)} : f \in DOMAIN D}
RECURSIVE RandRec(_, _)
RandRec(D, S) == IF S = {} THEN <<>>
                 ELSE LET f == CHOOSE x \in S : TRUE IN (f :> RandomElement(Vals(D, f))) @@ RandRec(D, S \ {f})

RTCase(p) == [a |-> "RoundTrip", pdu |-> p, total |-> Total(p), pdulen |-> PDULen(p)]

(* sequence-number PDUs: n entries, at most `per` entries fit into one PDU of length maxlen (per = 0: an MTU of 1500) *)
SNPMin(kind) == IF kind = "csnp" THEN 33 ELSE 17
SNPCase(kind, fix, n, per) ==
    [a |-> "SNP", kind |-> kind, fix |-> fix, n |-> n, per |-> per,
     maxlen |-> IF per = 0 THEN 1500 ELSE SNPMin(kind) + 2 + 16 * per]
SNPCases == {SNPCase(kind, fix, n, per) : kind \in {"csnp", "psnp"}, fix \in {"typ", "zero", "max"},
                                         n \in {0, 1, 2, 3, 4, 5, 7, 15, 16, 17, 31, 32, 100}, per \in {0, 1, 2, 3, 5}}

-----------------------------------------------------------------------------
(* mutation domain *)
KnownTypes == {1, 2, 6, 8, 9, 10, 12, 22, 129, 132, 134, 135, 137, 240}
OtherTypes == {0, 3, 255}
PDUTypes == {15, 16, 17, 18, 20, 24, 25, 27, 36, 38, 0, 255}

SetByte(class, off, w, val) == [class |-> class, off |-> off, w |-> w, val |-> val]
LenVals(L) == ({0, 1, L + 1, 255} \cup (IF L > 0 THEN {L - 1} ELSE {})) \ {L}
Clip(S) == {v \in S : v >= 0 /\ v <= 255}

Mutations(p) ==
    LET n == Len(p.tlvs) IN
       {[class |-> "trunc", at |-> k] : k \in Boundaries(p) \ {Total(p)}}
  \cup UNION {{SetByte("tlvlen", TLVOff(p, i) + 1, 1, v) : v \in Clip(LenVals(ValLen(p.tlvs[i])))} : i \in 1..n}
  \cup UNION {{SetByte("tlvtype", TLVOff(p, i), 1, t) : t \in (KnownTypes \cup OtherTypes) \ {TypeCode(p.tlvs[i])}} : i \in 1..n}
  \cup UNION {{SetByte("inner", TLVOff(p, i) + 2 + o, 1, v) : o \in InnerLenOffsets(p.tlvs[i]), v \in {0, 1, 254, 255}} : i \in 1..n}
  \cup {SetByte("pdulen", PDULenOff(p.kind), 2, v) : v \in {0, PDULen(p) - 1, PDULen(p) + 1, 65535}}
  \cup {SetByte("pdutype", PDUTypeOff, 1, t) : t \in PDUTypes \ {PDUType(p.kind)}}
  \cup {SetByte("hdr", o, 1, v) : o \in (0..(HdrLen - 1)) \ {PDUTypeOff}, v \in {0, 255}}
  \cup {[class |-> "append", n |-> k] : k \in {1, 2, 3, 17}}

Ent(n) == <<T("entries", n, 0)>>
MutBase == { HelloPDU(BaseOf(HelloDom)), HelloPDU([BaseOf(HelloDom) EXCEPT !.adj = 1, !.extra = "unk7"]),
             LSPPDU(BaseOf(LSPDom)),
             PDU("csnp", "typ", Ent(2)), PDU("psnp", "typ", Ent(2)) }
MutWide == {HelloPDU(r) : r \in Near1(HelloDom)} \cup {LSPPDU(r) : r \in Near1(LSPDom)}
           \cup {PDU(k, f, Ent(n)) : k \in {"csnp", "psnp"}, f \in {"typ", "max"}, n \in {0, 1, 3, 15}}
           \cup {PDU("lsp", "typ", <<T("hostname", 0, 0)>>), PDU("hello", "typ", <<>>), PDU("lsp", "zero", <<>>)}
(* byte level: every byte of the PDU set to 0 / 1 / 255 and truncation after every byte *)
ByteMutations(p) == {SetByte("byte", o, 1, v) : o \in 0..(Total(p) - 1), v \in {0, 1, 255}}
                    \cup {[class |-> "trunc", at |-> k] : k \in 0..(Total(p) - 1)}
MutCase(p, m) == [a |-> "Mutate", pdu |-> p, total |-> Total(p), mut |-> m]
MutCases(B) == UNION {{MutCase(p, m) : m \in Mutations(p)} : p \in B}

-----------------------------------------------------------------------------
Init == CASE Mode = "rt-near"   -> c \in {RTCase(HelloPDU(r)) : r \in Near(HelloDom)} \cup {RTCase(LSPPDU(r)) : r \in Near(LSPDom)}
          [] Mode = "rt-random" -> \E i \in 1..Sample :
                                      c = IF i % 2 = 0 THEN RTCase(HelloPDU(RandRec(HelloDom, DOMAIN HelloDom)))
                                                       ELSE RTCase(LSPPDU(RandRec(LSPDom, DOMAIN LSPDom)))
          [] Mode = "snp"       -> c \in SNPCases
          [] Mode = "mut"       -> c \in MutCases(MutBase)
          [] Mode = "mut-wide"  -> c \in MutCases(MutWide)
          [] Mode = "mut-bytes" -> c \in UNION {{MutCase(p, m) : m \in ByteMutations(p)} : p \in MutBase}
Next == UNCHANGED c

-----------------------------------------------------------------------------
(* laws of the definitions (design check) *)
HasPDU == c.a \in {"RoundTrip", "Mutate"}
(* the field sizes of every TLV add up to its declared length, so the offsets computed from lengths are field boundaries *)
FieldsMatchLength == HasPDU => \A i \in 1..Len(c.pdu.tlvs) : SumSeq(ValFields(c.pdu.tlvs[i])) = ValLen(c.pdu.tlvs[i])
OffsetsAreBoundaries == HasPDU => /\ \A i \in 1..Len(c.pdu.tlvs) : TLVOff(c.pdu, i) \in Boundaries(c.pdu)
                                  /\ TLVOff(c.pdu, Len(c.pdu.tlvs) + 1) = Total(c.pdu)
                                  /\ PDULenOff(c.pdu.kind) \in Boundaries(c.pdu)
(* every generated TLV fits the one-byte length field, every PDU the two-byte one *)
Fits == HasPDU => /\ \A i \in 1..Len(c.pdu.tlvs) : ValLen(c.pdu.tlvs[i]) <= 255
                  /\ PDULen(c.pdu) <= 65535
(* a mutation stays inside the serialised PDU and changes it *)
MutationInRange == c.a = "Mutate" =>
                      CASE c.mut.class = "trunc"  -> c.mut.at >= 0 /\ c.mut.at < c.total
                        [] c.mut.class = "append" -> c.mut.n > 0
                        [] OTHER                  -> c.mut.off >= 0 /\ c.mut.off + c.mut.w <= c.total /\ c.mut.val >= 0
SNPBounds == c.a = "SNP" => /\ c.maxlen >= SNPMin(c.kind) + 2 + 16
                            /\ (c.per > 0 => (c.maxlen - SNPMin(c.kind) - 2) \div 16 = c.per)

EmitCase == PrintT("BEH " \o ToJson(c))
=============================================================================
