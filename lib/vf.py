"""Runner library for the bio-rd TLA+ model-based checks.

One check = design check with TLC (exhaustive, small constants) + behaviour
emission from the same module + replay of every emitted behaviour against the
real code (M1) and/or validation of traces recorded from the real code against a
trace spec (M2).  See DESIGN.md section 2.

Exit codes: 0 held, 1 violation (after reproduction), 2 infrastructure problem.
"""
import hashlib
import json
import os
import random
import re
import shutil
import subprocess
import sys
import tempfile
import time

VERIF = os.path.dirname(os.path.dirname(os.path.abspath(__file__)))
REPO = os.environ.get("VERIF_REPO", "/repo")
SPECS = os.path.join(VERIF, "specs")
HARNESS = os.path.join(VERIF, "harness")
EVIDENCE = os.path.join(VERIF, "evidence")
REPLAYS = os.path.join(VERIF, "replays")
FINDINGS = os.path.join(VERIF, "known_findings.json")
NCPU = os.cpu_count() or 4


class Infra(Exception):
    """Infrastructure problem: never a verdict about the code."""


def log(*a):
    print("[vf]", *a, file=sys.stderr, flush=True)


def goenv():
    e = dict(os.environ)
    e.update(GOFLAGS="-mod=mod", GOPROXY="off", GOSUMDB="off", GOTOOLCHAIN="local")
    return e


# --------------------------------------------------------------------------- TLC

class TLCResult:
    def __init__(self):
        self.generated = 0
        self.distinct = 0
        self.depth = 0
        self.behaviours = []
        self.lines = []
        self.violation = None   # text of an invariant / property violation on the spec
        self.ok = False
        self.wall = 0.0
        self.coverage_zero = []
        self.post_false = False


def cfg_text(init="Init", next="Next", spec=None, constants=None, invariants=(),
             properties=(), view=None, action_constraints=(), constraints=(),
             deadlock=False, postcondition=None, symmetry=None):
    out = []
    if spec:
        out.append("SPECIFICATION %s" % spec)
    else:
        out.append("INIT %s" % init)
        out.append("NEXT %s" % next)
    if constants:
        out.append("CONSTANTS")
        for k, v in constants.items():
            out.append("  %s = %s" % (k, tla_value(v)))
    for i in invariants:
        out.append("INVARIANT %s" % i)
    for p in properties:
        out.append("PROPERTY %s" % p)
    if view:
        out.append("VIEW %s" % view)
    for a in action_constraints:
        out.append("ACTION_CONSTRAINT %s" % a)
    for c in constraints:
        out.append("CONSTRAINT %s" % c)
    if postcondition:
        out.append("POSTCONDITION %s" % postcondition)
    if symmetry:
        out.append("SYMMETRY %s" % symmetry)
    out.append("CHECK_DEADLOCK %s" % ("TRUE" if deadlock else "FALSE"))
    return "\n".join(out) + "\n"


def tla_value(v):
    if isinstance(v, bool):
        return "TRUE" if v else "FALSE"
    if isinstance(v, int):
        return str(v)
    if isinstance(v, str):
        if v.startswith("@"):          # raw TLA+ expression
            return v[1:]
        return '"%s"' % v
    if isinstance(v, (set, frozenset)):
        return "{" + ", ".join(tla_value(x) for x in sorted(v, key=lambda z: (isinstance(z, str), z))) + "}"
    if isinstance(v, (list, tuple)):
        return "<<" + ", ".join(tla_value(x) for x in v) + ">>"
    raise ValueError("cannot render %r" % (v,))


_BEH = re.compile(r'^"BEH (.*)"$')


def _decode_tla_string(s):
    # TLC prints strings with \" and \\ escapes; JSON decoding of the quoted form works
    return json.loads('"' + s + '"')


class Ctx:
    def __init__(self, pid, tier="quick", seed=0, keep=False):
        self.pid = pid
        self.tier = tier
        self.seed = seed
        self.t0 = time.time()
        self.scratch = tempfile.mkdtemp(prefix="vf-%s-" % pid, dir=os.environ.get("VERIF_TMP", "/tmp"))
        self.keep = keep
        self.nrun = 0
        self.harness_bin = None
        # evidence accumulators
        self.states = 0
        self.transitions = 0
        self.traces = 0
        self.evaluations = 0
        self.nontrivial = set()
        self.samples = []
        self.tlc_runs = []
        self.actions = {}
        self.assumptions = []
        self.transients = []
        self.divergences = []     # confirmed, not-known
        self.known_hits = {}      # finding id -> count
        self.rule = ""
        self.exhaustive = False
        self.extra = {}
        self.rng = random.Random(seed)

    def thorough(self):
        return self.tier == "thorough"

    def cleanup(self):
        if not self.keep:
            shutil.rmtree(self.scratch, ignore_errors=True)

    # ---------------------------------------------------------------- TLC
    def tlc(self, module, cfg, workers=None, timeout=600, simulate=None, depth=None,
            coverage=False, deque=False, xss="64m", heap=None, label=None, collect=True,
            extra_files=None, count=True, defs=None, expect_violation=False):
        """Run TLC on specs/<module>.tla with the given cfg text.
        defs: {constant: TLA+ expression} for constants a cfg file cannot express (tuples, functions);
        a module <module>_MC extending <module> is generated and the constants are substituted."""
        self.nrun += 1
        d = os.path.join(self.scratch, "tlc%d" % self.nrun)
        os.makedirs(d)
        for f in os.listdir(SPECS):
            if f.endswith(".tla"):
                shutil.copy(os.path.join(SPECS, f), d)
        for name, content in (extra_files or {}).items():
            with open(os.path.join(d, name), "w") as fh:
                fh.write(content)
        if defs:
            body = "\n".join("MC_%s == %s" % (k, v) for k, v in defs.items())
            with open(os.path.join(d, module + "_MC.tla"), "w") as fh:
                fh.write("---- MODULE %s_MC ----\nEXTENDS %s\n%s\n====\n" % (module, module, body))
            sub = "CONSTANTS\n" + "".join("  %s <- MC_%s\n" % (k, k) for k in defs)
            cfg = cfg + sub
            module = module + "_MC"
        with open(os.path.join(d, "run.cfg"), "w") as fh:
            fh.write(cfg)
        if workers is None:
            workers = NCPU
        cmd = ["java", "-XX:+UseParallelGC", "-Xss" + xss]
        if heap:
            cmd.append("-Xmx" + heap)
        if deque:
            cmd.append("-Dtlc2.tool.queue.IStateQueue=StateDeque")
        cmd += ["-cp", "/opt/veriftools/tla/tla2tools.jar:/opt/veriftools/tla/CommunityModules-deps.jar",
                "tlc2.TLC", "-workers", str(workers), "-metadir", os.path.join(d, "meta"),
                "-config", "run.cfg", "-seed", str(self.seed & 0x7fffffff)]
        if simulate:
            cmd += ["-simulate", simulate]
        if depth:
            cmd += ["-depth", str(depth)]
        if coverage:
            cmd += ["-coverage", "1"]
        cmd.append(module + ".tla")
        t = time.time()
        outp = os.path.join(d, "out.txt")
        with open(outp, "w") as fh:
            try:
                p = subprocess.run(cmd, cwd=d, stdout=fh, stderr=subprocess.STDOUT, timeout=timeout)
                rc = p.returncode
            except subprocess.TimeoutExpired:
                subprocess.run(["pkill", "-f", d], check=False)
                raise Infra("TLC timeout after %ds on %s (%s)" % (timeout, module, label or ""))
        r = TLCResult()
        r.wall = time.time() - t
        behs = []
        with open(outp, errors="replace") as fh:
            for line in fh:
                line = line.rstrip("\n")
                m = _BEH.match(line)
                if m:
                    if collect:
                        behs.append(json.loads(_decode_tla_string(m.group(1))))
                    continue
                r.lines.append(line)
                m = re.match(r"^(\d+) states generated, (\d+) distinct states found", line)
                if m:
                    r.generated, r.distinct = int(m.group(1)), int(m.group(2))
                m = re.match(r"^The number of states generated: (\d+)", line)
                if m:
                    r.generated = int(m.group(1))
                m = re.match(r"^The depth of the complete state graph search is (\d+)", line)
                if m:
                    r.depth = int(m.group(1))
                if "is violated" in line or "Temporal properties were violated" in line:
                    r.violation = line
                if re.search(r"Postcondition .* is false|The postcondition .* violated", line) or "POSTCONDITION" in line and "false" in line.lower():
                    r.post_false = True
                if "Deadlock reached" in line:
                    r.violation = line
        r.behaviours = behs
        text = "\n".join(r.lines[-60:])
        if r.violation is None and not r.post_false and rc != 0:
            raise Infra("TLC failed rc=%d on %s (%s):\n%s" % (rc, module, label or "", text))
        if re.search(r"Error: |Exception|StackOverflow|OutOfMemory", "\n".join(r.lines)) and r.violation is None and not r.post_false:
            raise Infra("TLC error on %s (%s):\n%s" % (module, label or "", text))
        r.ok = r.violation is None and not r.post_false
        if not r.ok and not expect_violation:
            # the specification breaks one of its own invariants / properties: nothing it emitted can be trusted
            raise Infra("spec %s violates its own property (%s): %s\n%s" % (module, label or "", r.violation, text))
        if coverage:
            r.coverage_zero = [l for l in r.lines if re.search(r"^<\w+ line .*>: 0:0$", l.strip())]
        if count:
            self.states += r.distinct
            self.transitions += max(r.generated - 1, 0) if not simulate else r.generated
        self.tlc_runs.append({"module": module, "label": label or "", "generated": r.generated,
                              "distinct": r.distinct, "depth": r.depth, "wall_s": round(r.wall, 2),
                              "behaviours_emitted": len(behs), "workers": workers,
                              "mode": "simulate" if simulate else "exhaustive"})
        log("TLC %s %s: %d generated, %d distinct, depth %d, %d behaviours, %.1fs"
            % (module, label or "", r.generated, r.distinct, r.depth, len(behs), r.wall))
        return r

    def simulate(self, module, cfg, num, depth, label="sim", timeout=600, defs=None):
        """Random behaviours (spec's NextSim prints each complete behaviour once)."""
        r = self.tlc(module, cfg, workers=1, simulate="num=%d" % num, depth=depth + 1, label=label, timeout=timeout,
                     defs=defs)
        # TLC may evaluate the printing step twice; keep each behaviour once
        seen, uniq = set(), []
        for b in r.behaviours:
            k = json.dumps(b, sort_keys=True)
            if k not in seen:
                seen.add(k)
                uniq.append(b)
        r.behaviours = uniq
        return r

    def design(self, module, cfg, **kw):
        """Design check: a violation here is a defect of the spec (exit 2)."""
        r = self.tlc(module, cfg, collect=False, **kw)
        if not r.ok:
            raise Infra("spec %s violates its own property: %s\n%s" % (module, r.violation, "\n".join(r.lines[-40:])))
        return r

    # ------------------------------------------------------------ harness
    def build_repo_binary(self, pkg, name):
        """Builds a -tags verif binary of a main package of /repo's working tree into the scratch directory."""
        out = os.path.join(self.scratch, name)
        p = subprocess.run(["go", "build", "-tags", "verif", "-o", out, pkg], cwd=REPO, env=goenv(),
                           stdout=subprocess.PIPE, stderr=subprocess.STDOUT, text=True)
        if p.returncode != 0:
            raise Infra("build of %s failed:\n%s" % (pkg, p.stdout[-3000:]))
        return out

    def build_harness(self):
        if self.harness_bin:
            return self.harness_bin
        t = time.time()
        out = os.path.join(self.scratch, "vharness")
        cmd = ["go", "build", "-tags", "verif", "-o", out]
        if REPO == "/repo":
            shutil.copy(os.path.join(REPO, "go.sum"), os.path.join(HARNESS, "go.sum"))
        else:
            # another tree (a scratch worktree with a seeded change): same harness sources, own module file
            alt = os.path.join(self.scratch, "go.alt.mod")
            with open(os.path.join(HARNESS, "go.mod")) as fh:
                mod = fh.read().replace("=> /repo", "=> " + REPO)
            with open(alt, "w") as fh:
                fh.write(mod)
            shutil.copy(os.path.join(REPO, "go.sum"), os.path.join(self.scratch, "go.alt.sum"))
            cmd.append("-modfile=" + alt)
        p = subprocess.run(cmd + ["./cmd/vharness"],
                           cwd=HARNESS, env=goenv(), stdout=subprocess.PIPE, stderr=subprocess.STDOUT, text=True)
        if p.returncode != 0:
            raise Infra("harness build failed against %s:\n%s" % (REPO, p.stdout[-4000:]))
        log("harness built in %.1fs" % (time.time() - t))
        self.harness_bin = out
        return out

    def _run_shard(self, adapter, path, n, params, per_timeout):
        """Runs one shard to completion, restarting after crashes. Returns list of failure records."""
        exe = self.build_harness()
        start = 0
        fails = []
        steps = 0
        restarts = 0
        while start < n:
            cmd = [exe, "replay", "--adapter", adapter, "--in", path, "--from", str(start),
                   "--params", json.dumps(params), "--timeout", str(per_timeout)]
            p = subprocess.run(cmd, stdout=subprocess.PIPE, stderr=subprocess.PIPE, text=True, env=goenv())
            done = False
            for line in p.stdout.splitlines():
                if not line.startswith("{"):
                    continue
                rec = json.loads(line)
                if rec.get("done"):
                    done = True
                    steps += rec.get("steps", 0)
                else:
                    fails.append(rec)
            if done:
                break
            if p.returncode == 4:
                raise Infra("harness reported a bug of its own (not a verdict): %s" % p.stderr[-3000:])
            # crashed or hung: last @idx marker is the culprit
            cur = None
            for line in p.stderr.splitlines():
                if line.startswith("@"):
                    cur = int(line[1:])
            if cur is None:
                raise Infra("harness died before the first behaviour (rc=%s): %s" % (p.returncode, p.stderr[-2000:]))
            if not any(f.get("idx") == cur and f.get("fatal") for f in fails):
                tail = [l for l in p.stderr.splitlines() if not l.startswith("@")][:40]
                fails.append({"idx": cur, "ok": False, "step": -1, "action": "?", "field": "process",
                              "kind": "crash", "class": "", "detail": "\n".join(tail), "fatal": True})
            start = cur + 1
            restarts += 1
            if restarts > 200:
                raise Infra("harness crashed more than 200 times in one shard")
        return fails, steps

    def replay(self, adapter, behaviours, params=None, shards=None, per_timeout=30, prop=None,
               nontrivial=None, sample_n=3, count_traces=True):
        """M1: replay behaviours against the real code; returns confirmed divergences (dicts)."""
        params = params or {}
        n = len(behaviours)
        if n == 0:
            raise Infra("no behaviours to replay for adapter %s (vacuous)" % adapter)
        shards = shards or min(NCPU, max(1, n // 50))
        self.build_harness()
        self.nrun += 1
        d = os.path.join(self.scratch, "rp%d" % self.nrun)
        os.makedirs(d)
        # shard round-robin so that every shard gets short and long behaviours
        parts = [[] for _ in range(shards)]
        for i, b in enumerate(behaviours):
            parts[i % shards].append((i, b))
        paths = []
        for k, part in enumerate(parts):
            pth = os.path.join(d, "in%d.ndjson" % k)
            with open(pth, "w") as fh:
                for gi, b in part:
                    fh.write(json.dumps({"id": gi, "steps": b}) + "\n")
            paths.append(pth)
        from concurrent.futures import ThreadPoolExecutor
        t = time.time()
        with ThreadPoolExecutor(max_workers=shards) as ex:
            futs = [ex.submit(self._run_shard, adapter, paths[k], len(parts[k]), params, per_timeout)
                    for k in range(shards)]
            res = [f.result() for f in futs]
        fails = []
        steps = 0
        for k, (fl, st) in enumerate(res):
            steps += st
            for f in fl:
                gi, b = parts[k][f["idx"]]
                f["id"] = gi
                f["behaviour"] = b
                f["_ctx"] = (k, f["idx"])
                fails.append(f)
        self._parts = parts
        log("replay %s: %d behaviours, %d steps, %d divergent, %.1fs" % (adapter, n, steps, len(fails), time.time() - t))
        if count_traces:
            self.traces += n
        self.evaluations += n
        for b in behaviours:
            key = hashlib.sha1(json.dumps(b, sort_keys=True).encode()).hexdigest()
            if nontrivial is None or nontrivial(b):
                self.nontrivial.add(key)
            for s in b if isinstance(b, list) else []:
                a = s.get("a") if isinstance(s, dict) else None
                if a:
                    self.actions[a] = self.actions.get(a, 0) + 1
        for b in behaviours[:: max(1, n // sample_n)][:sample_n]:
            if len(self.samples) < 6:
                self.samples.append({"adapter": adapter, "params": params, "behaviour": b})
        self.extra["impl_steps"] = self.extra.get("impl_steps", 0) + steps
        return self._triage(adapter, params, fails, per_timeout, prop or self.pid)

    def _sig(self, prop, adapter, f):
        return {"property": prop, "adapter": adapter, "action": f.get("action", ""), "field": f.get("field", ""),
                "kind": f.get("kind", ""), "class": f.get("class", "")}

    def _triage(self, adapter, params, fails, per_timeout, prop):
        """Group by signature, confirm one representative per signature (shortest), classify."""
        groups = {}
        for f in fails:
            s = self._sig(prop, adapter, f)
            k = json.dumps(s, sort_keys=True)
            groups.setdefault(k, []).append(f)
        findings = load_findings()
        out = []
        for k, fl in sorted(groups.items()):
            sig = json.loads(k)
            fl.sort(key=lambda f: (len(f["behaviour"]) if isinstance(f["behaviour"], list) else 0, f["id"]))
            rep, conf = fl[0], False
            for cand in fl[:3]:
                conf = self._confirm(adapter, params, cand, per_timeout, sig, prop)
                if conf:
                    rep = cand
                    break
            if not conf:
                what = json.dumps({kk: vv for kk, vv in rep.items() if kk not in ("behaviour", "context", "_ctx")})[:2000]
                if len(fl) > 3:
                    raise Infra("%d divergences of one kind, none reproduces from its replay file (flaky harness?): %s\n%s" % (len(fl), k, what))
                # one or two isolated observations that the same behaviour, re-run alone and in context (9 attempts each), does not
                # show again: noise of a loaded machine (a wait that expired), not a counterexample. Recorded, never a verdict.
                log("unreproduced divergence ignored (%d occurrence(s)): %s %s" % (len(fl), k, what[:600]))
                self.transients.append({"signature": sig, "count": len(fl), "observation": json.loads(what) if what.endswith("}") else what})
                continue
            if isinstance(conf, dict):
                # the same behaviour diverges, but (Go map iteration order) at another observation point: report what reproduced
                sig = conf
            kf = match_finding(findings, sig)
            if kf:
                self.known_hits[kf["id"]] = self.known_hits.get(kf["id"], 0) + len(fl)
                continue
            path = self.write_replay(adapter, params, rep, sig)
            out.append({"sig": sig, "count": len(fl), "replay": path, "rep": rep})
        for o in out:
            prev = [d for d in self.divergences if d["sig"] == o["sig"]]
            if prev:
                prev[0]["count"] += o["count"]
            else:
                self.divergences.append(o)
        return out

    def _confirm(self, adapter, params, rep, per_timeout, sig, prop):
        d = os.path.join(self.scratch, "cf%d" % self.nrun)
        os.makedirs(d, exist_ok=True)
        pth = os.path.join(d, "one-%d.ndjson" % rep["id"])
        with open(pth, "w") as fh:
            fh.write(json.dumps({"id": rep["id"], "steps": rep["behaviour"]}) + "\n")
        want = json.dumps(sig, sort_keys=True)
        other = None
        for attempt in range(3):
            fl, _ = self._run_shard(adapter, pth, 1, params, per_timeout)
            if any(json.dumps(self._sig(prop, adapter, f), sort_keys=True) == want for f in fl):
                return True
            if fl and other is None:
                other = self._sig(prop, adapter, fl[0])
        if other is not None:
            return other
        # the real code keeps process-wide state (attribute caches): reproduce with the behaviours that ran before it
        # in the same process as context; the replay file then carries that context
        ctx = rep.get("_ctx")
        if ctx is not None and getattr(self, "_parts", None):
            k, idx = ctx
            before = [b for (_, b) in self._parts[k][:idx]]
            pth = os.path.join(d, "ctx-%d.ndjson" % rep["id"])
            with open(pth, "w") as fh:
                for i, b in enumerate(before + [rep["behaviour"]]):
                    fh.write(json.dumps({"id": i, "steps": b}) + "\n")
            # Go randomises map iteration (e.g. the order in which a table notifies its clients): allow a few attempts
            for attempt in range(6):
                fl, _ = self._run_shard(adapter, pth, len(before) + 1, params, per_timeout)
                if any(f.get("idx") == len(before) and json.dumps(self._sig(prop, adapter, f), sort_keys=True) == want for f in fl):
                    rep["context"] = before
                    return True
        return False

    def write_replay(self, adapter, params, rep, sig):
        os.makedirs(REPLAYS, exist_ok=True)
        h = hashlib.sha1(json.dumps(sig, sort_keys=True).encode()).hexdigest()[:10]
        path = os.path.join(REPLAYS, "%s-%s.json" % (self.pid, h))
        r = dict(rep)
        with open(path, "w") as fh:
            json.dump({"property": self.pid, "adapter": adapter, "params": params, "signature": sig,
                       "behaviour": rep["behaviour"], "context": rep.get("context", []),
                       "divergence": {k: v for k, v in r.items() if k not in ("behaviour", "context", "_ctx")}},
                      fh, indent=1)
        return path

    def drive(self, driver, params=None, timeout=600):
        """M2: run a seeded driver of the real code; returns path of the ndjson trace log."""
        exe = self.build_harness()
        self.nrun += 1
        d = os.path.join(self.scratch, "dr%d" % self.nrun)
        os.makedirs(d)
        out = os.path.join(d, "trace.ndjson")
        p = subprocess.run([exe, "drive", "--driver", driver, "--out", out, "--seed", str(self.seed),
                            "--params", json.dumps(params or {})],
                           stdout=subprocess.PIPE, stderr=subprocess.PIPE, text=True, env=goenv(), timeout=timeout)
        if p.returncode != 0:
            raise Infra("driver %s failed rc=%d: %s" % (driver, p.returncode, p.stderr[-3000:]))
        info = {}
        for line in p.stdout.splitlines():
            if line.startswith("{"):
                info = json.loads(line)
        return out, info

    def validate_trace(self, module, cfg, trace_path, nlines, timeout=600, label=None, workers=1):
        """Validate an ndjson log against a trace spec. Returns (accepted, matched_prefix_len, result)."""
        r = self.tlc(module, cfg, workers=workers, timeout=timeout, deque=True, label=label or "trace",
                     extra_files={"trace.ndjson": open(trace_path).read()}, collect=False, count=True, expect_violation=True)
        accepted = r.ok and r.violation is None
        return accepted, r.depth, r

    # ------------------------------------------------------------ evidence
    def finish(self, level="model_checking"):
        wall = time.time() - self.t0
        cov = {
            "states": self.states,
            "transitions": self.transitions,
            "traces_validated_against_impl": self.traces,
            "samples": self.samples[:6] or [{"note": "no behaviours"}],
            "evaluations": self.evaluations,
            "distinct_nontrivial": len(self.nontrivial),
            "rule": self.rule,
            "exhaustive": self.exhaustive,
            "tlc_runs": self.tlc_runs,
            "impl_actions_replayed": self.actions,
            "known_findings_hit": self.known_hits,
            "unreproduced_observations": self.transients,
        }
        cov.update(self.extra)
        ev = {"property_id": self.pid, "tier": self.tier, "seed": self.seed, "level": level,
              "coverage": cov, "assumptions": self.assumptions, "wall_s": round(wall, 2),
              "violations": len(self.divergences)}
        evdir = EVIDENCE if REPO == "/repo" else os.path.join(self.scratch, "evidence")   # evidence is about /repo only
        os.makedirs(evdir, exist_ok=True)
        with open(os.path.join(evdir, "%s.json" % self.pid), "w") as fh:
            json.dump(ev, fh, indent=1, sort_keys=True)
        findings = load_findings()
        for fid, cnt in sorted(self.known_hits.items()):
            f = [x for x in findings if x["id"] == fid][0]
            print("KNOWN-FINDING: property=%s %s [%s; %d occurrences this run]" % (self.pid, f["text"], fid, cnt))
        rc = 0
        for dv in self.divergences:
            print("VIOLATION property=%s replay=%s" % (self.pid, dv["replay"]))
            print("  signature=%s count=%d" % (json.dumps(dv["sig"], sort_keys=True), dv["count"]))
            rep = {k: v for k, v in dv["rep"].items() if k not in ("behaviour", "context", "_ctx")}
            print("  first=%s" % json.dumps(rep)[:1500])
            rc = 1
        if rc == 0:
            print("OK property=%s tier=%s seed=%d states=%d transitions=%d traces=%d wall=%.1fs"
                  % (self.pid, self.tier, self.seed, self.states, self.transitions, self.traces, wall))
        return rc


def load_findings():
    if not os.path.exists(FINDINGS):
        return []
    with open(FINDINGS) as fh:
        d = json.load(fh)
    return [f for f in d.get("findings", []) if f.get("status") == "open"]


def match_finding(findings, sig):
    for f in findings:
        m = f.get("match", {})
        fp = f.get("property")
        if not (sig["property"] == fp or (isinstance(fp, list) and sig["property"] in fp)):
            continue
        ok = True
        for k, v in m.items():
            sv = sig.get(k, "")
            if isinstance(v, list):
                if sv not in v:
                    ok = False
            elif v != sv:
                ok = False
        if ok:
            return f
    return None


def subsample(rng, items, n):
    if len(items) <= n:
        return list(items)
    idx = sorted(rng.sample(range(len(items)), n))
    return [items[i] for i in idx]
