"""Shared by C08, C09, C11, C12, C13: runs of the RibOut spec and their replay."""
import vf

INV = ["OutIsExportView", "NeverNoAdvertise", "NeverNoExportToEBGP", "EBGPPrependsAndNextHopSelf",
       "ReflectedCarryOriginatorAndCluster", "NoOTCToProviderPeerRS", "OTCToCustomerPeerRSClient", "NoIBGPToNonClient"]
ALLSESS = {"ebgp", "ebgpRS", "ibgp", "ibgpRR", "ebgpAP", "ibgpRRAP", "ibgpAP", "toProviderAP", "toCustomer", "toPeer", "toProvider", "toRS", "toRSClient"}
PFX2 = "{<<0>>, <<0,1>>}"
PFX1 = "{<<0>>}"


def ribout_runs(ctx, designs, runs, sims, embs, nontrivial, budget):
    for label, consts, pfx in designs:
        ctx.design("RibOut", vf.cfg_text(constants=consts, invariants=INV, view="View"), defs={"Pfxs": pfx}, label=label,
                   timeout=3000)
    behs = []
    for label, consts, pfx in runs:
        r = ctx.tlc("RibOut", vf.cfg_text(constants=consts, invariants=INV, view="View", action_constraints=["Emit"]),
                    defs={"Pfxs": pfx}, workers=1, label=label, timeout=3000)
        if not r.ok:
            raise vf.Infra("RibOut violates its own invariants: %s" % r.violation)
        behs += vf.subsample(ctx.rng, r.behaviours, budget)
    for label, consts, pfx, num, depth in sims:
        r = ctx.simulate("RibOut", vf.cfg_text(next="NextSim", constants=dict(consts, MaxDepth=depth)), num=num, depth=depth,
                         defs={"Pfxs": pfx}, label=label, timeout=3000)
        behs += r.behaviours
    for emb in embs:
        ctx.replay("ribout", behs, params={"emb": emb}, nontrivial=nontrivial, per_timeout=8)
    return behs
