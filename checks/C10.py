"""C10 the peer's view equals the Adj-RIB-Out under any timing (spec Sender)."""
import vf

INV = ["QueueWithinAdjOut", "OneQueuedPerPrefix", "Converged", "NoStale"]


def run(ctx):
    big = ctx.thorough()
    behs = {}
    for ap in (False, True):
        c = {"Pfxs": {"x", "y"}, "Paths": {"a", "b", "c"}, "AddPathTX": ap, "MaxDepth": 99, "Acts": {"add", "remove", "flush", "bucket"}, "ViaRibOut": False}
        # design: every interleaving of Adj-RIB-Out changes with single buckets of a round and complete flushes
        ctx.design("Sender", vf.cfg_text(constants=c, invariants=INV, view="View"), label="design addpath=%s" % ap)
        if big:
            ctx.design("Sender", vf.cfg_text(spec="FairSpec", constants=c, properties=["EventuallyQuiet"], view="View"),
                       label="liveness addpath=%s" % ap, timeout=1800)
        # M1: behaviours over the calls that have a public counterpart (AddPath, RemovePath, flush of the whole queue)
        g = dict(c, MaxDepth=6 if not big else 7, Acts={"add", "remove", "flush"})
        r = ctx.tlc("Sender", vf.cfg_text(constants=g, invariants=INV, view="View", action_constraints=["Emit"]), workers=1,
                    label="gen addpath=%s" % ap, timeout=1800)
        if not r.ok:
            raise vf.Infra("Sender violates its invariants: %s" % r.violation)
        rs = ctx.simulate("Sender", vf.cfg_text(next="NextSim", constants=dict(g, MaxDepth=16)), num=1500 if big else 250, depth=16)
        behs[ap] = vf.subsample(ctx.rng, r.behaviours, 30000 if big else 3000) + rs.behaviours
    # the same calls made on the session's Adj-RIB-Out (no add-path): AddPath with any path, also the one already stored
    v = {"Pfxs": {"x", "y"}, "Paths": {"a", "b"}, "AddPathTX": False, "MaxDepth": 6 if not big else 7, "Acts": {"put", "remove", "flush"}, "ViaRibOut": True}
    ctx.design("Sender", vf.cfg_text(constants=dict(v, MaxDepth=99, Acts={"put", "remove", "flush", "bucket"}), invariants=INV, view="View"), label="design via Adj-RIB-Out")
    # all paths (no VIEW): putting the stored path again leaves the abstract state alone, what it did shows at the next flush
    rv = ctx.tlc("Sender", vf.cfg_text(constants=dict(v, Pfxs={"x"}), invariants=INV, action_constraints=["Emit"]), workers=1, label="gen via Adj-RIB-Out", timeout=1800)
    via = vf.subsample(ctx.rng, rv.behaviours, 20000 if big else 2500)
    ctx.rule = ("one witness per transition of the Sender graph (2 prefixes x 3 attribute bundles, with and without add-path; AddPath / "
                "RemovePath as the Adj-RIB-Out issues them, flush of the queue) plus seeded random behaviours of length 16; replayed on "
                "the real UpdateSender bound to a capturing connection, each behaviour 6 times (bucket order is Go map order); after "
                "every step the captured UPDATE stream is decoded by the independent reference decoder and folded into the peer's view "
                "(keyed by prefix and path identifier), which must equal the spec's; also with the sender's periodic goroutine "
                "running (quiescent points only); IPv4 classic and IPv6 multiprotocol; also with the calls made on a real Adj-RIB-Out in front of the sender (AddPath with "
                "any path, the stored one included); the three bundles differ in exactly one attribute, "
                "in turn MED, COMMUNITIES, LARGE_COMMUNITIES, OTC, an unknown transitive attribute, ORIGIN, ATOMIC_AGGREGATE/AGGREGATOR. non-trivial = a RemovePath while something is queued")

    def nt(b):
        q = 0
        for s in b:
            if s["a"] == "RemovePath" and q > 0:
                return True
            q = s["st"]["queued"]
        return False
    for v6 in (False, True):
        ctx.replay("sender", via, params={"addpath": False, "v6": v6, "ibgp": v6, "via_ribout": True}, nontrivial=nt, per_timeout=20)
    for ap in (False, True):
        for v6 in (False, True):
            ctx.replay("sender", behs[ap], params={"addpath": ap, "v6": v6, "ibgp": v6}, nontrivial=nt, per_timeout=20)
        # the bundles differ in exactly one attribute: every attribute that goes on the wire must keep bundles apart
        for differ in ("comm", "lcomm", "otc", "unknown", "origin", "aggr"):
            ctx.replay("sender", vf.subsample(ctx.rng, behs[ap], 6000 if big else 500), params={"addpath": ap, "v6": differ in ("otc", "aggr"),
                       "ibgp": False, "differ": differ}, nontrivial=nt, per_timeout=20)
        tk = [b for b in behs[ap] if any(s["a"] == "Flush" for s in b)]
        ctx.replay("sender", vf.subsample(ctx.rng, tk, 4000 if big else 300), params={"addpath": ap, "v6": False, "ticker": True, "rounds": 2},
                   nontrivial=nt, per_timeout=30)
