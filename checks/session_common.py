"""Shared by C07, C19, C20, C21, C22, C23: runs of the BGPFSM spec and their replay on a real bgpServer."""
import vf

INV = ["AttachedIffEstablished", "RoutesOnlyWhileEstablished", "IdleClosed", "EstablishedOnlyAfterValidOpen"]
PROPS = ["LeavingEstablished", "ErrorsAreNotified"]
EXTRA_UPD = {"mpNoReserved", "annAas4aggr", "annAas4path", "annAaggr", "annAunk", "annAcomm"}
VALID_UPD = {"annA", "annAB", "annC6", "wdA", "wdAannB", "wdAannA", "wdC6", "annD6wdC6", "annC6D6", "eor"}
AP_UPD = {"apA1A2", "apA1B2", "apWdA1", "apWdA2annB1", "apWdA1A2", "apWdA1B2", "apA0A1", "apWdA0"}
BAD_UPD = {"wdLenBeyond", "attrLenBeyond", "attrLenShort", "originLen2", "nextHopLen3", "medLen5", "asPathTrunc", "pfxLen33",
           "pfxLen129", "noOrigin", "noASPath", "noNextHop", "noAttrs", "nlriTrunc", "noNextHopMP", "mpNoOrigin", "mpNoASPath", "mpNH32short", "medLen5ext"}
ALL_OPENS = {"ok", "okNoAS4", "okTrans", "okOddAP", "hold0", "hold3", "hold30", "hold1", "hold2", "badAS", "badAS4", "badASgoodAS4", "transNo4", "idZero", "idOurs",
             "version3", "roleProv", "roleCust", "rolePeer", "rolesCPP", "okAP3", "hold6"}
GARBAGE = {"badMarker", "lenShort", "len18", "lenLong", "badType", "type0"}


def consts(cfg, opens, updates, garbage, stops, depth, sessions=2, pols=(), origs=()):
    return {"Opens": set(opens), "Updates": set(updates), "Garbage": set(garbage), "Stops": set(stops), "LocalCfg": cfg,
            "MaxDepth": depth, "MaxSessions": sessions, "Pols": set(pols), "Origs": set(origs)}


def run_family(ctx, label, c, budget, design=True, sim=None, allpaths=False, keep=None):
    if design:
        ctx.design("BGPFSM", vf.cfg_text(constants=dict(c, MaxDepth=99), invariants=INV, properties=PROPS, view="View"),
                   label="design " + label, timeout=3000)
    # allpaths: no VIEW, every path to the depth bound (events that leave the abstract state alone may still change the real one)
    r = ctx.tlc("BGPFSM", vf.cfg_text(constants=c, invariants=INV, view=None if allpaths else "View", action_constraints=["Emit"]), workers=1,
                label="gen " + label, timeout=3000)
    if not r.ok:
        raise vf.Infra("BGPFSM violates its invariants: %s" % r.violation)
    if keep:      # behaviours that are always replayed; the budget is for the rest
        must = [b for b in r.behaviours if keep(b)]
        behs = must + vf.subsample(ctx.rng, [b for b in r.behaviours if not keep(b)], max(0, budget - len(must)))
    else:
        behs = vf.subsample(ctx.rng, r.behaviours, budget)
    if sim:
        rs = ctx.simulate("BGPFSM", vf.cfg_text(next="NextSim", constants=dict(c, MaxDepth=sim[1], MaxSessions=3)), num=sim[0], depth=sim[1],
                          label="sim " + label)
        behs += rs.behaviours
    return behs
