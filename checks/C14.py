"""C14 policy evaluation vs. the reference interpreter (specs Policy, PolicyCases)."""
import vf

INV = ["AcceptAllAccepts", "EmptyChainAccepts", "TerminationIsFinal", "FilterConcat", "EmitCase"]


def run(ctx):
    big = ctx.thorough()
    behs = []
    r = ctx.tlc("PolicyCases", vf.cfg_text(constants={"W": 3, "Mode": "small", "Sample": 0}, invariants=INV), workers=1,
                label="all 1-filter 1-term programs", timeout=3000)
    if not r.ok:
        raise vf.Infra("Policy interpreter violates its laws: %s" % r.violation)
    behs += r.behaviours
    r = ctx.tlc("PolicyCases", vf.cfg_text(constants={"W": 3, "Mode": "random", "Sample": 6000 if big else 600}, invariants=INV),
                workers=1, label="random programs", timeout=3000)
    if not r.ok:
        raise vf.Infra("Policy interpreter violates its laws: %s" % r.violation)
    behs += r.behaviours
    ctx.rule = ("programs = all chains of 1 filter x 1 term (0-1 conditions from 25, 1-2 actions from 8) exhaustively + seeded random "
                "chains of 1-3 filters x 1-3 terms x 0-2 conditions x 1-3 actions; each evaluated by TLC (Policy!Eval) on all 15 "
                "prefixes of the 3-bit universe x 3 paths (2 BGP, 1 static), the real Chain.Process must return the same verdict and "
                "rewritten path under IPv4 and IPv6 embeddings; every single-leaf mutation of each program is compared with "
                "Chain.Equal: equal chains must be outcome-equivalent. non-trivial = some input is rejected or rewritten")

    def nt(b):
        return any(x["out"]["reject"] or x["out"]["path"] != b["paths"][x["path"]] for x in b["res"])
    for emb in (("v4o8", "v6o60") if not big else ("v4o0", "v4o8", "v4o28", "v6o28", "v6o62", "v6o124")):
        ctx.replay("policy", behs, params={"emb": emb}, nontrivial=nt)
