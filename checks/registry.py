"""Single source of truth for MANIFEST.json (bin/mkmanifest)."""
ALL = ["C%02d" % i for i in range(1, 37)]

BASELINE_OFF = ("cd /repo && GOFLAGS=-mod=mod GOPROXY=off GOSUMDB=off GOTOOLCHAIN=local "
                "go test -json -vet=off -count=1 -timeout 25m ./...")
HOOK_COMMITS = []

NOTES = ("Every check: TLC design check of the TLA+ module, then TLC-generated behaviours replayed against /repo's "
         "working tree (harness rebuilt on every run with -tags verif) and/or recorded traces validated by TLC. "
         "Exit 2 = infrastructure problem (never a verdict). Known findings: /verif/known_findings.json.")

NOT_APPLICABLE = {
    "C26": "data races are pairs of unsynchronised memory accesses in the Go memory model; a TLA+ action is atomic and "
           "neither replay nor trace validation observes individual memory accesses (DESIGN.md section 5)",
}

_MC = ("TLC explores the bounded %s specification exhaustively (design check of the property as invariants) and every "
       "emitted behaviour (one witness per transition plus seeded simulation runs) is replayed step by step against the "
       "real bio-rd objects with the complete projected state compared after each step")

CHECKS = {
    "C35": {
        "text": "The SPT module defines distances by Bellman-Ford fixpoint; TLC checks the laws of that definition (source 0, finite iff "
                "reachable, triangle inequality, realised by a predecessor, fixpoint) on every enumerated graph and emits graph + "
                "expected distances; every case is run through the real Topology.SPT and distances, unreachable marks and the edge "
                "lists (must be existing edges summing to the distance) are compared. All digraphs with self loops on 2 nodes "
                "(weights 0..3) and 3 nodes (weights 0..1, thorough 0..2) x every source exhaustively, 4-7 nodes sampled.",
        "note": "Trusted: TLC and the fixpoint definition; sampled (not exhaustive) beyond 3 nodes.",
        "technique": "TLA+ spec SPT enumerated by TLC; per-case replay against util/dijkstra",
    },
    "C29": {
        "text": _MC % "MergedRIB" + "; in addition seeded random histories of the real MergedLocRIB are logged and validated "
                "against MergedRIBTrace by TLC.",
        "note": "Trusted: TLC, the adapter's projection (Loc-RIB dump matched to abstract routes by prefix and Path.Compare), "
                "3 sources x 3 routes as a sufficient scope for the source bookkeeping.",
        "technique": "TLA+ spec MergedRIB + TLC exhaustive check; behaviour replay (M1) and trace validation (M2) against mergedlocrib",
    },
}
