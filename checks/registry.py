"""Single source of truth for MANIFEST.json (bin/mkmanifest)."""
ALL = ["C%02d" % i for i in range(1, 37)]

BASELINE_OFF = ("cd /repo && GOFLAGS=-mod=mod GOPROXY=off GOSUMDB=off GOTOOLCHAIN=local "
                "go test -json -vet=off -count=1 -timeout 25m ./...")
HOOK_COMMITS = ["d9bd3981", "91affb0d", "895625aa", "a0f266b2", "acb6a1da", "2c5176d9", "91558341", "756b8833", "9339bb51", "81a9257e", "a85b3318"]

NOTES = ("Every check: TLC design check of the TLA+ module, then TLC-generated behaviours replayed against /repo's "
         "working tree (harness rebuilt on every run with -tags verif) and/or recorded traces validated by TLC. "
         "Exit 2 = infrastructure problem (never a verdict). Known findings: /verif/known_findings.json.")

NOT_APPLICABLE = {
    "C26": "data races are pairs of unsynchronised memory accesses in the Go memory model; a TLA+ action is atomic and "
           "neither replay nor trace validation observes individual memory accesses (DESIGN.md section 5)",
}

SESS = ("Real objects: a bgpServer with a passive peer; the harness is the remote speaker over an in-memory net.Conn handed in through its own tcp.ListenerManagerI; bytes are built by the independent codec harness/wire; state is read through verif-tagged read-only accessors (FSM state, RIB attachment, negotiated options, Adj-RIB-In) and public API (VRF Loc-RIBs, ASN contribution); everything the server writes is decoded by the strict reference decoder.")

_MC = ("TLC explores the bounded %s specification exhaustively (design check of the property as invariants) and every "
       "emitted behaviour (one witness per transition plus seeded simulation runs) is replayed step by step against the "
       "real bio-rd objects with the complete projected state compared after each step")

CHECKS = {
    "C31": {
        "text": "ISISAdj models one system's point-to-point adjacencies on a discrete clock (per neighbour: absent/Init/Up/Down, seconds "
                "of silence, holding time, seconds Down, content of the last three-way TLV; the set of neighbours in the local LSP) with "
                "the actions Hello(n, lists, hold), Tick(k) and RegenerateLSP. TLC checks exhaustively (2 neighbours, 4 TLV contents, small "
                "timers): Up only while the last hello lists this system and circuit and only within its holding time; Up -> Down on an "
                "unlisting hello; a silent neighbour is absent after hold + retention + 2 s whatever state it was in; the regenerated LSP "
                "lists exactly the Up neighbours; liveness (every neighbour eventually gone for good once the hellos stop) under fairness "
                "of the clock. Every emitted behaviour (one witness per transition + seeded simulation, holding times 0..30 s, silences "
                "up to 121 s) is replayed against a real isis/server.Server: hellos with the four TLV contents injected on the ethernet "
                "seam, mock clock advanced second by second, GetAdjacencies (state, remaining holding time, seconds Down) compared after "
                "every step and at every second at which the spec changes a state, the local LSP's IS reachability after RegenerateLSP; "
                "one neighbour, two neighbours on two circuits, two neighbours on one circuit.",
        "note": "Trusted: TLC; the harness's implementations of the repository's ethernet and device interfaces; the verif accessor "
                "(constants, regeneration trigger, pending ticks). neighborDownTimeoutS is read from the source and cross-checked. The "
                "first hello of an unknown neighbour only creates it (bound to the code; the property only forbids Up without a listing "
                "hello). Hellos the server sends are not compared (C33).",
        "technique": "TLA+ spec ISISAdj + TLC exhaustive check (safety, liveness under fairness); behaviour replay against isis/server through the ethernet/device/clock seams",
    },
    "C32": {
        "text": "ISISLSDB models the level-2 database per ISO 10589 7.3.15-7.3.17 on two point-to-point circuits (per LSP ID: sequence "
                "number, remaining lifetime, SRM and SSN per circuit; IDs below, equal to and above the local one) with the actions "
                "RecvLSP (newer/same/older; copies of the local LSP), RecvCSNP (full and half ranges), RecvPSNP, Tick(k), SendLSPs, "
                "SendPSNPs, Refresh. TLC checks: the highest received sequence number is kept until the entry ages out and never "
                "decreases; the local LSP is always present with lifetime >= 1 (refresh before expiry), never below a received copy and "
                "strictly above every copy that was newer; a regenerated local LSP is flooded on every circuit; no SRM without an LSP. "
                "Every emitted behaviour (one witness per transition + seeded simulation, aging steps up to and across the refresh of "
                "the local LSP) is replayed against the LSDB of a real isis/server.Server with two Up adjacencies: PDUs built with the "
                "repository's serialisers go in through the ethernet seam (Decode, processPkt, validatePkt), aging and transmission "
                "rounds are triggered one at a time; after every step GetLSDB and the SRM/SSN flags are compared, after "
                "SendLSPs/SendPSNPs the PDUs on the wire.",
        "note": "Trusted: TLC; the harness's ethernet/device implementations; the verif accessor (flags, one aging tick, one transmission "
                "round, regeneration trigger, sequence counter). defaultLifetimeSeconds / lspRefreshThresholdSeconds are read from the "
                "source and cross-checked; the property only asks for a refresh before expiry. Not generated: purges (zero remaining "
                "lifetime), LSP fragments other than 0, CSNP transmission, checksum validation.",
        "technique": "TLA+ spec ISISLSDB + TLC exhaustive check; behaviour replay against isis/server's LSDB through the ethernet seam and a verif accessor",
    },
    "C24": {
        "text": _MC % "Collision" + " (invariants AtMostOneEstablished, AtMostOneBeyondOpenSent, RoutesOnlyFromEstablished; action "
                "properties LoserIsTold: the closed connection's last message is a Cease NOTIFICATION, EstablishedSurvives). One peer "
                "opens up to 3-5 connections, two at a time; actions Connect, RecvOpen, RecvOpenBoth (both OPENs in the speaker's hands "
                "before either FSM changed state, forced with a scheduler gate hook after the collision check), RecvKeepalive, "
                "RecvUpdate, PeerCloses; x 4 identifier orders (RFC 4271 6.8 and the equal-identifier rule of RFC 6286) x (all connections "
                "accepted | connection 1 dialled by the speaker). All paths to "
                "depth 7-8 plus simulation are replayed on a real bgpServer; per connection FSM state, connection closed, messages "
                "written, number of Established FSMs and the Loc-RIB are compared after every event.",
        "note": "The connection the speaker dials cannot be a real one offline (tcp.Dial to port 179 fails): the in-memory connection "
                "is handed to the peer's own FSM at the point where its TCP connector delivers a dialled connection (verif hook), so "
                "the Connect state path is the real one, the dial itself is not. The tie-break is bio-rd's reading of RFC 4271 6.8 "
                "(the connection the OPEN just arrived on survives iff the local identifier is lower; the code does not look at "
                "who initiated a connection). Schedules: message-level interleavings plus the one "
                "forced intra-step overlap (check of the first OPEN done, state not yet changed); other goroutine overlaps inside the "
                "FSM are not enumerated. Three defects repaired.",
        "technique": "TLA+ spec Collision + TLC exhaustive check; behaviour replay (all paths + simulation) against a real bgpServer with "
                     "several in-memory connections and a scheduler gate hook",
    },
    "C25": {
        "text": "Conc models the lock and channel steps of the public table and session-control operations (Loc-RIB AddPath/RemovePath, "
                "Adj-RIB-In AddPath/RemovePath, import / export policy replacement, unregister + register of a session's Adj-RIB-Out, "
                "dumps, registration at a disposed client manager, peer.stop and an FSM handling an OPEN) over the locks LocRIB.mu, "
                "ClientManager.mu, AdjRIBOut.mu per session, AdjRIBIn.mu, peer.fsmsMu (RWMutex with writer preference) and the FSM event "
                "channel. TLC proves the discipline of the code free of deadlock for every combination of 2 and 3 concurrent operations "
                "(NoDeadlock, LocksOK; thorough: completion under fairness) and shows, as a negative control, that the discipline of "
                "the code as it was found deadlocks. Every scenario (multiset of concurrent operations; an initial state of the spec) "
                "runs on fresh real tables with each operation repeated hundreds of times in its own goroutine, under a watchdog, "
                "followed by a usability probe and, where defined, a final-state comparison; 7 server-level scenarios run on a real "
                "bgpServer (DisposePeer in every session history, also with another FSM parked before its collision check by a "
                "scheduler gate; policy replacement through the server during an UPDATE burst).",
        "note": "The lock steps of Conc are bound to the code by reading, not by instrumentation (no lock tracing): the verdict comes "
                "only from the real runs (hang = an operation that does not finish within 8 s on fresh objects, reproduced alone). The "
                "interleaving inside a scenario is left to the Go scheduler (GOMAXPROCS 16 and 2, 300-2000 repetitions); a deadlock "
                "with a window the repetitions do not hit is missed. Goroutine-leak and data-race freedom are not claimed (C26 n/a). "
                "Three defects repaired.",
        "technique": "TLA+ spec Conc (lock/channel discipline) + TLC deadlock-freedom check; spec-generated concurrent scenarios replayed on real tables and a real bgpServer under a watchdog",
    },
    "C27": {
        "text": "BMPWire is the grammar of what a monitored router can send (7 message kinds with byte-exact layouts) and 23 families of "
                "structured mutations: common-header length 0,1,5,6,true+-1,4096,4097,65535,2^16,2^20,2^20+1,2^24,2^31-1,2^31,2^32-1; wrong "
                "version; unknown type; stream cut inside header / per-peer header / body; body of one kind under the type code of another; "
                "TLV length 0/true+-1/255/65535, empty TLV, TLV header cut, unknown TLV type, up to 10000 empty TLVs; termination reason TLV "
                "of 0,1,3,4 bytes; statistics count 0..2^32-1; 16 mutations of the sent / received OPEN of a peer-up (AS, 4-octet AS, BGP id, "
                "version, hold time, truncation, option lengths, capabilities) so that the OPENs disagree with the per-peer header; per-peer "
                "header mutations; unknown and duplicate peers; peer-down reason x data; route monitoring / mirroring carrying NOTIFICATION, "
                "OPEN, KEEPALIVE, ROUTE-REFRESH, unknown types, lying BGP lengths, bad marker, malformed attributes / NLRI; plus seeded random "
                "fills of the body, of the whole message and of the whole stream. TLC enumerates prefix (none / Initiation / + peer-up of an "
                "eBGP or iBGP session and a route) x kind x mutation and checks the laws of the grammar and of the intended framing. Every case "
                "is concretised into bytes (valid parts by the repository's own serialisers; the encoding must have exactly the spec's sizes) "
                "and served to a real Router (verif constructor) over net.Pipe inside the replay process, followed by valid traffic and a "
                "close. Verdict: the serving goroutine does not panic; every write is taken or the session ends within 5 s and serve returns "
                "within 5 s of the close (no wedge); runtime TotalAlloc over the case <= 4 MiB + 64 x bytes sent (the 1 MiB message cap of "
                "the repaired framing has a 4x margin; all cases of the fixed tree stay below 2 MiB).",
        "note": "Limit: the structured mutation space of specs/BMPWire.tla plus seeded random fills, not all byte strings (no coverage-guided "
                "fuzzing in this family). Only Router.serve and below is driven (BMPReceiver's listener / reconnect loop is not). Trusted: the "
                "verif-tagged constructor, net.Pipe synchronisation, MemStats.TotalAlloc as the allocation measure; an 8 GiB address-space "
                "ceiling and a 3 GiB RSS guard in the replay process turn a runaway allocation into a process death that the runner attributes "
                "to the case. 7 defects repaired (framing, statistics count, reason TLV, quadratic log line, route monitoring error path, "
                "peer-up OPEN mismatch, nil next hop compare).",
        "technique": "TLA+ wire-grammar spec BMPWire enumerated by TLC (cases + laws); per-case byte-level replay against a real BMP Router over "
                     "net.Pipe with panic capture, write deadlines and an allocation budget",
    },
    "C28": {
        "text": _MC % "BMP" + " (invariants MirrorsSessions: table[vrf] = union of the pre- and post-policy Adj-RIB-In views of the up "
                "sessions of that VRF; NothingRemains after peer-down / termination / connection loss; ObserversInformed; views the receiver "
                "is configured to ignore stay out). Sessions: eBGP and iBGP, add-path receive negotiated by the two OPENs, an IPv6 session, "
                "the same peer address in two VRFs; actions Initiation, PeerUp, RouteMon (announce / withdraw, view, path id), RouteMonMulti (two NLRI in one UPDATE), route "
                "monitoring for a session that is not up, End-of-RIB / statistics / route mirroring, PeerDown, Termination, ConnLoss, "
                "Reconnect, Observe. Four session families are emitted completely (every transition of the whole reachable graph; the same "
                "TLC run is the design check), plus seeded random conversations of 14-16 messages over 4 sessions x 2 VRFs. Every message "
                "is built with the repository's own BMP / BGP serialisers and served to a real Router (verif constructor) over net.Pipe; "
                "after every message Router.GetVRF(rd) Loc-RIB dumps (IPv4 + IPv6: session, prefix, path id, view flag, next hop, AS path, "
                "MED, communities, LOCAL_PREF of iBGP sessions) and recording observers registered on those tables (all paths) are compared; "
                "after a session end an observer must have been told Dispose() or hold nothing. Replayed with IPv4 and IPv6 prefix embeddings.",
        "note": "Trusted: TLC, the verif-tagged constructor, the projection. Left open on purpose: where BOTH views of one session hold the same "
                "(prefix, path id) the table may keep either or both (the statement does not say how the views share a table); whether an "
                "empty VRF object exists; LOCAL_PREF of routes from eBGP sessions. One UPDATE carries one or two NLRI.  One defect repaired (add-path receive never enabled), one known finding (the two policy views share one Adj-RIB-In: a "
                "withdrawal in one view removes the route of the other).",
        "technique": "TLA+ spec BMP + TLC exhaustive check; behaviour replay (complete transition graphs + simulation) against a real BMP Router "
                     "served over net.Pipe, Loc-RIB dumps and recording observers compared after every message",
    },
    "C30": {
        "text": "ISISWire defines abstract IS-IS PDUs (P2P hello, L2 LSP, CSNP, PSNP: class of fixed values zero/typical/all-ones + TLV "
                "descriptors [kind, items, width]) and their byte layout (field sizes -> total length, PDU length field, offset of every "
                "TLV, every field boundary); TLC checks the laws of the layout (field sizes add up to the declared TLV length, offsets "
                "are boundaries, everything fits its length field, every mutation lies inside the PDU) and enumerates (1) every hello / "
                "LSP within two parameter changes of the base + seeded random ones, (2) CSNP/PSNP for n in {0..5,7,15,16,17,31,32,100} "
                "entries x {1,2,3,5,MTU} entries per PDU, (3) the mutations of valid PDUs: truncation at every field boundary, TLV length "
                "0/1/true-1/true+1/255, TLV type replaced by every known and some unknown types, area length bytes, PDU length "
                "0/true-1/true+1/65535, every other PDU type, header bytes, trailing bytes, every single byte 0/1/255. The adapter "
                "builds each PDU with the package's constructors (NewCSNPs/NewPSNPs for the sequence-number PDUs), serialises it with "
                "Serialize behind the LLC header and decodes it with packet.Decode: header, fixed fields, PDU length, checksum and per "
                "TLV type the items (typed decoders) or value bytes (TLVs the decoder returns opaquely) must come back; how a list is "
                "split over TLVs/PDUs is free. Mutated bytes must yield a PDU or an error (panic / hang = divergence).",
        "note": "Trusted: TLC; the adapter's value generator and content projection. Limit: the structured mutation space of the grammar, "
                "not all byte strings. TLV contents are bounded by what fits one TLV (255 bytes): that the LSP generator of isis/server "
                "does not split larger lists is outside this check. LAN hellos are not serialised by bio-rd and not covered.",
        "technique": "TLA+ wire grammar ISISWire enumerated by TLC; per-case replay against isis/packet Serialize / Decode",
    },
    "C33": {
        "text": "ISISIfa models the interfaces of an IS-IS server (operational state, running, ethernet handle, hello sender, adjacency) with "
                "one action per event: LinkUp / LinkDown (a device update; start/stop on state change), HelloTick (one hello interval of "
                "the mock clock, all timers of the server run), FormAdj (the neighbour's two hellos of the handshake). TLC checks "
                "RunningIffUp, SenderIffActiveUp, HandleIffSender, AdjNeedsLink, HelloAfterUp, CanFormAdj and emits ALL paths (no VIEW): "
                "every up/down sequence of length 0..6 on a server with one active / one passive interface and 0..4 with both, each "
                "followed by tick - neighbour hellos - tick, all interleavings of the four actions to length 5 (3 with two interfaces) "
                "and seeded random behaviours with three interfaces. Each behaviour runs in its own process against isis/server.Server "
                "(device.MockServer events, mock ethernet factory, SetClock): after every step the server must answer, after HelloTick "
                "every active interface whose link is up must have put a P2P hello on the wire, after FormAdj the adjacency must be up, "
                "after LinkDown it must not be; a panic anywhere in the process (including the server's goroutines) or a hang is a "
                "divergence with the innermost bio-rd frame as class.",
        "note": "Trusted: the repository's mocks (device.MockServer, ethernet.MockEthernetInterface, benbjohnson mock clock); real-time "
                "waits of 4 s for a hello / an adjacency. Absence of hellos on down or passive interfaces is not demanded (the property "
                "does not state it). AddInterface/RemoveInterface at run time are not part of the property and not driven.",
        "technique": "TLA+ spec ISISIfa + TLC (all paths); behaviour replay in isolated processes against isis/server with mock device, ethernet and clock",
    },
    "C23": {
        "text": _MC % "BGPFSM" + " (invariants AttachedIffEstablished, RoutesOnlyWhileEstablished, IdleClosed; action properties "
                "LeavingEstablished, ErrorsAreNotified; the machine is finite and explored completely). " + SESS,
        "note": "Trusted: TLC, harness/wire, the accessors. Passive side only (active-side transitions Connect/Active are not driven). After each "
                "event the adapter waits (<= 3-10 s) until the observation equals the model's state and re-checks after a settle time; a "
                "KEEPALIVE written before an OPEN-rejecting NOTIFICATION and the choice between message error and FSM error for a malformed "
                "message in an unexpected state are left open.",
        "technique": "TLA+ spec BGPFSM + TLC exhaustive check; behaviour replay against a real bgpServer over an in-memory connection",
    },
    "C07": {
        "text": _MC % "BGPFSM" + " restricted to behaviours that reach Established, learn routes and leave through every exit path "
                "(NOTIFICATION, hold timer expiry, keepalive write failure, malformed UPDATE/header, unexpected OPEN, manual stop) and "
                "re-establish; LeavingEstablished is the action property. " + SESS,
        "note": "Trusted: as C23. Hold timer expiry is forced through the ageing accessor; automatic stop and peer disposal use the same code path as manual stop and are not driven separately.",
        "technique": "TLA+ spec BGPFSM + TLC; behaviour replay against a real bgpServer (Loc-RIB, ASN contribution, Adj-RIBs compared after every event)",
    },
    "C21": {
        "text": _MC % "BGPFSM" + " with every malformed header, OPEN and UPDATE class in OpenSent, OpenConfirm and Established; the model "
                "prescribes the NOTIFICATION code (subcode within the class's RFC 4271 section 6 set) before the close. " + SESS,
        "note": "Trusted: as C23. Claimed for the structured mutation classes of the wire grammar, not for arbitrary byte streams (no coverage-guided fuzzing in this family).",
        "technique": "TLA+ spec BGPFSM + TLC; behaviour replay against a real bgpServer with mutated byte streams from the reference encoder",
    },
    "C22": {
        "text": "BGPFSM!OpenVerdict gives for each of 17 OPEN classes x 6 local configurations the NOTIFICATION (code, subcode) or "
                "acceptance with hold time = min of both offers; every combination is delivered to a real session in OpenSent; accepted "
                "sessions go on to Established and exchange UPDATEs encoded with the negotiated options. " + SESS,
        "note": "Trusted: as C23. Negotiated 4-octet ASN / add-path / multiprotocol are observed through what the session then accepts and through the accessor.",
        "technique": "TLA+ spec BGPFSM (OpenVerdict) + TLC; behaviour replay against a real bgpServer",
    },
    "C19": {
        "text": _MC % "BGPFSM" + " with 14 malformed UPDATE classes delivered in Established (with and without routes learned, eBGP/iBGP, "
                "2/4-octet AS, add-path): the model leaves the Adj-RIB-In untouched by the message and resets the session. " + SESS,
        "note": "Trusted: as C23; structured mutation classes only.",
        "technique": "TLA+ spec BGPFSM + TLC; behaviour replay against a real bgpServer",
    },
    "C20": {
        "text": _MC % "BGPFSM" + " with valid UPDATEs of 1-2 NLRI (IPv4 classic, MP_REACH/MP_UNREACH IPv6, add-path identifiers, mixed "
                "announce/withdraw): Applies(u) defines the Adj-RIB-In after the message per NLRI. " + SESS,
        "note": "Trusted: as C23. Attributes of the installed paths are not compared here (C05/C17 do that); identity is (prefix, path identifier).",
        "technique": "TLA+ spec BGPFSM + TLC; behaviour replay against a real bgpServer",
    },
    "C10": {
        "text": _MC % "Sender" + " (invariants Converged: queue empty => peer view = Adj-RIB-Out, QueueWithinAdjOut, NoStale; TLC explores "
                "every interleaving of AddPath/RemovePath with single buckets of a round and complete flushes; liveness under weak "
                "fairness in the thorough tier). Real object: the production UpdateSender (constructed through a verif-tagged "
                "constructor hook) bound to a capturing connection; the captured UPDATE stream is decoded by an independent strict "
                "reference decoder and folded into the peer's view after every step; each behaviour is run 6 times (bucket order is Go "
                "map order) and also with the periodic sender goroutine running.",
        "note": "Trusted: TLC, the reference decoder harness/wire, the hook constructor (it calls newUpdateSender). A single bucket of the "
                "periodic round has no public trigger: rounds are triggered through EndOfRIB() (flush of all buckets) or the real ticker.",
        "technique": "TLA+ spec Sender + TLC (safety exhaustively, liveness under fairness); behaviour replay against the real UpdateSender with wire capture",
    },
    "C16": {
        "text": "WireRx is a wire grammar: 14 valid BGP messages written field by field (so every length field, count, prefix length, "
                "flag and type code is a known position) and mutation classes over them (truncation at every byte offset, header "
                "length grown with zero fill, every single byte replaced by boundary values) x decode option combinations. TLC "
                "enumerates the cases and checks the grammar's laws (framing, byte range); each case is decoded by packet.Decode in the "
                "real code: no panic, a message or an error, bounded time and allocation; unmutated messages are accepted.",
        "note": "Claimed for the structured mutation classes of the wire grammar (single-field corruption, truncation, over-announced "
                "length), not for arbitrary byte strings: multi-field corruptions are outside the explored space. Trusted: the grammar "
                "(each base message is checked well-formed by the independent reference decoder before use).",
        "technique": "TLA+ spec WireRx (grammar + mutation classes) enumerated by TLC; per-case replay into packet.Decode with panic/time/allocation oracles",
    },
    "C17": {
        "text": "WireTx defines byte-exact attribute and message sizes and the attribute set per session kind; TLC enumerates the classes "
                "around every encoding boundary (255/256-byte values, 255 ASNs per segment, CLUSTER_LIST/communities/unknown attributes, "
                "4096 bytes). Each case runs through the production path UpdateSender -> PathAttributes -> SerializeUpdate; every "
                "emitted message must be accepted by the strict independent reference decoder, be <= 4096 bytes, carry exactly the "
                "case's attributes with the sizes the spec computes, and be read back by packet.Decode with the session's options. "
                "OPEN/KEEPALIVE/NOTIFICATION well-formedness is checked by the session-level checks (every byte the server writes goes "
                "through the same reference decoder).",
        "note": "Trusted: harness/wire (independent codec), the size arithmetic of WireTx (bound to the code by the size comparison).",
        "technique": "TLA+ spec WireTx enumerated by TLC; per-case replay through UpdateSender with an independent reference decoder",
    },
    "C18": {
        "text": "As C17 with many prefixes (1..3000) and attribute sizes from tiny to within a few bytes of the limit: the UPDATEs emitted "
                "for a queued bundle must announce exactly the queued prefixes, each once, each message <= 4096 bytes with the queued "
                "attributes (IPv4 classic, IPv6 multiprotocol, add-path).",
        "note": "Trusted: as C17.",
        "technique": "TLA+ spec WireTx enumerated by TLC; per-case replay through UpdateSender with an independent reference decoder",
    },
    "C34": {
        "text": "ApiConv defines ApiFields(p) (what the API schema carries; nil and empty lists identified) over records of field classes; "
                "TLC enumerates every record within 2 field changes of the base plus seeded random records; each goes through the real "
                "Route.ToProto -> RouteFromProtoRoute (with/without dedup, IPv4/IPv6) and must reproduce ApiFields(p); a hidden path must "
                "carry a hidden reason in the API.",
        "note": "Trusted: TLC, the adapter's build/classify pair for list contents. One known finding (hidden reason 7 has no API enum value; "
                "repair needs protoc).",
        "technique": "TLA+ spec ApiConv enumerated by TLC; per-record replay against route.ToProto / RouteFromProtoRoute",
    },
    "C36": {
        "text": "Reload models the configured sessions as Effective(cfg) (groups, neighbours, inheritance) with the action Reload(v): "
                "sessions' = Effective(v); TLC checks HistoryFree / OneSessionPerPeer / RemovedAreGone and emits every ordered pair of 27 "
                "configurations plus random sequences of 5. Each behaviour is loaded through the real reload path (config.GetConfig + "
                "loadConfig + bgpConfigurator against a bgpServer with in-memory listeners) of a hooked bio-rd binary; after every reload "
                "the peers' effective settings, stored PeerConfig and chains must equal Effective(v). Effective itself is first checked "
                "against a real fresh start (a disagreement is a harness error, exit 2).",
        "note": "Trusted: the verif-tagged entry point in cmd/bio-rd and the read-only accessor in protocols/bgp/server; YAML rendering in the "
                "adapter; quick tier samples the pairs not involving the base configuration. Sessions are not established during the check.",
        "technique": "TLA+ spec Reload + TLC; behaviour replay through the hooked bio-rd binary's real reload path",
    },
    "C08": {
        "text": _MC % "RibOut" + " (invariant OutIsExportView: per prefix the Adj-RIB-Out holds the export, with the session's rewrites, "
                "of the first N paths of the Loc-RIB selection that export rules and export policy admit; empty while the session is "
                "down). Real objects: locRIB.LocRIB + adjRIBOut.New registered with the session's add-path option + a recording "
                "client standing in for the update sender; compared after every step: dump per prefix (wire-visible attributes), route "
                "count, identifiers, and what the client was told keyed as a peer keys it.",
        "note": "Trusted: TLC, Policy!Eval (C14) and DecisionDefs!Cmp (C02/C03) as bound elsewhere, the wire projection. ORIGINATOR_ID/"
                "CLUSTER_LIST of eBGP-learned routes sent to RR clients are not compared (not prescribed). One known finding (add-path "
                "over-withdrawal pinned by the repository's own test).",
        "technique": "TLA+ spec RibOut + TLC exhaustive check; behaviour replay against locRIB/adjRIBOut",
    },
    "C09": {
        "text": "RibOut's RFC constraints (NeverNoAdvertise, NeverNoExportToEBGP, never back to the source, NoIBGPToNonClient, OTC egress, "
                "EBGPPrependsAndNextHopSelf, ReflectedCarryOriginatorAndCluster) are invariants TLC checks on every reachable "
                "Adj-RIB-Out of the graph over all 10 path kinds x 11 target sessions; every (path, session) combination and every "
                "ordered pair is replayed and the real Adj-RIB-Out must hold exactly the expected wire-visible attributes.",
        "note": "Trusted: as C08. The LOCAL_PREF-only-to-iBGP and OTC-on-the-wire clauses need the serialised UPDATE and are bound by "
                "the wire-level replay (Wire spec) when present in this revision; table level only otherwise.",
        "technique": "TLA+ spec RibOut (RFC constraints as invariants) + TLC; behaviour replay against adjRIBOut",
    },
    "C11": {
        "text": _MC % "RibOut" + " on add-path sessions over 2 prefixes x 3 paths to depth 6-7 so identifiers are shared across prefixes, "
                "released in every order and re-allocated; the adapter requires distinct non-zero identifiers per prefix, that the "
                "client's (prefix, identifier)-keyed view equals the Adj-RIB-Out (wrong identifier on a withdrawal = stale entry) and "
                "that every expected path is present (allocation failure = missing).",
        "note": "Trusted: as C08. Pairs of paths on one prefix that differ in exactly one attribute include the attributes that take "
                "no part in path selection (AGGREGATOR, OTC, an unknown transitive attribute: d0 / dAggr / dOtc / dUnk). Every "
                "history is replayed again on sessions whose allocation counter starts 0-5 steps before it wraps (hook "
                "AdjRIBOut.VerifSetLastPathID), so exhaustion checks that look at the counter instead of the identifiers in use "
                "show; a table with 2^32-1 identifiers in use is not built.",
        "technique": "TLA+ spec RibOut + TLC; behaviour replay against adjRIBOut/pathIDManager",
    },
    "C13": {
        "text": "RibOut behaviours are replayed on the full pipeline (one Adj-RIB-In per source peer -> Loc-RIB -> the session under test "
                "and a second session's Adj-RIB-Out). After every step the Loc-RIB's stored paths are compared attribute for attribute "
                "with what was announced; around every export-side operation (export policy replacement, session down/up) deep "
                "snapshots of every Adj-RIB-In and of the other session's Adj-RIB-Out must be unchanged. In the value-based spec the "
                "action property holds by construction; its force is the binding.",
        "note": "Trusted: the full-attribute projection used for snapshots; pointer sharing that is never written through is invisible (and harmless).",
        "technique": "TLA+ spec RibOut + TLC; behaviour replay with deep table snapshots against adjRIBIn/locRIB/adjRIBOut",
    },
    "C05": {
        "text": _MC % "RibIn" + " (invariants MirrorsAdjRIBIn: every registered consumer holds exactly the contribution of the stored, "
                "eligible announcements under the current import policy, an unregistered one nothing; OnePerKey). Real objects: "
                "adjRIBIn.New + VRF + locRIB.LocRIB + a second recording consumer; the Loc-RIB dump is compared by full attribute projection.",
        "note": "Trusted: TLC, Policy!Eval (bound separately by C14), the attribute projection (type, LOCAL_PREF, MED, next hop, AS_PATH, "
                "ORIGINATOR_ID, CLUSTER_LIST, OTC, path id). 2 prefixes, <=4 bundles, <=7 policies per run.",
        "technique": "TLA+ spec RibIn + TLC exhaustive check; behaviour replay against adjRIBIn/locRIB",
    },
    "C06": {
        "text": _MC % "RibIn" + " (invariant NoIneligible) with bundles for every ineligibility reason (AS loop, own ORIGINATOR_ID, own "
                "cluster id, empty eBGP AS_PATH, RFC 9234 ingress rules for all 5 remote roles), policy flips reject<->accept and late "
                "registration of the Loc-RIB and of a second consumer.",
        "note": "Trusted: as C05. The local ASN / cluster id are registered in the VRF by the adapter exactly as fsmAddressFamily.init does.",
        "technique": "TLA+ spec RibIn + TLC exhaustive check; behaviour replay against adjRIBIn/locRIB",
    },
    "C12": {
        "text": _MC % "RibIn" + " over 10 import policies so that every ordered (old, new) pair is replaced with routes present, and "
                "repeated replacements; the invariant is stated against the current policy, i.e. equality with a fresh start under the "
                "new policy after every ReplacePolicy. Export side and the server-level skip rule are added by RibOut / the session specs "
                "as they are built.",
        "note": "Trusted: as C05; Chain.Equal's soundness (never equal when outcomes differ) is bound by C14.",
        "technique": "TLA+ spec RibIn (+RibOut) + TLC exhaustive check; behaviour replay against adjRIBIn/adjRIBOut",
    },
    "C14": {
        "text": "Policy is a reference interpreter written from the documented semantics; PolicyCases enumerates all 1-filter/1-term "
                "programs and samples larger ones, TLC evaluates each on all prefixes of the 3-bit universe x 3 paths and checks "
                "interpreter laws; the real Chain.Process must give the same verdict and rewritten path (IPv4 and IPv6 embeddings), must "
                "not modify its input path, and Chain.Equal must be false for every single-leaf mutation that changes some outcome.",
        "note": "Trusted: TLC and the interpreter as the meaning of the documented semantics. Community / large-community conditions have no "
                "public constructor and are not generated; prefix lists are exact-match.",
        "technique": "TLA+ spec Policy/PolicyCases enumerated by TLC; per-program replay against routingtable/filter",
    },
    "C01": {
        "text": _MC % "PrefixMap" + ". The lookups (Get, LPM, GetLonger, Dump, count) are defined on the abstract table exactly as the "
                "property reads and TLC checks their mutual laws on every reachable table; behaviours = every insertion order of up to "
                "4-5 distinct prefixes (trie shape), one witness per transition of the full-action graph, and random histories; after "
                "the last step (every step for random histories) all lookups are issued for EVERY prefix of the 4-bit universe, stored "
                "or not, under 5 (quick) / 11 (thorough) embeddings of the universe into IPv4/IPv6 around bits 0, 8, 28-32, 60-66, 124-128; "
                "also through the Loc-RIB wrapper.",
        "note": "Trusted: TLC, the embedding (inverse checked), 4-bit universe x embeddings as a sufficient scope for trie shape; no path added twice to one prefix.",
        "technique": "TLA+ spec PrefixMap + TLC; behaviour replay against routingtable.RoutingTable and locRIB.LocRIB",
    },
    "C15": {
        "text": "BitNet defines containment, equality, supernet, base address, validity, bit-at-position and address order on sets of "
                "bit positions. TLC checks the algebra of the definitions on every pair (and third element) of width-4/5 prefixes "
                "(strict partial order, supernet is the meet, base/valid/compare laws) and evaluates them at width 32 and 128 on the "
                "case domain (4 patterns x every length x neighbouring lengths x flipped bit); every case is executed on net.Prefix / "
                "net.IP and compared, plus print->parse and bytes round trips.",
        "note": "Trusted: TLC, the word<->bit conversion in the adapter. IPv6 flipped-bit positions are boundary+seeded in quick, all 128 in thorough.",
        "technique": "TLA+ spec BitNet (algebra checked by TLC, cases enumerated by TLC); per-case replay against net/prefix.go, net/ip.go",
    },
    "C03": {
        "text": "Decision defines the preference as a lexicographic key; TLC checks on every pair of the head/tail/static domains that it "
                "is a total preorder and satisfies the RFC 4271 9.1.2.2 / RFC 4456 s9 directions stated independently (RFC_Head, RFC_Tail); "
                "every ordered pair is run through the real Path.Select in both orders (sign and antisymmetry) and Path.ECMP.",
        "note": "Trusted: TLC; the direction of the final next-hop comparison is not prescribed by the property and only required to be non-zero and antisymmetric.",
        "technique": "TLA+ spec Decision enumerated by TLC; pair replay against route.Path.Select",
    },
    "C02": {
        "text": "(a) as C03: agreement of the real Select with a relation TLC has shown to be a total preorder on all pairs implies "
                "antisymmetry and transitivity of the real relation on that domain. (b) LocRIB spec: the selection is the sorted "
                "sequence of the set of present paths (invariant SelectionIsFunctionOfSet); TLC emits every insertion sequence of up "
                "to 4 paths from the cycle-maker domain without VIEW (all permutations), the add/remove transition graph and random "
                "add/remove/replace histories; after each step the real Loc-RIB's order, best path, ECMP set size and counts are compared.",
        "note": "Trusted: TLC, the adapter's name resolution by Path.Compare. Domain has no complete ties (sort stability is not exercised).",
        "technique": "TLA+ specs Decision + LocRIB; pair replay and all-permutation behaviour replay against route.Path.Select / locRIB.LocRIB",
    },
    "C04": {
        "text": _MC % "LocRIB" + " (clients best/ecmp/max1/max2/max4 with Register/Unregister/Refresh interleaved with AddPath/"
                "RemovePath/ReplacePath; invariant ClientsHoldWindow, action property UnregisteredUntouched). The recording client "
                "accumulates initial dump + adds - removes per prefix, for unregistered clients the frozen view is still compared.",
        "note": "Trusted: TLC, the recording client (set semantics with multiplicity), sequential quiescent points only (concurrency is C25).",
        "technique": "TLA+ spec LocRIB + TLC exhaustive check; behaviour replay (witness per transition + simulation) against locRIB.LocRIB with recording clients",
    },
    "C35": {
        "text": "The SPT module defines distances by Bellman-Ford fixpoint; TLC checks the laws of that definition (source 0, finite iff "
                "reachable, triangle inequality, realised by a predecessor, fixpoint) on every enumerated graph and emits graph + "
                "expected distances; every case is run through the real Topology.SPT and distances, unreachable marks and the edge "
                "lists (must be existing edges summing to the distance) are compared. All digraphs with self loops on 2 nodes "
                "(weights 0..3) and 3 nodes (weights 0..1, thorough 0..2) x every source exhaustively, 4-7 nodes sampled.",
        "note": "Trusted: TLC and the fixpoint definition; sampled (not exhaustive) beyond 3 nodes.",
        "technique": "TLA+ spec SPT enumerated by TLC; per-case replay against util/dijkstra",
    },
    "C29": {
        "text": _MC % "MergedRIB" + "; in addition seeded random histories of the real MergedLocRIB are logged and validated "
                "against MergedRIBTrace by TLC.",
        "note": "Trusted: TLC, the adapter's projection (Loc-RIB dump matched to abstract routes by prefix and Path.Compare), "
                "3 sources x 3 routes as a sufficient scope for the source bookkeeping.",
        "technique": "TLA+ spec MergedRIB + TLC exhaustive check; behaviour replay (M1) and trace validation (M2) against mergedlocrib",
    },
}

# additions made when checks were strengthened after seeded changes slipped past their first version
_APPEND = {
    "C03": " The head paths come in two neighbour-AS classes (first AS of the AS_PATH) that must not influence the decision: MED is "
           "compared across all neighbour ASes.",
    "C06": " At server level (BGPFSM, adapter session): an UPDATE whose AS_PATH contains the local AS on a real session, import policy "
           "flips and session resets, alone and next to a second established session of the same VRF (the loop-detection state of a "
           "VRF is shared and reference counted).",
    "C07": " One family runs next to a second established session of the same VRF (the local AS must keep taking part in loop "
           "detection); NOTIFICATIONs come plain, with data and with codes / subcodes the speaker does not know; route-reflector-client "
           "configurations add the cluster id's contribution.",
    "C12": " The export side is replayed on RibOut; at server level BGPFSM has SetImport / SetExport / Originate "
           "(BGPServer.ReplaceImportFilterChain / ReplaceExportFilterChain in every session state, a route from the peer and one from "
           "another source) so that the session's skip-if-equal logic is bound too.",
    "C17": " The OPEN a real session writes is decoded by the reference decoder in every session-level check and compared with the "
           "configuration (version, AS, 4-octet AS capability, hold time, identifier, RFC 9234 role).",
    "C20": " The attributes of every route learned from the session (AS_PATH, next hop, ORIGIN, MED, LOCAL_PREF, eBGP flag, source, the "
           "peer's BGP identifier) are compared with what the UPDATE and the OPEN carried.",
    "C22": " Add-path is in force only when the peer's OPEN carries the capability (class okNoAP lacks it; the negotiated value is part "
           "of the model and decides how UPDATEs are encoded and keyed), also for peers with the IPv6 family only. Negotiation must not depend on earlier sessions of the peer: all paths over two consecutive sessions with different OPENs "
           "(role present / absent / another one in strict mode, 4-octet AS capability present / absent, hold time 90 / 0, quiet "
           "periods), for a passive peer (a new FSM per connection, state kept in the peer) and an active peer whose own FSM is handed "
           "the connections (verif hook) and reused.",
    "C23": " An active peer whose own FSM serves session after session is replayed with all paths over three sessions. The connection may break without a NOTIFICATION (ConnLost, RFC 4271 event 18). A quiet period (Wait: 2 s without events) is an action of its own: nothing may happen in OpenSent, OpenConfirm or "
           "Established (hold time 0 or >= 30 s).",
    "C25": " Later additions: Unregister of a client that is not registered (all three tables) and DisposePeer while a Cease is "
           "already queued for an FSM in its reconnect pause.",
}
for _k, _v in _APPEND.items():
    CHECKS[_k]["text"] = CHECKS[_k]["text"].replace("Export side and the server-level skip rule are added by RibOut / the session specs as they are built.", "") + _v
