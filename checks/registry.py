"""Single source of truth for MANIFEST.json (bin/mkmanifest)."""
ALL = ["C%02d" % i for i in range(1, 37)]

BASELINE_OFF = ("cd /repo && GOFLAGS=-mod=mod GOPROXY=off GOSUMDB=off GOTOOLCHAIN=local "
                "go test -json -vet=off -count=1 -timeout 25m ./...")
HOOK_COMMITS = []

NOTES = ("Every check: TLC design check of the TLA+ module, then TLC-generated behaviours replayed against /repo's "
         "working tree (harness rebuilt on every run with -tags verif) and/or recorded traces validated by TLC. "
         "Exit 2 = infrastructure problem (never a verdict). Known findings: /verif/known_findings.json.")

NOT_APPLICABLE = {
    "C26": "data races are pairs of unsynchronised memory accesses in the Go memory model; a TLA+ action is atomic and "
           "neither replay nor trace validation observes individual memory accesses (DESIGN.md section 5)",
}

_MC = ("TLC explores the bounded %s specification exhaustively (design check of the property as invariants) and every "
       "emitted behaviour (one witness per transition plus seeded simulation runs) is replayed step by step against the "
       "real bio-rd objects with the complete projected state compared after each step")

CHECKS = {
    "C01": {
        "text": _MC % "PrefixMap" + ". The lookups (Get, LPM, GetLonger, Dump, count) are defined on the abstract table exactly as the "
                "property reads and TLC checks their mutual laws on every reachable table; behaviours = every insertion order of up to "
                "4-5 distinct prefixes (trie shape), one witness per transition of the full-action graph, and random histories; after "
                "the last step (every step for random histories) all lookups are issued for EVERY prefix of the 4-bit universe, stored "
                "or not, under 5 (quick) / 11 (thorough) embeddings of the universe into IPv4/IPv6 around bits 0, 8, 28-32, 60-66, 124-128; "
                "also through the Loc-RIB wrapper.",
        "note": "Trusted: TLC, the embedding (inverse checked), 4-bit universe x embeddings as a sufficient scope for trie shape; no path added twice to one prefix.",
        "technique": "TLA+ spec PrefixMap + TLC; behaviour replay against routingtable.RoutingTable and locRIB.LocRIB",
    },
    "C15": {
        "text": "BitNet defines containment, equality, supernet, base address, validity, bit-at-position and address order on sets of "
                "bit positions. TLC checks the algebra of the definitions on every pair (and third element) of width-4/5 prefixes "
                "(strict partial order, supernet is the meet, base/valid/compare laws) and evaluates them at width 32 and 128 on the "
                "case domain (4 patterns x every length x neighbouring lengths x flipped bit); every case is executed on net.Prefix / "
                "net.IP and compared, plus print->parse and bytes round trips.",
        "note": "Trusted: TLC, the word<->bit conversion in the adapter. IPv6 flipped-bit positions are boundary+seeded in quick, all 128 in thorough.",
        "technique": "TLA+ spec BitNet (algebra checked by TLC, cases enumerated by TLC); per-case replay against net/prefix.go, net/ip.go",
    },
    "C03": {
        "text": "Decision defines the preference as a lexicographic key; TLC checks on every pair of the head/tail/static domains that it "
                "is a total preorder and satisfies the RFC 4271 9.1.2.2 / RFC 4456 s9 directions stated independently (RFC_Head, RFC_Tail); "
                "every ordered pair is run through the real Path.Select in both orders (sign and antisymmetry) and Path.ECMP.",
        "note": "Trusted: TLC; the direction of the final next-hop comparison is not prescribed by the property and only required to be non-zero and antisymmetric.",
        "technique": "TLA+ spec Decision enumerated by TLC; pair replay against route.Path.Select",
    },
    "C02": {
        "text": "(a) as C03: agreement of the real Select with a relation TLC has shown to be a total preorder on all pairs implies "
                "antisymmetry and transitivity of the real relation on that domain. (b) LocRIB spec: the selection is the sorted "
                "sequence of the set of present paths (invariant SelectionIsFunctionOfSet); TLC emits every insertion sequence of up "
                "to 4 paths from the cycle-maker domain without VIEW (all permutations), the add/remove transition graph and random "
                "add/remove/replace histories; after each step the real Loc-RIB's order, best path, ECMP set size and counts are compared.",
        "note": "Trusted: TLC, the adapter's name resolution by Path.Compare. Domain has no complete ties (sort stability is not exercised).",
        "technique": "TLA+ specs Decision + LocRIB; pair replay and all-permutation behaviour replay against route.Path.Select / locRIB.LocRIB",
    },
    "C04": {
        "text": _MC % "LocRIB" + " (clients best/ecmp/max1/max2/max4 with Register/Unregister/Refresh interleaved with AddPath/"
                "RemovePath/ReplacePath; invariant ClientsHoldWindow, action property UnregisteredUntouched). The recording client "
                "accumulates initial dump + adds - removes per prefix, for unregistered clients the frozen view is still compared.",
        "note": "Trusted: TLC, the recording client (set semantics with multiplicity), sequential quiescent points only (concurrency is C25).",
        "technique": "TLA+ spec LocRIB + TLC exhaustive check; behaviour replay (witness per transition + simulation) against locRIB.LocRIB with recording clients",
    },
    "C35": {
        "text": "The SPT module defines distances by Bellman-Ford fixpoint; TLC checks the laws of that definition (source 0, finite iff "
                "reachable, triangle inequality, realised by a predecessor, fixpoint) on every enumerated graph and emits graph + "
                "expected distances; every case is run through the real Topology.SPT and distances, unreachable marks and the edge "
                "lists (must be existing edges summing to the distance) are compared. All digraphs with self loops on 2 nodes "
                "(weights 0..3) and 3 nodes (weights 0..1, thorough 0..2) x every source exhaustively, 4-7 nodes sampled.",
        "note": "Trusted: TLC and the fixpoint definition; sampled (not exhaustive) beyond 3 nodes.",
        "technique": "TLA+ spec SPT enumerated by TLC; per-case replay against util/dijkstra",
    },
    "C29": {
        "text": _MC % "MergedRIB" + "; in addition seeded random histories of the real MergedLocRIB are logged and validated "
                "against MergedRIBTrace by TLC.",
        "note": "Trusted: TLC, the adapter's projection (Loc-RIB dump matched to abstract routes by prefix and Path.Compare), "
                "3 sources x 3 routes as a sufficient scope for the source bookkeeping.",
        "technique": "TLA+ spec MergedRIB + TLC exhaustive check; behaviour replay (M1) and trace validation (M2) against mergedlocrib",
    },
}
