"""C07 leaving Established withdraws everything the session contributed (spec BGPFSM)."""
import importlib.util, os
import vf
_s = importlib.util.spec_from_file_location("sc", os.path.join(os.path.dirname(__file__), "session_common.py"))
sc = importlib.util.module_from_spec(_s); _s.loader.exec_module(sc)


def run(ctx):
    big = ctx.thorough()
    behs = []
    # every exit path from Established after 0-2 UPDATEs, then re-establishment on a new connection
    c = sc.consts("ebgp", {"ok"}, {"annA", "annAB", "annC6", "noOrigin", "pfxLen33"}, {"badMarker", "lenLong"},
                  {"ManualStop", "HoldExpires", "Notification", "NotifCode7", "ConnLost"}, 8 if not big else 9)
    behs += sc.run_family(ctx, "ebgp exits", c, 8000 if big else 900, sim=(500 if big else 60, 14))
    # an active peer: the same FSM (and whatever tables it keeps) serves the next session
    c = sc.consts("ebgpA", {"ok"}, {"annA", "annAB", "noOrigin"}, {"badMarker"}, {"ManualStop", "Notification", "ConnLost", "HoldExpires"}, 8, sessions=2)
    behs += sc.run_family(ctx, "active peer exits", c, 3000 if big else 200, design=False, sim=(300 if big else 40, 14))
    if big:
        c = sc.consts("ebgp", {"ok"}, {"annA", "noOrigin"}, {"badMarker"}, {"ManualStop", "Notification", "Wait"}, 8, sessions=2)
        behs += sc.run_family(ctx, "all paths ebgp", c, 4000, design=False, allpaths=True)
    c = sc.consts("hold3", {"hold3"}, {"annAB"}, set(), {"WriteFails", "HoldExpires", "HoldExpiresNoWrite"}, 7)
    behs += sc.run_family(ctx, "keepalive write failure", c, 2000 if big else 150)
    c = sc.consts("ibgp", {"ok"}, {"annAB", "wdA"}, {"type0"}, {"ManualStop", "Notification", "NotifBadSub", "NotifData"}, 7)
    behs += sc.run_family(ctx, "ibgp exits", c, 3000 if big else 250)
    # another session of the same VRF stays established: the local AS keeps taking part in loop detection whatever this one does
    c = sc.consts("ebgp2", {"ok"}, {"annA"}, {"badMarker"}, {"ManualStop", "Notification"}, 8)
    behs += sc.run_family(ctx, "two sessions in one VRF", c, 2000 if big else 150)
    for cfg in ("rr", "rrcid"):
        c = sc.consts(cfg, {"ok"}, {"annAB"}, {"badMarker"}, {"ManualStop", "NotifCode7"}, 7)
        behs += sc.run_family(ctx, "route reflector client (%s) exits" % cfg, c, 2000 if big else 120)
    ctx.rule = ("BGPFSM behaviours that reach Established, learn 0-2 UPDATEs (IPv4 and IPv6) and leave through every exit path "
                "(connection lost without a NOTIFICATION, NOTIFICATION received - plain, with data, with a code or subcode this speaker does not know -, hold timer expiry, keepalive write failure, malformed UPDATE, malformed header, unexpected "
                "OPEN, manual stop), then re-establish on a new connection; after every event the Loc-RIB must hold exactly the current "
                "session's routes while attached and nothing otherwise, the local ASN's (and for a route reflector client the cluster id's, defaulted or configured) loop-detection "
                "contribution must follow (with a second session of the same VRF established throughout it must stay), and "
                "the new session starts from empty Adj-RIBs; non-trivial = Established is left with routes learned")

    def nt(b):
        for i in range(1, len(b)):
            if b[i - 1]["s"]["st"] == "Established" and b[i]["s"]["st"] != "Established" and b[i - 1]["s"]["adjin"]:
                return True
        return False
    ctx.replay("session", behs, per_timeout=90, shards=16, nontrivial=nt)
