"""C23 the session state machine refines the RFC 4271 FSM model (spec BGPFSM)."""
import importlib.util, os
import vf
_s = importlib.util.spec_from_file_location("sc", os.path.join(os.path.dirname(__file__), "session_common.py"))
sc = importlib.util.module_from_spec(_s); _s.loader.exec_module(sc)


def run(ctx):
    big = ctx.thorough()
    behs = []
    # every event in every state: one witness per transition of the complete graph of the bounded machine
    c = sc.consts("ebgp", {"ok", "badAS"}, {"annA", "wdA", "noOrigin"}, {"badType"}, {"ManualStop", "HoldExpires", "Notification", "NotifHdr", "NotifOpen", "NotifCode7", "ConnLost"}, 7 if not big else 8)
    behs += sc.run_family(ctx, "ebgp", c, 6000 if big else 700, sim=(600 if big else 80, 12))
    c = sc.consts("ibgp", {"ok", "idOurs"}, {"annAB", "wdAannB"}, {"badMarker"}, {"ManualStop", "Notification"}, 6)
    behs += sc.run_family(ctx, "ibgp", c, 3000 if big else 300)
    # time passes without events: nothing may happen (the hold timer of OpenSent is a large one)
    c = sc.consts("ebgp", {"ok", "hold0", "hold6"}, {"annA"}, set(), {"Wait"}, 6, sessions=1)
    behs += sc.run_family(ctx, "quiet periods", c, 400 if big else 60, allpaths=True)
    # an active peer: the same FSM object serves session after session (all paths: what a session leaves behind is hidden state)
    c = sc.consts("ebgpA", {"ok", "okNoAS4"}, {"annA"}, {"badType"}, {"Notification", "ConnLost"}, 8, sessions=3)
    behs += sc.run_family(ctx, "active peer, FSM reused", c, 4000 if big else 220, design=False, allpaths=True)
    if big:
        # all paths (not one witness per transition) over a small alphabet: real state hidden under equal abstract states
        c = sc.consts("ebgp", {"ok", "badAS"}, {"annA", "noOrigin"}, {"badType"}, {"ManualStop", "Notification", "Wait"}, 8, sessions=2)
        behs += sc.run_family(ctx, "all paths ebgp", c, 4000, design=False, allpaths=True)
    c = sc.consts("hold3", {"hold3", "ok"}, {"annA"}, set(), {"WriteFails", "HoldExpires", "Sustain"}, 6)
    behs += sc.run_family(ctx, "hold3 (keepalive write failure)", c, 2000 if big else 150)
    ctx.rule = ("one witness per transition of the BGPFSM graph (every event - OPEN classes, KEEPALIVE, UPDATE classes, NOTIFICATION, "
                "malformed header, hold timer expiry, keepalive write failure, manual stop, a quiet period of 2 s, a period longer than a short hold time bridged by KEEPALIVEs - in every state, up to 2-3 consecutive "
                "connections) plus random event sequences; replayed on a real bgpServer with a passive peer over an in-memory connection, and "
                "with an active peer whose own FSM is handed the connections and reused for up to three sessions (all paths); "
                "after every event the observed (state, connection closed, RIBs attached, Adj-RIB-In, Loc-RIB, messages written, "
                "negotiated hold time, ASN contribution) must equal the model's; non-trivial = the session reaches OpenConfirm or beyond")
    ctx.replay("session", behs, per_timeout=60, shards=16,
               nontrivial=lambda b: any(s["s"]["st"] in ("OpenConfirm", "Established") for s in b))
