"""C21 peer input cannot crash the speaker; errors are reported with NOTIFICATION (spec BGPFSM)."""
import importlib.util, os
import vf
_s = importlib.util.spec_from_file_location("sc", os.path.join(os.path.dirname(__file__), "session_common.py"))
sc = importlib.util.module_from_spec(_s); _s.loader.exec_module(sc)


def run(ctx):
    big = ctx.thorough()
    behs = []
    # every malformed header / OPEN / UPDATE class in OpenSent, OpenConfirm and Established
    c = sc.consts("ebgp", {"ok", "version3", "idZero"}, sc.BAD_UPD | {"annA"}, sc.GARBAGE, set(), 5)
    behs += sc.run_family(ctx, "ebgp", c, 10000 if big else 1200)
    c = sc.consts("ibgp", {"ok"}, {"noNextHop", "medLen5", "pfxLen129", "annC6"}, {"lenShort", "lenLong", "badMarker"}, set(), 5)
    behs += sc.run_family(ctx, "ibgp", c, 3000 if big else 300)
    # well-formed but unusual input must not hurt either: UPDATEs with AS4_AGGREGATOR / AS4_PATH / AGGREGATOR / unknown attributes /
    # communities, an OPEN with add-path tuples for families the peer is not configured for
    for cfg in ("ebgp", "ap", "ap6"):
        c = sc.consts(cfg, {"ok", "okOddAP", "okNoAS4"}, sc.EXTRA_UPD if cfg != "ap6" else {"annC6"}, set(), set(), 5, sessions=1)
        behs += sc.run_family(ctx, "unusual but well-formed " + cfg, c, 2000 if big else 150, design=False)
    ctx.rule = ("every malformed-header class (bad marker, length 5 / 18 / 5000, type 0 / 9), malformed OPEN (version, identifier 0) and "
                "malformed UPDATE class (length fields beyond or short of the message, wrong fixed attribute lengths, truncated AS_PATH, "
                "prefix length 33 / 129, missing ORIGIN / AS_PATH / NEXT_HOP / all attributes, truncated NLRI) delivered in OpenSent, "
                "OpenConfirm and Established of a real bgpServer; the process must survive, the NOTIFICATION with the RFC 4271 section 6 "
                "code (and subcode within the class's set) must be written before the connection is closed, and a following connection "
                "must work; well-formed UPDATEs with AS4_AGGREGATOR, AS4_PATH, AGGREGATOR, unknown attributes, communities and OPENs with "
                "add-path tuples for families that are not configured must be accepted; non-trivial = malformed or unusual input was delivered")
    ctx.replay("session", behs, per_timeout=90, shards=16,
               nontrivial=lambda b: any(s["a"] == "RecvGarbage" or (s["a"] == "RecvUpdate" and (not s["upd"]["ok"] or s["u"] != "annA")) or
                                       (s["a"] == "RecvOpen" and s["o"] == "okOddAP") for s in b))
