"""C17 every BGP message bio-rd emits is well-formed and round-trips (spec WireTx)."""
import importlib.util, os
import vf
_s = importlib.util.spec_from_file_location("wt", os.path.join(os.path.dirname(__file__), "wiretx_common.py"))
wt = importlib.util.module_from_spec(_s); _s.loader.exec_module(wt)


def run(ctx):
    big = ctx.thorough()
    behs = []
    # one attribute at a time across its encoding boundaries, every session kind, one and a few prefixes
    base = dict(Sessions=wt.ALLSESS, ASCounts={2}, CommCounts={0}, LCommCounts={0}, ClusterCounts={0}, UnknownSizes={0},
                PfxCounts={1, 3}, PfxLens={24}, Flavours={"plain"})
    fam = [("as-path", dict(ASCounts={0, 1, 63, 64, 126, 127, 128, 254, 255, 256, 300, 510, 511, 600, 900}, Flavours={"plain", "prepend-full-segment"})),
           ("communities", dict(CommCounts={1, 63, 64, 65, 200, 900}, LCommCounts={0, 1, 21, 22, 100})),
           ("cluster-list", dict(ClusterCounts={1, 2, 63, 64, 65, 100, 300}, Sessions={"v4rr", "v6rr", "v4i"})),
           ("unknown", dict(UnknownSizes={1, 254, 255, 256, 257, 1000, 3000}, Flavours={"plain", "two-unknown"})),
           ("flavours", dict(Flavours={"plain", "otc", "med"}, PfxLens={0, 8, 24, 32} if not big else {0, 1, 7, 8, 9, 24, 31, 32})),
           ("prepend by policy", dict(ASCounts={0, 100, 244, 245, 246, 250, 254, 255, 256, 300, 505, 509}, Flavours={"prepend-many"}, Sessions={"v4e", "v4e2", "v6e"})),
           ("combinations", dict(CommCounts={0, 2}, LCommCounts={0, 2}, ClusterCounts={0, 2}, UnknownSizes={0, 5}, Flavours={"plain", "otc", "two-unknown"},
                                 Sessions={"v4e", "v4rr", "v6iAP"}, PfxCounts={1})),
           ("oversize", dict(ASCounts={900, 1100}, CommCounts={0, 400}, UnknownSizes={0, 3000}, Sessions={"v4e", "v6e"}))]
    for name, over in fam:
        behs += wt.cases(ctx, name, **dict(base, **over))
    if big:
        behs += wt.cases(ctx, "combined", **dict(base, ASCounts={0, 255, 256, 600}, CommCounts={0, 64, 200}, ClusterCounts={0, 64},
                                               UnknownSizes={0, 256}, Flavours={"plain", "otc", "prepend-full-segment"}))
    ctx.exhaustive = True
    ctx.rule = ("cases = session kind (IPv4 classic / IPv6 multiprotocol, add-path, iBGP, RR client, 2/4-octet ASN) x one attribute at a "
                "time across its encoding boundaries (AS_PATH 0..900 ASNs incl. a prepend of 1 and of 10 ASNs onto / across a full segment, communities up to 900, "
                "large communities, CLUSTER_LIST up to 300, unknown transitive attributes up to 3000 bytes, OTC, MED, prefix lengths) and all combinations of the optional attributes present / absent "
                "(thorough: also combined); each case goes through the production path UpdateSender.AddPath -> PathAttributes -> "
                "SerializeUpdate; every emitted message must be decodable by the strict reference decoder, be <= 4096 bytes, carry "
                "exactly the attribute set and contents of the case with the byte sizes WireTx computes, and be read back by "
                "packet.Decode with the session's options; when a single prefix cannot fit nothing may be emitted. non-trivial = some "
                "attribute value exceeds 255 bytes or a segment boundary")
    ctx.replay("wiretx", behs, per_timeout=30,
               nontrivial=lambda b: b["case"]["as"] >= 64 or b["case"]["comm"] >= 64 or b["case"]["cl"] >= 64 or b["case"]["unk"] >= 255
               or b["case"]["lcomm"] >= 22)
