"""C15 prefix / address arithmetic vs. bit-level definitions (spec BitNet)."""
import vf

ALG = ["ContainsIrreflexive", "ContainsAntisym", "ContainsTransitive", "ContainsIgnoresHostBits", "ExactlyOne",
       "SupernetIsMeet", "BaseLaws", "CmpLaws"]


def run(ctx):
    big = ctx.thorough()
    # design: the algebra of the definitions, all pairs of prefixes of width 4 (thorough: 5)
    ctx.design("BitNet", vf.cfg_text(constants={"W": 5 if big else 4, "Mode": "algebra", "KSet": set()}, invariants=ALG),
               label="algebra", timeout=1800)
    behs = []
    k32 = set(range(1, 33))
    if big:
        k128 = set(range(1, 129))
    else:
        k128 = {1, 2, 8, 9, 16, 17, 31, 32, 33, 34, 48, 63, 64, 65, 66, 80, 96, 97, 112, 120, 126, 127, 128}
        k128 |= {ctx.rng.randrange(1, 129) for _ in range(6)}
    for w, ks in ((32, k32), (128, k128)):
        r = ctx.tlc("BitNet", vf.cfg_text(constants={"W": w, "Mode": "cases", "KSet": ks}, invariants=["EmitCase"]),
                    workers=1, label="cases W=%d" % w, timeout=3000)
        behs += r.behaviours
    ctx.exhaustive = True
    ctx.rule = ("cases = 4 base patterns x every prefix length lp x second length in {lp-1, lp, lp+1, W} x flipped bit k "
                "(all k for IPv4; boundary + seeded k for IPv6 in quick, all k in thorough); expected values evaluated by TLC "
                "from the bit-level definitions; non-trivial = the two prefixes are comparable or incomparable within the "
                "shorter length (the flipped bit lies inside one of the prefixes)")
    ctx.replay("bitnet", behs, per_timeout=10,
               nontrivial=lambda b: b["cpx"] or b["cxp"] or b["inc"])
