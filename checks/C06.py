"""C06 ineligible paths never reach the Loc-RIB or another consumer (spec RibIn)."""
import importlib.util, os
import vf
_s = importlib.util.spec_from_file_location("rc", os.path.join(os.path.dirname(__file__), "ribin_common.py"))
rc = importlib.util.module_from_spec(_s); _s.loader.exec_module(rc)

ROLES = {"fromCustomer", "fromRSClient", "fromPeer", "fromProvider", "fromRS"}


def run(ctx):
    big = ctx.thorough()
    bad = {"ok1", "loop", "oid", "clus", "empty"}
    otc = {"ok1", "otcP", "otcX"}
    pols = {"accept", "rejall", "setlp"}
    d = 5 if not big else 6
    ctx.design("RibIn", vf.cfg_text(constants={"Bundles": bad, "Pols": pols, "Cfgs": {"ebgp", "ibgp"}, "MaxDepth": 99},
                                    invariants=rc.INV, view="View"), defs={"Pfxs": "{<<0>>}"}, label="design loop detection",
               timeout=3000)
    ctx.design("RibIn", vf.cfg_text(constants={"Bundles": otc, "Pols": {"accept", "rejall"}, "Cfgs": ROLES | {"ebgp"}, "MaxDepth": 99},
                                    invariants=rc.INV, view="View"), defs={"Pfxs": "{<<0>>}"}, label="design OTC roles", timeout=3000)
    runs = [("gen loop detection", {"Bundles": bad, "Pols": pols, "Cfgs": {"ebgp", "ibgp"}, "MaxDepth": d}),
            ("gen OTC roles", {"Bundles": otc, "Pols": {"accept", "rejall"}, "Cfgs": ROLES, "MaxDepth": d}),
            ("gen add-path", {"Bundles": {"ok1", "loop", "oid"}, "Pols": {"accept", "rejall"}, "Cfgs": {"ibgpAP"}, "MaxDepth": d - 1})]
    simc = {"Bundles": bad | otc | {"ok2"}, "Pols": pols | {"rej01", "prep"}, "Cfgs": ROLES | {"ebgp", "ibgp", "ebgpAP", "ibgpAP"}}
    sims = [("sim", simc, 3000 if big else 400, 14)]
    ctx.rule = ("one witness per transition of the RibIn graph with eligible and ineligible bundles mixed (AS loop, own ORIGINATOR_ID, own "
                "cluster id, empty eBGP AS_PATH, OTC from customer/RS-client, foreign OTC from peer, OTC added from provider/peer/RS) x "
                "policy flips reject-all <-> accept <-> rewrite x late registration of the Loc-RIB and of a second consumer, for eBGP, "
                "iBGP, add-path and all 5 remote roles; plus seeded random behaviours; non-trivial = an ineligible bundle is stored at "
                "some step while a consumer is registered. Server level: BGPFSM behaviours with an UPDATE whose AS_PATH contains the local "
                "AS, import policy flips and session resets, alone and next to a second established session of the same VRF")
    inel = {"loop", "oid", "clus", "empty", "otcP", "otcX"}

    def nt(b):
        return any(any(e["b"] in inel for e in s["st"]["adjin"]) and any(s["st"]["reg"].values()) for s in b[1:])
    # server level: an UPDATE whose AS_PATH contains the local AS on a real session, alone and with a second session of the same
    # VRF established throughout (the VRF's loop-detection state is shared and reference counted), across session resets
    sc_spec = importlib.util.spec_from_file_location("sc", os.path.join(os.path.dirname(__file__), "session_common.py"))
    sc = importlib.util.module_from_spec(sc_spec); sc_spec.loader.exec_module(sc)
    sb = []
    for cfg in ("ebgp", "ebgp2", "ibgp"):
        c = sc.consts(cfg, {"ok"}, {"annA", "annLoop"}, set(), {"Notification"}, 8 if big else 7, sessions=2, pols={"accept", "reject"})
        sb += sc.run_family(ctx, "server-level loop detection " + cfg, c, 4000 if big else 400, design=(cfg == "ebgp2"))
    ctx.replay("session", sb, per_timeout=90, shards=16,
               nontrivial=lambda b: any(s["a"] == "RecvUpdate" and s.get("u") == "annLoop" and s["s"]["st"] == "Established" for s in b))
    rc.ribin_runs(ctx, runs, sims, ("v4o8", "v6o60") if not big else ("v4o0", "v4o28", "v6o30", "v6o124"), nt,
                  40000 if big else 3500)
