"""C03 tie-breaking directions (spec Decision): every pair of the head/tail/static domains through Path.Select."""
import vf

INV = ["Antisymmetric", "Reflexive", "Transitive", "StrictTransitive", "TiesOnlyIfIndistinguishable", "RFC_Head", "RFC_Tail"]


def pairs(ctx, domains):
    behs = []
    for d in domains:
        r = ctx.tlc("Decision", vf.cfg_text(constants={"Domain": d}, invariants=INV + ["EmitCase"]), workers=1,
                    label="pairs " + d, timeout=1200)
        if not r.ok:
            raise vf.Infra("Decision violates its own laws: %s" % r.violation)
        behs += r.behaviours
    return behs


def run(ctx):
    behs = pairs(ctx, ["tail", "head", "static"])
    ctx.exhaustive = True
    ctx.rule = ("every ordered pair of the Decision domains: tail (identifier x ORIGINATOR_ID x CLUSTER_LIST absent/empty/1/2 x "
                "peer address x next hop, 96 paths), head (LOCAL_PREF x AS_PATH length x ORIGIN x MED x eBGP x identifier, 64 paths), "
                "static/BGP mix; non-trivial = the two paths differ")
    for v6 in (False, True):
        ctx.replay("decision", behs, params={"v6": v6}, nontrivial=lambda b: b["step"] != "none")
