"""C08 Adj-RIB-Out equals the export view of the Loc-RIB (spec RibOut)."""
import importlib.util, os
import vf
_s = importlib.util.spec_from_file_location("ro", os.path.join(os.path.dirname(__file__), "ribout_common.py"))
ro = importlib.util.module_from_spec(_s); _s.loader.exec_module(ro)


def run(ctx):
    big = ctx.thorough()
    names = {"e1", "e2", "e3", "i1", "st"}
    base = {"Names": names, "Sessions": {"ebgp", "ebgpRS", "ibgp", "ibgpRR", "ebgpAP", "ibgpRRAP"}, "Pols": {"accept", "setmed"},
            "MaxDepth": 5 if not big else 6, "MaxPaths": 3}
    designs = [("design", dict(base, MaxDepth=99, Pols={"accept"}), ro.PFX1)]
    runs = [("gen 1 prefix", base, ro.PFX1),
            ("gen 2 prefixes", dict(base, Names={"e1", "e2", "i1"}, MaxDepth=4, Pols={"accept"}), ro.PFX2),
            # export policies that rewrite what the session itself rewrites (next hop, AS_PATH): a withdrawal has to find the stored form
            ("gen rewriting policies", dict(base, Names={"e1", "i1"}, Sessions={"ebgp", "ebgpRS", "ibgpRR", "ebgpAP"},
                                            Pols={"accept", "setnh", "prep", "prep2"}, MaxDepth=4), ro.PFX1),
            # Loc-RIB paths that rank equal and differ in one attribute only - some of them have the same exported form (source, next hop
            # and LOCAL_PREF do not show towards an eBGP peer), others differ in what is exported (communities, AS_PATH contents):
            # replacing one by the other and removing one of two must hit the right stored path
            ("gen near-identical paths", dict(base, Names={"d0", "dSrc", "dLp", "dComm", "dAsp", "dAggr", "dOtc", "dUnk"}, Sessions={"ebgp", "ibgpRR", "ebgpAP", "ibgpRRAP"},
                                              Pols={"accept"}, MaxDepth=4), ro.PFX1),
            # RFC 9234 roles: routes with and without OTC towards every remote role
            ("gen roles", dict(base, Names={"e1", "ot"}, Sessions={"toCustomer", "toPeer", "toProvider", "toRS", "toRSClient"}, Pols={"accept"},
                               MaxDepth=4), ro.PFX1)]
    sims = [("sim", dict(base, Names={"e1", "e2", "e3", "i1", "i2", "st", "ne", "bk"}, Pols={"accept", "setmed", "rej01", "prep"}, MaxPaths=4),
             ro.PFX2, 3000 if big else 400, 14)]
    ctx.rule = ("one witness per transition of the RibOut graph: Loc-RIB histories (eBGP/iBGP-learned, equal-cost, static paths; "
                "best-path changes, ECMP changes, withdrawals) x session kinds eBGP, eBGP RS-client, iBGP, iBGP RR-client, the five RFC 9234 "
                "remote roles (routes with and without OTC) x add-path "
                "send best/2/3 x export policies (accept, MED, next hop, prepend), with session down/up, sub-sampled by VERIF_SEED, plus seeded random behaviours; after "
                "every step the real Adj-RIB-Out (per prefix, wire-visible attributes), its route count, the path identifiers and what "
                "its client has been told are compared with ExportView; non-trivial = the Adj-RIB-Out is non-empty at some step after a "
                "removal or best-path change")

    def nt(b):
        seen = False
        for s in b[1:]:
            if any(e["paths"] for e in s["st"]["out"]):
                seen = True
            if seen and s["a"] in ("RemovePath", "ReplaceExport", "Down"):
                return True
        return False
    ro.ribout_runs(ctx, designs, runs, sims, ("v4o8", "v6o60") if not big else ("v4o0", "v4o28", "v6o30", "v6o124"), nt,
                   40000 if big else 4000)
