"""C22 OPEN negotiation admits only valid sessions and negotiates correctly (spec BGPFSM, OpenVerdict)."""
import importlib.util, os
import vf
_s = importlib.util.spec_from_file_location("sc", os.path.join(os.path.dirname(__file__), "session_common.py"))
sc = importlib.util.module_from_spec(_s); _s.loader.exec_module(sc)


def run(ctx):
    big = ctx.thorough()
    behs = []
    # all OPEN classes x local configurations; after an accepted OPEN the session is taken to Established and one UPDATE is
    # exchanged so that the negotiated options (4-octet ASN, add-path, multiprotocol) show in what is accepted
    for cfg, ups in (("ebgp", {"annA", "annC6"}), ("ibgp", {"annA"}), ("hold3", {"annA"}), ("cust", {"annA"}), ("custS", {"annA"}),
                     ("ap", {"apA1A2", "apWdA1"})):
        c = sc.consts(cfg, sc.ALL_OPENS, ups, set(), set(), 5 if cfg != "ap" else 6, sessions=1)
        behs += sc.run_family(ctx, cfg, c, 6000 if big else 500, design=(cfg in ("ebgp", "cust")))
    ctx.rule = ("17 OPEN classes (configured / other / AS_TRANS peer AS with and without matching 4-octet capability, identifier ok / 0 / "
                "ours, hold time 0 1 2 3 30 90, version 3, RFC 9234 roles) x 6 local configurations (eBGP, iBGP, hold time 3, role "
                "customer, strict role mode, add-path receive); expected verdict = OpenVerdict (NOTIFICATION code/subcode and closed "
                "connection, or KEEPALIVE and OpenConfirm with hold time = min of both offers); accepted sessions go on to Established "
                "and exchange UPDATEs encoded with the negotiated options (2- or 4-octet AS_PATH, add-path identifiers, MP_REACH); "
                "non-trivial = an OPEN was delivered in OpenSent")
    ctx.replay("session", behs, per_timeout=90, shards=16, nontrivial=lambda b: any(s["a"] == "RecvOpen" for s in b))
