"""C22 OPEN negotiation admits only valid sessions and negotiates correctly (spec BGPFSM, OpenVerdict)."""
import importlib.util, os
import vf
_s = importlib.util.spec_from_file_location("sc", os.path.join(os.path.dirname(__file__), "session_common.py"))
sc = importlib.util.module_from_spec(_s); _s.loader.exec_module(sc)


def run(ctx):
    big = ctx.thorough()
    behs = []
    # all OPEN classes x local configurations; after an accepted OPEN the session is taken to Established and one UPDATE is
    # exchanged so that the negotiated options (4-octet ASN, add-path, multiprotocol) show in what is accepted
    for cfg, ups in (("ebgp", {"annA", "annC6"}), ("ibgp", {"annA"}), ("hold3", {"annA"}), ("cust", {"annA"}), ("custS", {"annA"}),
                     ("ap", {"apA1A2", "apWdA1"}), ("apTx", {"annA"}), ("ibgp4", {"annA"})):
        # (in a 4-octet AS every OPEN of the peer says AS_TRANS in the 2-octet field: classes without the capability do not apply)
        opens = sc.ALL_OPENS if cfg != "ibgp4" else {"ok", "okTrans", "idOurs", "idZero", "badAS", "badAS4", "hold0", "hold3", "hold1", "version3"}
        c = sc.consts(cfg, opens, ups, set(), set(), 5 if cfg != "ap" else 6, sessions=1)
        behs += sc.run_family(ctx, cfg, c, 6000 if big else 380, design=(cfg in ("ebgp", "cust")))
    # negotiation must not depend on earlier sessions of the peer: all paths over two / three consecutive sessions with different
    # OPENs (role present / absent / incompatible in strict mode; 4-octet AS capability present / absent; add-path capability present /
    # absent, also for a peer with the IPv6 family only; hold time 90 / 0), for a
    # passive peer (a new FSM per connection, state kept in the peer) and an active one (one FSM reused)
    seq = [("custS", {"roleProv", "ok", "rolePeer"}, {"annA"}, {"Notification"}, 7), ("ebgp", {"ok", "okNoAS4"}, {"annA"}, {"Notification"}, 9),
           ("ebgpA", {"ok", "okNoAS4"}, {"annA"}, {"Notification"}, 9), ("ebgpA", {"ok", "hold0"}, set(), {"Notification", "Wait"}, 9),
           # add-path with and without the capability in the peer's OPEN, dual-stack and IPv6-only peers, passive and active
           ("ap", {"ok", "okNoAP"}, {"apA1A2", "annA"}, {"Notification"}, 9), ("apA", {"ok", "okNoAP"}, {"apA1A2", "annA"}, {"Notification"}, 9),
           ("ap6A", {"ok", "okNoAP"}, {"apC1C2", "annC6"}, {"Notification"}, 9), ("ap6", {"ok", "okNoAP"}, {"apC1C2", "annC6"}, {"Notification"}, 9)]
    for cfg, opens, ups, stops, depth in seq:
        c = sc.consts(cfg, opens, ups, set(), stops, depth, sessions=2)
        # always replayed: a second session that gets as far as possible (the longest paths), whatever the first one was
        behs += sc.run_family(ctx, "consecutive sessions %s %s" % (cfg, "+".join(sorted(opens))), c, 5000 if big else 100, design=False, allpaths=True,
                              keep=lambda b: len(b) == depth and b[-1]["s"]["nsess"] == 2 and b[-1]["s"]["st"] == "Established"
                              and b[-1]["a"] in ("Wait", "RecvUpdate") and b[-2]["a"] == "RecvKeepalive")
    ctx.rule = ("21 OPEN classes (configured / other / AS_TRANS peer AS with and without matching 4-octet capability, identifier ok / 0 / "
                "ours, hold time 0 1 2 3 30 90, version 3, RFC 9234 roles) x 8 local configurations (eBGP, iBGP, iBGP in a 4-octet AS, hold time 3, role "
                "customer, strict role mode, add-path receive, add-path send only); expected verdict = OpenVerdict (NOTIFICATION code/subcode and closed "
                "connection, or KEEPALIVE and OpenConfirm with hold time = min of both offers); accepted sessions go on to Established "
                "and exchange UPDATEs encoded with the negotiated options (2- or 4-octet AS_PATH, add-path identifiers, MP_REACH); "
                "consecutive sessions with different OPENs on one peer (all paths, passive and active peer): what was negotiated before must "
                "not matter; non-trivial = an OPEN was delivered in OpenSent")
    ctx.replay("session", behs, per_timeout=90, shards=16, nontrivial=lambda b: any(s["a"] == "RecvOpen" for s in b))
