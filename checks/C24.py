"""C24 connection collisions leave at most one established session (spec Collision)."""
import vf

INV = ["AtMostOneEstablished", "AtMostOneBeyondOpenSent", "RoutesOnlyFromEstablished"]
PROPS = ["LoserIsTold", "EstablishedSurvives"]
ORDERS = ["localLower", "localHigher", "sameIdLocalASLower", "sameIdLocalASHigher"]


def run(ctx):
    big = ctx.thorough()
    behs = []
    for order, outgoing in [(o, d) for d in (False, True) for o in ORDERS]:
        c = {"MaxConns": 3, "MaxOpen": 2, "Order": order, "Outgoing": outgoing, "MaxDepth": 99}
        order = order + ("+outgoing" if outgoing else "")
        if not outgoing:
            ctx.design("Collision", vf.cfg_text(constants=c, invariants=INV, properties=PROPS, view="View"), label="design " + order)
        # every interleaving of the events of two simultaneous connections (all paths, not one witness per transition:
        # FSMs that lost keep existing in the peer and must not disturb what follows)
        g = dict(c, MaxDepth=8 if big else 7)
        r = ctx.tlc("Collision", vf.cfg_text(constants=g, invariants=INV, action_constraints=["Emit"]), workers=1, label="all paths " + order,
                    timeout=3000)
        if not r.ok:
            raise vf.Infra("Collision violates its invariants: %s" % r.violation)
        behs += vf.subsample(ctx.rng, r.behaviours, 4000 if big else 140)
        rs = ctx.simulate("Collision", vf.cfg_text(next="NextSim", constants=dict(c, MaxConns=5 if big else 4, MaxDepth=16)),
                          num=400 if big else 20, depth=18, label="sim " + order)
        behs += rs.behaviours
    ctx.rule = ("Collision behaviours: the peer opens up to 3 (simulation: 4-5) connections, at most 2 at a time; every interleaving of "
                "Connect / OPEN / KEEPALIVE / UPDATE / NOTIFICATION from the peer on the connections, to depth 7-8 (all paths, seeded "
                "sample) plus seeded random behaviours of 16 events; x 4 identifier orders (local identifier lower / higher, equal "
                "identifiers with the local AS lower / higher) x (all connections accepted ones of a passive peer | connection 1 the one "
                "the speaker dialled, handed to the peer's own FSM where its TCP connector delivers it). Replayed on a real bgpServer "
                "whose accepted connections arrive through the harness's listener manager; after every event: per connection the FSM state, connection closed, "
                "messages written (OPEN, KEEPALIVE, Cease NOTIFICATION), the number of Established FSMs (<= 1) and the Loc-RIB (only "
                "the established session's prefix) must equal the model's. non-trivial = an OPEN arrives while a sibling is in "
                "OpenConfirm or Established")

    def nt(b):
        for i in range(1, len(b)):
            if b[i]["a"] == "RecvOpen" and any(x["st"] in ("OpenConfirm", "Established") for x in b[i - 1]["s"]["cs"]):
                return True
        return False
    ctx.replay("collision", behs, per_timeout=90, shards=16, nontrivial=nt)
