"""C36 configuration reload converges to the new configuration (spec Reload)."""
import vf

ALLV = {"base", "ttl", "ttlN", "hold", "holdN", "peerAS", "local", "rr", "rrCluster", "rrNoId", "rsc", "apRecv", "apSend", "apSend2",
        "apRecvN", "v6fam", "imp", "imp2", "impN", "exp", "expN", "rm2", "rm3", "only3", "dis", "mp", "active2", "rmAll", "impB", "expB", "v6exp", "v6imp"}
INV = ["HistoryFree", "OneSessionPerPeer", "RemovedAreGone"]


def run(ctx):
    big = ctx.thorough()
    binp = ctx.build_repo_binary("./cmd/bio-rd", "bio-rd-verif")
    ctx.design("Reload", vf.cfg_text(constants={"Variants": ALLV, "MaxDepth": 99}, invariants=INV, view="View"), label="design")
    # every ordered pair (old, new) of the 32 configurations: witness per transition of the VIEW-reduced graph
    r = ctx.tlc("Reload", vf.cfg_text(constants={"Variants": ALLV, "MaxDepth": 2}, invariants=INV, view="View",
                                      action_constraints=["Emit"]), workers=1, label="all pairs")
    if not r.ok:
        raise vf.Infra("Reload violates its invariants: %s" % r.violation)
    behs = r.behaviours
    if not big:
        # quick: every pair that involves the base configuration + a seeded sample of the other pairs
        keep = [b for b in behs if len(b) < 2 or "base" in (b[0]["v"], b[1]["v"])]
        rest = [b for b in behs if not (len(b) < 2 or "base" in (b[0]["v"], b[1]["v"]))]
        behs = keep + vf.subsample(ctx.rng, rest, 160)
    rs = ctx.simulate("Reload", vf.cfg_text(next="NextSim", constants={"Variants": ALLV, "MaxDepth": 5}), num=400 if big else 30, depth=5)
    behs += rs.behaviours
    ctx.exhaustive = True
    ctx.rule = ("32 configurations (a base of two groups / three neighbours and single-aspect variants: TTL, hold time, peer AS, local "
                "address, RR client / cluster id, RS client, add-path receive/send per group and per neighbour, extra address family, "
                "import/export policies per group and neighbour, policies of the IPv6 group and of an IPv4 group carrying the IPv6 family, removed neighbours/groups down to none, disabled, passive); every ordered pair "
                "(old, new) and seeded sequences of 5 are loaded through the real reload path of a hooked bio-rd binary; after every "
                "reload the peers' effective settings, stored PeerConfig and policy chains must equal Effective(new); the spec's "
                "Effective itself is first checked against a real fresh start (disagreement = harness error, not a verdict); "
                "non-trivial = the last two configurations differ")
    ctx.replay("reload", behs, params={"bin": binp}, per_timeout=60, shards=8,
               nontrivial=lambda b: len(b) >= 2 and b[-1]["v"] != b[-2]["v"])
