"""C20 received UPDATEs are applied NLRI by NLRI (spec BGPFSM, UPDATE classes)."""
import importlib.util, os
import vf
_s = importlib.util.spec_from_file_location("sc", os.path.join(os.path.dirname(__file__), "session_common.py"))
sc = importlib.util.module_from_spec(_s); _s.loader.exec_module(sc)


def run(ctx):
    big = ctx.thorough()
    behs = []
    c = sc.consts("ebgp", {"ok"}, sc.VALID_UPD, set(), set(), 7 if not big else 8, sessions=1)
    behs += sc.run_family(ctx, "ebgp", c, 10000 if big else 1200, sim=(500 if big else 60, 14))
    c = sc.consts("ap", {"ok"}, sc.AP_UPD, set(), set(), 7 if not big else 8, sessions=1)
    behs += sc.run_family(ctx, "add-path", c, 10000 if big else 1200, sim=(500 if big else 60, 14))
    c = sc.consts("ibgp", {"ok"}, {"annAB", "wdAannB", "annC6", "wdC6"}, set(), set(), 6, sessions=1)
    behs += sc.run_family(ctx, "ibgp", c, 3000 if big else 300, design=False)
    # add-path in the multiprotocol encoding: several NLRI of one MP_REACH_NLRI with their own identifiers (one prefix, two prefixes)
    c = sc.consts("ap6", {"ok"}, {"apC1C2", "apC1D2", "apWdC1"}, set(), set(), 6, sessions=1)
    behs += sc.run_family(ctx, "add-path ipv6", c, 3000 if big else 400, design=False)
    ctx.rule = ("valid UPDATEs with 1-2 NLRI per message, mixed announce/withdraw, IPv4 classic and MP_REACH/MP_UNREACH IPv6 encodings, "
                "without add-path and with add-path (two paths of one prefix with their own identifiers, withdrawal of one identifier, "
                "withdraw+announce in one message; IPv6: two identifiers of one prefix and of two prefixes in one MP_REACH_NLRI), in every order up to depth 7 plus random sequences; after every message the "
                "Adj-RIB-In (prefix, path identifier) set and the Loc-RIB of the real session must equal the model's; non-trivial = an "
                "UPDATE with >= 2 NLRI or a withdrawal is applied")

    def nt(b):
        return any(s["a"] == "RecvUpdate" and s["upd"]["ok"] and (len(s["upd"]["announce"]) >= 2 or s["upd"]["withdraw"]) and s["s"]["st"] == "Established" for s in b)
    ctx.replay("session", behs, per_timeout=90, shards=16, nontrivial=nt)
