"""C27 a monitored router cannot crash or exhaust the BMP receiver (spec BMPWire)."""
import vf

INV = ["TypeOK", "SizesAddUp", "LenMutationLies", "CutsAreInside", "TLVMutationsHitATLV", "TLVLenMutationLies",
       "FramingIsBounded", "OnlyTrueLengthDelivers", "EmitCase"]
KINDS = {"init", "term", "peerup", "peerdown", "routemon", "stats", "mirror"}
MUTS = {"none", "len", "version", "type", "cut", "swap", "tlvlen", "tlvempty", "tlvcut", "tlvtype", "tlvmany", "reason",
        "count", "open", "peerhdr", "unknownpeer", "duplicate", "down", "pdu", "flags", "rand", "randhdr", "noise"}


def run(ctx):
    big = ctx.thorough()
    consts = {"Ctxs": {"fresh", "inited", "peer", "ipeer"}, "Kinds": KINDS, "Muts": MUTS, "Rand": 400 if big else 25}
    r = ctx.tlc("BMPWire", vf.cfg_text(constants=consts, invariants=INV), workers=1, label="enumerate cases", timeout=1500)
    if not r.ok:
        raise vf.Infra("BMPWire violates its own laws: %s" % r.violation)
    behs = r.behaviours
    ctx.exhaustive = True
    ctx.rule = ("every case of the BMPWire grammar: conversation prefix (none / Initiation / Initiation+PeerUp+route) x message kind (7) x "
                "mutation class (common-header length 0,1,5,6,true+-1,4096,4097,65535,2^16,2^20,2^20+1,2^24,2^31-1,2^31,2^32-1; version; "
                "unknown type; stream cut inside header/per-peer header/body; body of one kind under the type of another; TLV length "
                "0/true+-1/255/65535, empty TLV, TLV header cut, unknown TLV type, 100..10000 empty TLVs; termination reason TLV of "
                "0,1,3,4 bytes; statistics count 0..2^32-1; 16 mutations of the sent/received OPEN of a peer-up incl. AS / BGP-ID "
                "disagreeing with the per-peer header; per-peer header mutations; unknown / duplicate peer; peer-down reason x data; "
                "route monitoring / mirroring carrying NOTIFICATION, OPEN, KEEPALIVE, ROUTE-REFRESH, unknown types, lying BGP length, "
                "bad marker, malformed attributes / NLRI; per-peer flags) plus %d seeded random fills per (prefix, kind) of the body and of "
                "the whole message and of the whole stream (VERIF_SEED; replayed under 2 (thorough: 4) derived seeds). Each case is concretised into bytes (valid parts by the repository's serialisers; the "
                "encoding must have exactly the sizes of the BMPWire layout) and served to a real Router over net.Pipe, followed by valid "
                "traffic and a connection close. Verdict: no panic, every write is taken or the session ends within 5 s, serve returns "
                "within 5 s of the close, TotalAlloc over the case <= 4 MiB + 64 x bytes sent. Limit: this is the structured mutation "
                "space of the grammar plus seeded random fills, not all byte strings. non-trivial = mutated message (mut != none)"
                % consts["Rand"])
    ctx.assumptions.append("byte-level coverage is the structured mutation space of specs/BMPWire.tla plus seeded random fills; "
                           "coverage-guided fuzzing of arbitrary byte strings is outside the TLA+ family")
    # the random fills (rand / randhdr / noise) are a function of (VERIF_SEED + k, n): replay under several k
    for k in range(4 if big else 2):
        ctx.replay("bmpwire", behs, params={"seed": ctx.seed * 16 + k}, per_timeout=30, shards=min(vf.NCPU, 8),
                   nontrivial=lambda b: b["mut"] != "none")
