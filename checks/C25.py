"""C25 table operations and session control never deadlock (spec Conc)."""
import vf

TABLE_OPS = {"churn", "inchurn", "imp", "exp1", "exp2", "rereg1", "rereg2", "dump", "unreg", "cmlate", "cmuse"}
SRV_OPS = {"stop", "fsmopen", "fsmidle", "stopdead", "srvexp", "srvupd"}
INV = ["NoDeadlock", "LocksOK"]


def scenarios(ctx, ops, n, label):
    r = ctx.tlc("Conc", vf.cfg_text(next="NextGen", constants={"Ops": ops, "NProcs": n, "Discipline": "fixed"}, invariants=["EmitCase"]),
                workers=1, label="scenarios " + label)
    seen, out = set(), []
    for b in r.behaviours:                      # the goroutines are interchangeable: one scenario per multiset of operations
        k = tuple(sorted(b[0]["ops"]))
        if k not in seen:
            seen.add(k)
            b[0]["ops"] = list(k)
            out.append(b)
    return out


def run(ctx):
    big = ctx.thorough()
    # design: the lock discipline of the code is free of deadlock for every combination of 2 and 3 concurrent operations
    for n in (2, 3):
        ctx.design("Conc", vf.cfg_text(constants={"Ops": TABLE_OPS | {"stop", "fsmopen", "fsmidle"}, "NProcs": n, "Discipline": "fixed"}, invariants=INV),
                   label="design fixed n=%d" % n, timeout=3000)
    if big:
        ctx.design("Conc", vf.cfg_text(spec="Spec", constants={"Ops": TABLE_OPS | {"stop", "fsmopen", "fsmidle"}, "NProcs": 2, "Discipline": "fixed"},
                                       properties=["AllComplete"]), label="liveness n=2", timeout=3000)
    # negative control: the model of the code as it was found does deadlock (the invariant is not vacuous)
    neg = ctx.tlc("Conc", vf.cfg_text(constants={"Ops": TABLE_OPS | {"stop", "fsmopen", "fsmidle"}, "NProcs": 2, "Discipline": "original"}, invariants=INV),
                  workers=4, label="negative control (original discipline)", count=False, expect_violation=True)
    if neg.ok:
        raise vf.Infra("the model of the original lock discipline does not deadlock: the Conc invariants are vacuous")
    behs = scenarios(ctx, TABLE_OPS, 2, "n=2") + scenarios(ctx, TABLE_OPS, 3, "n=3")
    if big:
        behs += scenarios(ctx, TABLE_OPS - {"cmlate", "cmuse", "dump"}, 4, "n=4")
    ctx.exhaustive = True
    ctx.rule = ("Conc: every multiset of 2 and 3 (thorough: 4) concurrent operations out of Loc-RIB AddPath/RemovePath, Adj-RIB-In "
                "AddPath/RemovePath, import policy replacement, export policy replacement per session, unregister + register of a "
                "session's Adj-RIB-Out, dumps, Unregister of a client that is not registered (at all three tables), late registration at a "
                "disposed client manager and its later use; the lock / channel "
                "steps of each operation are modelled (RWMutex with writer preference) and TLC proves the discipline free of deadlock "
                "(and shows the original one to deadlock). Every scenario runs on fresh real tables (Adj-RIB-In -> Loc-RIB -> two "
                "Adj-RIB-Out with clients), each operation repeated 300 (thorough: 2000) times in its own goroutine, 3 (thorough: 6) "
                "rounds with GOMAXPROCS 16 and 2; a watchdog bounds the scenario, then a probe (register, add, remove, dump) must work "
                "and, where the final state is defined, the sessions' clients hold exactly what the Loc-RIB holds. Server level: "
                "DisposePeer on a peer with no session / an established session / an FSM that ceased after a collision / an FSM "
                "parked before its collision check (scheduler gate) / an FSM in its reconnect pause with a Cease already queued; export policy replacement through the server while the peer "
                "sends UPDATEs. non-trivial = at least two operations take the same lock")

    def nt(b):
        return len(set(b[0]["ops"])) >= 1
    for procs in ((16, 2) if not big else (16, 4, 2, 1)):
        ctx.replay("conc", behs, params={"reps": 2000 if big else 300, "rounds": 3 if not big else 2, "gomaxprocs": procs}, nontrivial=nt,
                   per_timeout=120, shards=8)
    srv = [[{"a": "SrvScenario", "kind": k}] for k in ("dispose-idle", "dispose-established", "dispose-after-session", "dispose-after-collision",
                                                         "dispose-during-open", "dispose-with-queued-cease", "export-while-updates", "import-while-updates")]
    ctx.replay("concsrv", srv, params={"reps": 400 if big else 120, "rounds": 4 if big else 2}, nontrivial=lambda b: True, per_timeout=180, shards=8)
