"""C30 IS-IS PDU decoding is total and encoding round-trips (spec ISISWire)."""
import vf

LAWS = ["FieldsMatchLength", "OffsetsAreBoundaries", "Fits", "MutationInRange", "SNPBounds"]
INV = LAWS + ["EmitCase"]


def _cases(ctx, mode, sample=0, timeout=1800):
    r = ctx.tlc("ISISWire", vf.cfg_text(constants={"Mode": mode, "Sample": sample}, invariants=INV), workers=1, label=mode,
                timeout=timeout)
    if not r.ok:
        raise vf.Infra("ISISWire violates its own laws (%s): %s" % (mode, r.violation))
    return r.behaviours


def run(ctx):
    big = ctx.thorough()
    # round trip: every hello / LSP within two parameter changes of the base (exhaustive) + seeded random ones,
    # and every (kind, number of entries, entries per PDU, value class) for the sequence-number PDUs
    rt = _cases(ctx, "rt-near") + _cases(ctx, "rt-random", 20000 if big else 1000)
    snp = _cases(ctx, "snp")
    # totality: every mutation of the base PDUs and of every PDU within one parameter change of the base (quick: a
    # seeded sample of 5000 of the latter)
    # + every single byte of the base PDUs set to 0/1/255 and truncation after every byte
    mut = _cases(ctx, "mut") + _cases(ctx, "mut-bytes")
    wide = _cases(ctx, "mut-wide", timeout=3000)
    mut += wide if big else vf.subsample(ctx.rng, wide, 5000)
    ctx.exhaustive = True
    ctx.rule = ("TLC enumerates abstract PDUs (kind, class of fixed values zero/typical/all-ones, TLV descriptors [kind, items, width]) "
                "with the byte layout computed in the spec. Round trip: every P2P hello and LSP within two parameter changes of the "
                "base (TLV item counts 0 .. the largest that fits 255 bytes, area/prefix widths, neighbour present or not, optional "
                "padding / unknown / checksum / IS-neighbours / TE-router-id / repeated TLVs) + seeded random ones; CSNP and PSNP: "
                "n in {0..5,7,15,16,17,31,32,100} entries x entries per PDU in {1,2,3,5,MTU 1500}. Each PDU is built with the "
                "package's constructors, serialised behind the LLC header and decoded with packet.Decode: header, fixed fields, PDU "
                "length, checksum and per TLV type the items (typed decoders) or the value bytes (opaque) must come back; the split "
                "of a list over TLVs / PDUs is free. Totality: for each base PDU truncation at every field boundary, each TLV "
                "length in {0,1,true-1,true+1,255}, each TLV type replaced by every known and some unknown types, inner (area) "
                "length bytes, PDU length field {0,true-1,true+1,65535}, every other PDU type, header bytes 0/255, 1/2/3/17 "
                "trailing bytes, the same for every PDU within one parameter change of the base (quick: seeded sample of 5000), and "
                "every single byte of the base PDUs set to 0/1/255 + truncation after every byte: Decode must return a PDU or an error (panic / hang = divergence). Values are filled from "
                "VERIF_SEED. Limit: the structured mutation space of the grammar, not all byte strings. Non-trivial = a "
                "mutation case, >= 1 LSP entry, or a PDU with at least one non-empty TLV")

    def nt(b):
        if b["a"] == "Mutate":
            return True
        if b["a"] == "SNP":
            return b["n"] >= 1
        return any(t["n"] > 0 for t in b["pdu"]["tlvs"])
    fills = [ctx.seed, ctx.seed + 1] if not big else [ctx.seed + i for i in range(6)]
    for i, fill in enumerate(fills):
        ctx.replay("isiswire", rt + snp + mut, params={"fill": fill}, per_timeout=20, nontrivial=nt, count_traces=(i == 0))
