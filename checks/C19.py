"""C19 malformed UPDATEs never install routes (spec BGPFSM, UPDATE classes)."""
import importlib.util, os
import vf
_s = importlib.util.spec_from_file_location("sc", os.path.join(os.path.dirname(__file__), "session_common.py"))
sc = importlib.util.module_from_spec(_s); _s.loader.exec_module(sc)


def run(ctx):
    big = ctx.thorough()
    behs = []
    for cfg in ("ebgp", "ibgp"):
        # Established with 0-1 routes already learned, then each malformed class; then a new connection
        c = sc.consts(cfg, {"ok", "okNoAS4"}, sc.BAD_UPD | {"annA"}, set(), set(), 6 if not big else 7, sessions=2)
        behs += sc.run_family(ctx, cfg, c, 10000 if big else 1000, design=(cfg == "ebgp"))
    c = sc.consts("ap", {"ok"}, {"apA1A2", "pfxLen33", "nlriTrunc", "attrLenShort", "noAttrs", "asPathTrunc"}, set(), set(), 6, sessions=1)
    behs += sc.run_family(ctx, "add-path", c, 3000 if big else 300, design=False)
    ctx.rule = ("17 malformed UPDATE classes (withdrawn / attribute length beyond the message, attribute section shorter than its "
                "attributes, ORIGIN / NEXT_HOP / MED with a wrong fixed length, AS_PATH segment beyond the attribute, IPv4 prefix length "
                "33, IPv6 prefix length 129, reachable NLRI without ORIGIN / AS_PATH / NEXT_HOP / any attribute, IPv4 NLRI without NEXT_HOP next to an MP_REACH_NLRI, MP_REACH_NLRI without ORIGIN / AS_PATH, truncated NLRI) sent on "
                "an established real session (eBGP, iBGP, 2- and 4-octet AS, add-path) with and without routes already learned; the "
                "model says the Adj-RIB-In and the Loc-RIB are unchanged by the message (and emptied by the session reset that follows); "
                "non-trivial = a malformed UPDATE reaches Established")

    def nt(b):
        return any(b[i]["a"] == "RecvUpdate" and not b[i]["upd"]["ok"] and b[i - 1]["s"]["st"] == "Established" for i in range(1, len(b)))
    ctx.replay("session", behs, per_timeout=90, shards=16, nontrivial=nt)
