"""Shared by C17, C18 (and the wire part of C09): WireTx case families."""
import vf

LAWS = ["LenMonotone", "ExtendedIffLong", "EmitCase"]
ALLSESS = {"v4e", "v4e2", "v4eAP", "v4i", "v4rr", "v6e", "v6iAP", "v6rr"}


def cases(ctx, label, **consts):
    r = ctx.tlc("WireTx", vf.cfg_text(constants=consts, invariants=LAWS), workers=1, label=label, timeout=1800)
    if not r.ok:
        raise vf.Infra("WireTx violates its laws: %s" % r.violation)
    return r.behaviours
