"""C32 The IS-IS LSDB follows the ISO 10589 update process (spec ISISLSDB)."""
import os
import re
import vf

INV = ["TypeOK", "HighestSeqKept", "RefreshBeforeExpiry", "OwnSeqAboveReceived", "NoSRMWithoutLSP"]
PROPS = ["SeqNeverDecreases", "RegeneratedIsFlooded"]


def code_const(path, name):
    src = open(os.path.join(vf.REPO, path)).read()
    m = re.search(r"%s\s*=\s*(\d+)" % name, src)
    if not m:
        raise vf.Infra("cannot read %s from %s" % (name, path))
    return int(m.group(1))


BURSTS = "{<<3, 1>>, <<1, 2>>}"      # two newer copies of the local LSP, descending and ascending


def run(ctx):
    big = ctx.thorough()
    life = code_const("protocols/isis/server/lsp.go", "defaultLifetimeSeconds")
    thr = code_const("protocols/isis/server/lsdb.go", "lspRefreshThresholdSeconds")
    first = life - thr + 2              # the aging tick of a fresh local LSP that triggers its refresh
    two = {"if1", "if2"}

    # design: every state within the bounds (small lifetimes so that aging, expiry and refresh are all inside); FastIsRun: the
    # closed form Tick(k) evaluates is k aging ticks
    small = {"Ifaces": two, "OwnLifetime": 6, "Threshold": 2, "MaxDepth": 99}
    ctx.design("ISISLSDB", vf.cfg_text(constants=dict(small, Remote={"r1"}, MaxSeq=2, Lifes={1, 3} if big else {2}, SnpLifes={2},
                                                       Jumps={1, 2, 7} if big else {1, 7}, MaxOwnSeq=4 if big else 2,
                                                       MaxDepth=99),
                                       invariants=INV + ["FastIsRun"], properties=PROPS, view="View", constraints=["SeqBound"]),
               defs={"OwnDeltas": "{-1, 0, 1}" if big else "{0, 1}", "Bursts": BURSTS}, label="design one remote id", timeout=3000, coverage=big)
    ctx.design("ISISLSDB", vf.cfg_text(constants=dict(small, Remote={"r1", "r2"}, MaxSeq=2 if big else 1, Lifes={2}, SnpLifes={2},
                                                       Jumps={1, 6}, MaxDepth=6 if big else 4, MaxOwnSeq=3),
                                       invariants=INV + ["FastIsRun"], properties=PROPS, view="View", constraints=["SeqBound"]),
               defs={"OwnDeltas": "{0, 1}", "Bursts": BURSTS}, label="design two remote ids", timeout=3000, workers=1)   # depth-bounded + VIEW: one worker keeps the explored set deterministic

    # emission with the code's constants
    real = {"Ifaces": two, "OwnLifetime": life, "Threshold": thr, "MaxOwnSeq": 0}
    runs = [("gen one remote id", dict(real, Remote={"r1"}, MaxSeq=2, Lifes={1, life - 600}, SnpLifes={life - 600},
                                       Jumps={1, first - 1, first} if big else {1, first}, MaxDepth=4 if not big else 5), "{-1, 0, 1}"),
            ("gen two remote ids", dict(real, Remote={"r1", "r2"}, MaxSeq=2 if big else 1, Lifes={2, life - 600}, SnpLifes={life - 600},
                                        Jumps={1, first}, MaxDepth=3 if not big else 4), "{0, 1}")]
    budget = 60000 if big else 4000
    behs = []
    for label, consts, deltas in runs:
        r = ctx.tlc("ISISLSDB", vf.cfg_text(constants=consts, invariants=INV, view="View", action_constraints=["Emit"]),
                    defs={"OwnDeltas": deltas, "Bursts": BURSTS}, workers=1, label=label, timeout=3000)
        if not r.ok:
            raise vf.Infra("ISISLSDB violates its own invariants: %s" % r.violation)
        behs += vf.subsample(ctx.rng, r.behaviours, budget)
    # random long behaviours (TLC's simulator evaluates every successor of every state it passes: the SNP entry sets are kept small)
    simc = dict(real, Remote={"r1", "r2"}, MaxSeq=3 if big else 2, Lifes={1, 2, 3, thr, life - 600} if big else {1, 2, life - 600},
                SnpLifes={life - 600}, Jumps={1, 2, 3, thr - 1, first - 1, first, first + 1} if big else {1, 2, first - 1, first})
    sdepth = 16 if big else 10
    rs = ctx.simulate("ISISLSDB", vf.cfg_text(next="NextSim", constants=dict(simc, MaxDepth=sdepth)), num=3000 if big else 150,
                      depth=sdepth, defs={"OwnDeltas": "{-2, -1, 0, 1, 2}" if big else "{-1, 0, 1, 2}", "Bursts": BURSTS}, label="sim", timeout=3000)
    behs += rs.behaviours

    ctx.rule = ("one witness behaviour per transition of the ISISLSDB graph (two circuits; one remote LSP ID to depth %d with sequence "
                "numbers 1..2, copies of the local LSP at -1/0/+1 of the stored number, two newer copies (+3 then +1, +1 then +2) received before the updater runs (scheduler gate), lifetimes 1 and %d s; two remote IDs below and "
                "above the local one to depth %d; CSNPs with the full range and the two half ranges; aging steps of 1 s and, up to and across the refresh of the local LSP, %d and %d s), "
                "sub-sampled by VERIF_SEED, plus seeded random behaviours of %d steps (two remote IDs, local copies at -1..+2). "
                "Replayed against the level-2 LSDB of a real isis/server.Server with two Up adjacencies: PDUs injected on the ethernet "
                "seam, aging and transmission rounds triggered one at a time; after every step GetLSDB (sequence number, remaining "
                "lifetime) and the SRM/SSN flags are compared, after SendLSPs/SendPSNPs the PDUs on the wire. Non-trivial = a remote "
                "LSP is stored, superseded or aged out, or the local LSP is regenerated"
                % (runs[0][1]["MaxDepth"], life - 600, runs[1][1]["MaxDepth"], first - 1, first, sdepth))
    ctx.assumptions.append("OwnLifetime/Threshold are read from defaultLifetimeSeconds (%d) and lspRefreshThresholdSeconds (%d) and "
                           "cross-checked by the adapter; the property only asks for a refresh before expiry (RefreshBeforeExpiry), the "
                           "exact tick is the code's" % (life, thr))
    ctx.assumptions.append("purges (zero remaining lifetime) and LSP fragments other than number 0 are outside the generated domain")

    def nt(b):
        ids = [set(e["id"] for e in s["st"]["db"]) for s in b]
        own = [[e["seq"] for e in s["st"]["db"] if e["id"] == "own"] for s in b]
        return any(len(x) > 1 for x in ids) or own[0] != own[-1]
    ctx.replay("isislsdb", behs, nontrivial=nt, per_timeout=120, shards=vf.NCPU)
