"""C18 UPDATE packing is lossless and respects the message size limit (spec WireTx)."""
import importlib.util, os
import vf
_s = importlib.util.spec_from_file_location("wt", os.path.join(os.path.dirname(__file__), "wiretx_common.py"))
wt = importlib.util.module_from_spec(_s); _s.loader.exec_module(wt)


def run(ctx):
    big = ctx.thorough()
    behs = []
    base = dict(Sessions={"v4e", "v4eAP", "v4i", "v6e", "v6iAP", "v6rr"}, ASCounts={2}, CommCounts={0}, LCommCounts={0},
                ClusterCounts={0}, UnknownSizes={0}, PfxCounts={1, 200, 700, 1000, 1400, 3000}, PfxLens={8, 24, 32}, Flavours={"plain"})
    # many prefixes with small attributes; attribute sizes that leave room for only a few prefixes per message; every
    # attribute kind that takes part in the budget estimate
    fam = [("many prefixes", dict(PfxLens={8, 24, 32, 48, 64, 128} if big else {8, 24, 32})),
           ("big attributes", dict(ASCounts={200, 254, 255, 256, 500, 800, 900, 960}, PfxCounts={1, 5, 50, 400},
                                   Flavours={"plain", "otc"})),
           ("communities", dict(CommCounts={63, 64, 300, 800, 900}, LCommCounts={0, 22, 100}, PfxCounts={1, 5, 50, 400})),
           ("cluster list + unknown", dict(ClusterCounts={0, 64, 300}, UnknownSizes={0, 256, 2000, 3000}, Sessions={"v4i", "v6rr", "v4e"},
                                           PfxCounts={1, 5, 50, 400}, Flavours={"plain", "two-unknown"})),
           ("near the limit", dict(ASCounts={940, 950, 955, 958, 960, 962, 964, 966, 968, 970, 980}, PfxCounts={1, 2, 3, 10}, PfxLens={0, 8, 24, 32},
                                   Sessions={"v4e", "v4eAP", "v4i", "v6e"}))]
    for name, over in fam:
        b = wt.cases(ctx, name, **dict(base, **over))
        # IPv4 prefix lengths above 32 only make sense for IPv6 sessions and vice versa
        b = [x for x in b if (x["case"]["plen"] <= 32 or x["sess"]["v6"]) and (x["case"]["npfx"] <= 250 or x["case"]["plen"] >= 16)]
        behs += b
    ctx.exhaustive = True
    ctx.rule = ("cases = session kind x number of prefixes (1..3000) x prefix length x attribute sizes from tiny to within a few bytes "
                "of the 4096-byte limit (AS_PATH up to 980 ASNs, communities, large communities, CLUSTER_LIST, unknown attributes, OTC); "
                "each case is queued on the real UpdateSender and flushed; the emitted UPDATEs (strict reference decoder) must announce "
                "exactly the queued prefixes, each once, every message <= 4096 bytes with the queued attributes and the byte sizes "
                "WireTx computes; non-trivial = more than one UPDATE is needed or the attributes leave room for fewer than 20 prefixes")

    def nt(b):
        return b["fits"] and (b["len1"] + (b["case"]["npfx"] - 1) * b["perpfx"] > 4096 or 4096 - b["len1"] < 20 * b["perpfx"])
    ctx.replay("wiretx", behs, per_timeout=60, nontrivial=nt)
