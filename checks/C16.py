"""C16 BGP message decoding is total and bounded (spec WireRx: grammar + mutation classes)."""
import vf

ALLM = {"keepalive", "notif", "open", "openNoCaps", "updV4", "updV4as2", "updV4ap", "updAllAttr", "updLong", "updV6", "updV6ap", "updV6wd",
        "updMP4", "eor"}
LAWS = ["WellFramed", "IsBytes", "EmitCase"]


def run(ctx):
    big = ctx.thorough()
    behs = []
    allopts = set(range(16))
    # valid messages and every truncation, all 16 option combinations
    r = ctx.tlc("WireRx", vf.cfg_text(constants={"Msgs": ALLM - ({"updLong"} if not big else set()), "Muts": {"none", "trunc", "grow"},
                                                 "ByteVals": set(), "OptSets": allopts if big else {0, 5, 7, 15}}, invariants=LAWS),
                workers=1, label="truncations", timeout=3000)
    behs += r.behaviours
    # every single byte replaced (length fields, counts, prefix lengths, flags, types are all among them)
    vals = {0, 1, 2, 3, 127, 128, 254, 255} if big else {0, 1, 128, 255}
    opts = allopts if big else {4, 5, 7}
    r = ctx.tlc("WireRx", vf.cfg_text(constants={"Msgs": ALLM - {"updLong"}, "Muts": {"byte"}, "ByteVals": vals, "OptSets": opts}, invariants=LAWS),
                workers=1, label="single bytes", timeout=3000)
    b2 = r.behaviours
    behs += b2 if big else vf.subsample(ctx.rng, b2, 25000)
    if big:
        r = ctx.tlc("WireRx", vf.cfg_text(constants={"Msgs": {"updLong"}, "Muts": {"byte"}, "ByteVals": {0, 255}, "OptSets": {4, 5}}, invariants=LAWS),
                    workers=1, label="single bytes (long attribute)", timeout=3000)
        behs += r.behaviours
    ctx.exhaustive = big
    ctx.rule = ("grammar of 14 valid messages (KEEPALIVE, NOTIFICATION, OPEN with 8 capabilities / none, UPDATEs: IPv4 announce+withdraw, "
                "2-octet AS, add-path, all attribute kinds, >255-byte attribute, MP_REACH IPv6 with/without add-path, MP_UNREACH, "
                "MP_REACH IPv4, end-of-RIB) x mutations (none; truncation at EVERY byte offset; header length grown by 1..4000 with zero "
                "fill; every single byte replaced by boundary values, which covers every length field, count, prefix length, flag and "
                "type) x decode option combinations (quick: 4 / 3 of 16 and a seeded sample of the byte mutations; thorough: all 16, all "
                "byte mutations); each case is decoded by packet.Decode: no panic, a message or an error, < 200 ms, < 4 MiB allocated; "
                "unmutated messages must be accepted. Structured space only (not all byte strings). non-trivial = a mutated message")
    ctx.replay("wirerx", behs, per_timeout=20, nontrivial=lambda b: b["mut"] != "none")
