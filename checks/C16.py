"""C16 BGP message decoding is total and bounded (spec WireRx: grammar + mutation classes)."""
import vf

ALLM = {"keepalive", "notif", "open", "openNoCaps", "updV4", "updV4as2", "updV4ap", "updAllAttr", "updLong", "updV6", "updV6ll", "updV6ap",
        "updV6wd", "updMP4", "updMP4wd", "updV6lu", "updV6luwd", "updV4lu", "eor"}
LAWS = ["WellFramed", "OuterFramed", "IsBytes", "EmitCase"]


def run(ctx):
    big = ctx.thorough()
    behs = []
    allopts = set(range(16))
    # valid messages and every truncation, all 16 option combinations
    r = ctx.tlc("WireRx", vf.cfg_text(constants={"Msgs": ALLM - ({"updLong"} if not big else set()), "Muts": {"none", "trunc", "grow"},
                                                 "ByteVals": set(), "OptSets": allopts if big else {0, 5, 7, 15}}, invariants=LAWS),
                workers=1, label="truncations", timeout=3000)
    behs += r.behaviours
    # structural truncations: one field (attribute value, NLRI / withdrawn section, capability value, message tail) is shorter than its
    # content expects while every enclosing length is right, so the decoder gets past the framing checks
    r = ctx.tlc("WireRx", vf.cfg_text(constants={"Msgs": ALLM, "Muts": {"cutfix", "attrtrunc", "nlritrunc", "captrunc"}, "ByteVals": set(),
                                                 "OptSets": allopts if big else {0, 5, 7, 15}}, invariants=LAWS),
                workers=1, label="structural truncations", timeout=3000)
    behs += r.behaviours
    # every single byte replaced (length fields, counts, prefix lengths, flags, types are all among them)
    vals = {0, 1, 2, 3, 127, 128, 254, 255} if big else {0, 1, 128, 255}
    opts = allopts if big else {4, 5, 7}
    r = ctx.tlc("WireRx", vf.cfg_text(constants={"Msgs": ALLM - {"updLong"}, "Muts": {"byte"}, "ByteVals": vals, "OptSets": opts}, invariants=LAWS),
                workers=1, label="single bytes", timeout=3000)
    b2 = r.behaviours
    behs += b2 if big else vf.subsample(ctx.rng, b2, 25000)
    if big:
        r = ctx.tlc("WireRx", vf.cfg_text(constants={"Msgs": {"updLong"}, "Muts": {"byte"}, "ByteVals": {0, 255}, "OptSets": {4, 5}}, invariants=LAWS),
                    workers=1, label="single bytes (long attribute)", timeout=3000)
        behs += r.behaviours
    ctx.exhaustive = big
    ctx.rule = ("grammar of 19 valid messages (KEEPALIVE, NOTIFICATION, OPEN with 8 capabilities / none, UPDATEs: IPv4 announce+withdraw, "
                "2-octet AS, add-path, all attribute kinds, >255-byte attribute, MP_REACH IPv6 with/without add-path and with a 32-byte next hop, MP_UNREACH, "
                "MP_REACH / MP_UNREACH IPv4, labeled unicast (SAFI 4) for both families, end-of-RIB) x mutations (none; truncation at EVERY byte offset; structural truncation: every attribute value / NLRI section / withdrawn "
                "section / capability value cut at EVERY length with all enclosing length fields right, message tail cut with the "
                "header length right; header length grown by 1..4000 with zero "
                "fill; every single byte replaced by boundary values, which covers every length field, count, prefix length, flag and "
                "type) x decode option combinations (quick: 4 / 3 of 16 and a seeded sample of the byte mutations; thorough: all 16, all "
                "byte mutations); each case is decoded by packet.Decode: no panic, a message or an error, < 200 ms, < 4 MiB allocated; "
                "unmutated messages must be accepted. Structured space only (not all byte strings). non-trivial = a mutated message")
    ctx.replay("wirerx", behs, per_timeout=20, nontrivial=lambda b: b["mut"] != "none")
