"""C09 export eligibility and attribute rewriting follow the BGP RFCs (spec RibOut; wire level added with the Wire spec)."""
import importlib.util, os
import vf
_s = importlib.util.spec_from_file_location("ro", os.path.join(os.path.dirname(__file__), "ribout_common.py"))
ro = importlib.util.module_from_spec(_s); _s.loader.exec_module(ro)

ALLN = {"e1", "e2", "e3", "i1", "i2", "ne", "na", "nn", "nr", "ot", "bk", "st"}


def run(ctx):
    big = ctx.thorough()
    base = {"Names": ALLN, "Sessions": ro.ALLSESS, "Pols": {"accept"}, "MaxDepth": 3, "MaxPaths": 3}
    # design: every (path, target session) combination is a reachable state already at depth 2; the C09 invariants are checked
    # on every reachable Adj-RIB-Out of the bounded graph
    designs = [("design all sessions x all paths", dict(base, MaxDepth=4), ro.PFX1)]
    runs = [("gen every (path, session) pair and every pair of paths", base, ro.PFX1)]
    sims = [("sim", dict(base, Pols={"accept", "setmed", "prep"}, MaxPaths=4), ro.PFX2, 2000 if big else 300, 10)]
    ctx.rule = ("every (Loc-RIB path, target session) combination: 12 paths (eBGP/iBGP-learned, reflected, NO_EXPORT, NO_ADVERTISE, both in either order, "
                "OTC, learned from the target peer, static) x 11 target sessions (eBGP, RS-client, iBGP, RR-client, add-path, 5 remote "
                "roles), alone and in every ordered pair, plus random histories; TLC checks the RFC constraints as invariants on every "
                "reachable Adj-RIB-Out (never NO_ADVERTISE, never NO_EXPORT to eBGP, never back to the source peer, no iBGP->non-client, "
                "OTC egress rules, prepend + next-hop-self, ORIGINATOR_ID/CLUSTER_LIST for reflected routes) and the real Adj-RIB-Out "
                "must hold the same wire-visible attributes; non-trivial = the path is suppressed or rewritten")

    def nt(b):
        return len(b) >= 2
    # wire level: which attributes actually leave in the UPDATE (LOCAL_PREF only to iBGP, OTC, ORIGINATOR_ID/CLUSTER_LIST)
    wt_spec = importlib.util.spec_from_file_location("wt", os.path.join(os.path.dirname(__file__), "wiretx_common.py"))
    wt = importlib.util.module_from_spec(wt_spec); wt_spec.loader.exec_module(wt)
    wb = wt.cases(ctx, "wire attribute sets", Sessions=wt.ALLSESS, ASCounts={0, 2}, CommCounts={0, 2}, LCommCounts={0}, ClusterCounts={0, 2},
                  UnknownSizes={0}, PfxCounts={1}, PfxLens={24}, Flavours={"plain", "otc", "med"})
    ctx.replay("wiretx", wb, per_timeout=30, nontrivial=lambda b: True)
    ro.ribout_runs(ctx, designs, runs, sims, ("v4o8", "v6o60") if not big else ("v4o0", "v4o28", "v6o30", "v6o124"), nt,
                   60000 if big else 6000)
