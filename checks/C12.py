"""C12 replacing a policy converges to the new policy's result (specs RibIn; RibOut added below when built)."""
import importlib.util, os
import vf
_s = importlib.util.spec_from_file_location("rc", os.path.join(os.path.dirname(__file__), "ribin_common.py"))
rc = importlib.util.module_from_spec(_s); _s.loader.exec_module(rc)

ALLP = {"accept", "rejall", "rej01", "setlp", "setlp3", "setmed", "setnh", "prep", "prep2", "lp01"}


def run(ctx):
    big = ctx.thorough()
    ctx.design("RibIn", vf.cfg_text(constants={"Bundles": {"ok1", "ok2"}, "Pols": {"accept", "rej01", "setlp", "setlp3", "prep", "prep2"},
                                              "Cfgs": {"ebgp"}, "MaxDepth": 99}, invariants=rc.INV, view="View"),
               defs={"Pfxs": rc.PFX2}, label="design import", timeout=3000)
    # every (old, new) pair of the 10 policies, repeated replacements, with route changes in between
    runs = [("gen import pairs", {"Bundles": {"ok1", "loop"}, "Pols": ALLP, "Cfgs": {"ebgp"}, "MaxDepth": 4 if not big else 5}),
            ("gen import add-path", {"Bundles": {"ok1", "ok2"}, "Pols": {"accept", "rej01", "setlp", "prep", "prep2"}, "Cfgs": {"ibgpAP"},
                                     "MaxDepth": 4})]
    sims = [("sim import", {"Bundles": {"ok1", "ok2", "ok3", "loop"}, "Pols": ALLP, "Cfgs": {"ebgp", "ibgp", "ebgpAP"}},
             3000 if big else 400, 14)]
    ctx.rule = ("import side: one witness per transition of the RibIn graph over all 10 policies (accept, reject-all, reject-some, "
                "LOCAL_PREF 200/300, MED, next hop, prepend A/B of equal length, LOCAL_PREF for one prefix) so that every ordered pair "
                "(old, new) is replaced with routes present, plus repeated replacements in seeded random behaviours; the invariant is "
                "stated against the CURRENT policy so equality with a fresh start is what is compared after every step; "
                "non-trivial = at least one ReplacePolicy step with a route stored. Server level: BGPFSM behaviours with SetImport / "
                "SetExport (accept <-> reject through BGPServer.ReplaceImportFilterChain / ReplaceExportFilterChain) in every session "
                "state, a route learned from the peer and a route of another source; Loc-RIB and Adj-RIB-Out of the real session must "
                "equal the model's after every step")

    def nt(b):
        return any(s["a"] == "ReplacePolicy" and s["st"]["adjin"] for s in b[1:])
    # export side: RibOut over all export policies (same invariant: Adj-RIB-Out = ExportView under the CURRENT policy)
    ro_spec = importlib.util.spec_from_file_location("ro", os.path.join(os.path.dirname(__file__), "ribout_common.py"))
    ro = importlib.util.module_from_spec(ro_spec); ro_spec.loader.exec_module(ro)
    epols = {"accept", "rejall", "rej01", "setmed", "prep", "prep2", "setnh"}
    eb = {"Names": {"e1", "i1", "st"}, "Sessions": {"ebgp", "ibgpRR", "ebgpAP"}, "Pols": epols, "MaxDepth": 4 if not big else 5, "MaxPaths": 3}
    ro.ribout_runs(ctx, [("design export", dict(eb, MaxDepth=99, Pols={"accept", "rej01", "prep", "prep2"}), ro.PFX1)],
                   [("gen export pairs", eb, ro.PFX2)],
                   [("sim export", dict(eb, Names={"e1", "e2", "e3", "i1", "st"}, Sessions=ro.ALLSESS - {"ibgp"}), ro.PFX2, 2000 if big else 300, 12)],
                   ("v4o8", "v6o60") if not big else ("v4o0", "v4o28", "v6o30", "v6o124"),
                   lambda b: any(s["a"] == "ReplaceExport" and any(e["paths"] for e in s["st"]["rib"]) for s in b[1:]),
                   40000 if big else 4000)
    # server level: replacement through BGPServer.ReplaceImportFilterChain / ReplaceExportFilterChain in every session state
    # (before the first connection, between sessions, while established), with routes from the peer and from another source
    sc_spec = importlib.util.spec_from_file_location("sc", os.path.join(os.path.dirname(__file__), "session_common.py"))
    sc = importlib.util.module_from_spec(sc_spec); sc_spec.loader.exec_module(sc)
    sb = []
    for cfg in ("ebgp", "ibgp"):
        c = sc.consts(cfg, {"ok"}, {"annA"}, set(), {"Notification"}, 8 if big else 7, sessions=2, pols={"accept", "reject"}, origs={"o1"})
        sb += sc.run_family(ctx, "server-level policy replacement " + cfg, c, 6000 if big else 700, design=(cfg == "ebgp"), sim=(400 if big else 60, 14))
    ctx.replay("session", sb, per_timeout=90, shards=16,
               nontrivial=lambda b: any(s["a"] in ("SetImport", "SetExport") for s in b) and any(s["s"]["st"] == "Established" for s in b))
    rc.ribin_runs(ctx, runs, sims, ("v4o8", "v6o60") if not big else ("v4o0", "v4o28", "v6o30", "v6o124"), nt,
                  40000 if big else 4000)
