"""C04 Loc-RIB clients hold exactly the window of the selection they asked for (spec LocRIB)."""
import vf

INV = ["SelectionIsFunctionOfSet", "ClientsHoldWindow", "WindowHasBest"]
PROPS = ["UnregisteredUntouched"]


def run(ctx):
    big = ctx.thorough()
    names = {"h1", "t1", "t5", "t6", "h3"}          # h1 best; t5,t1,t6 equal-cost among themselves; h3 worse MED
    consts = {"Pfxs": {"0", "01"}, "Names": names, "Clients": {"best", "ecmp", "max2"}, "MaxDepth": 99, "MaxPaths": 3,
              "Acts": {"add", "remove", "replace", "client"}}
    # design: the whole bounded state space (1 prefix keeps it finite and small enough), invariants + action property
    dc = dict(consts, Pfxs={"0"}, Clients={"best", "ecmp", "max2"} if not big else {"best", "ecmp", "max1", "max2", "max4"},
              MaxPaths=3 if not big else 4)
    ctx.design("LocRIB", vf.cfg_text(constants=dc, invariants=INV, properties=PROPS, view="View"), label="design",
               timeout=3000, coverage=big)
    # M1: one witness per transition, depth-bounded, two prefixes
    gc = dict(consts, MaxDepth=4 if not big else 5, Clients={"best", "ecmp", "max2"})
    r = ctx.tlc("LocRIB", vf.cfg_text(constants=gc, invariants=INV, view="View", action_constraints=["Emit"]), workers=1,
                label="gen transitions", timeout=3000)
    if not r.ok:
        raise vf.Infra("LocRIB violates its own invariants: %s" % r.violation)
    behs = r.behaviours
    budget = 60000 if big else 6000
    behs = vf.subsample(ctx.rng, behs, budget)
    sc = dict(consts, MaxDepth=14, MaxPaths=4, Clients={"best", "ecmp", "max1", "max2", "max4"},
              Names={"h1", "h2", "h3", "h4", "t1", "t2", "t5", "t6", "s1"})
    rs = ctx.simulate("LocRIB", vf.cfg_text(next="NextSim", constants=sc), num=4000 if big else 500, depth=14)
    ctx.exhaustive = False
    ctx.rule = ("one witness behaviour per transition of the VIEW-reduced LocRIB graph (2 prefixes, 5 paths, clients best/ecmp/"
                "max2, depth<=%d; sub-sampled to %d by VERIF_SEED if larger) plus seeded random behaviours of length 14 with 5 "
                "client kinds and 9 paths; after every step every client's accumulated paths (initial dump + adds - removes), "
                "the selection order, ECMP count and counts are compared; non-trivial = some client is registered and some "
                "prefix has >= 2 paths at the end" % (gc["MaxDepth"], budget))

    def nt(b):
        last = b[-1]
        return any(last["reg"].values()) and max(len(v) for v in last["rib"].values()) >= 2
    embs = ("v4o8", "v6o60") if not big else ("v4o0", "v4o27", "v6o28", "v6o123")
    for emb in embs:
        ctx.replay("locrib", behs + rs.behaviours, params={"emb": emb}, nontrivial=nt)
