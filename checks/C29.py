"""C29 merged RIB: route present iff some source advertises it (spec MergedRIB)."""
import json
import vf


def run(ctx):
    big = ctx.thorough()
    consts = {"Sources": {"s1", "s2", "s3"}, "Routes": {"r1", "r2", "r3"}, "MaxDepth": 99}
    # design: exhaustive over the whole (finite) state space
    ctx.design("MergedRIB", vf.cfg_text(constants=consts, invariants=["PresentIffAdvertised", "TypeOK"], view="View"),
               label="design", coverage=big)
    # M1: one witness behaviour per transition of the bounded graph
    gc = dict(consts)
    gc["MaxDepth"] = 5 if big else 4
    if not big:
        gc["Sources"] = {"s1", "s2"}
    r = ctx.tlc("MergedRIB", vf.cfg_text(constants=gc, invariants=["PresentIffAdvertised"], view="View",
                                         action_constraints=["Emit"]), workers=1, label="gen")
    behs = r.behaviours
    ctx.exhaustive = True
    ctx.rule = ("one witness behaviour per transition of the VIEW-reduced MergedRIB graph (depth<=%d); "
                "non-trivial = the last step changes srcs or rib" % gc["MaxDepth"])

    def nontrivial(b):
        if len(b) == 1:
            return b[-1]["st"]["rib"] != []
        return b[-1]["st"] != b[-2]["st"]
    # plus random long behaviours (implementation states that differ under equal abstract states)
    sc = dict(consts)
    sc["MaxDepth"] = 14
    rs = ctx.simulate("MergedRIB", vf.cfg_text(next="NextSim", constants=sc), num=2000 if big else 300, depth=14)
    behs = behs + rs.behaviours
    for v6 in (False, True):
        ctx.replay("mergedrib", behs, params={"v6": v6}, nontrivial=nontrivial)
    # M2: random long histories of the real code validated against MergedRIBTrace
    n_tr, ln = (400, 80) if big else (60, 50)
    path, info = ctx.drive("mergedrib", {"traces": n_tr, "len": ln})
    tcfg = vf.cfg_text(spec="TSpec", constants={"Sources": {"s1", "s2", "s3"}, "Routes": {"r1", "r2", "r3"}, "MaxDepth": 0},
                       invariants=["PresentIffAdvertised"], view="TView", postcondition="Accepted")
    ok, matched, res = ctx.validate_trace("MergedRIBTrace", tcfg, path, info["events"])
    ctx.extra["m2_events"] = info["events"]
    ctx.extra["m2_traces"] = info["traces"]
    if ok:
        ctx.traces += info["traces"]
    else:
        # find offending line and turn the trace containing it into an M1 behaviour for confirmation
        lines = [json.loads(l) for l in open(path)]
        bad = matched - 1            # 0-based index of the first unmatched line
        start = max(i for i in range(bad + 1) if lines[i]["a"] == "Reset")
        beh = []
        # expected states are recomputed by set semantics here only to drive M1 confirmation
        srcs = {}
        for ev in lines[start + 1: bad + 1]:
            a, s, rr = ev["a"], ev["src"], ev["r"]
            if a == "Add":
                srcs.setdefault(rr, set()).add(s)
            elif a == "Remove":
                srcs.setdefault(rr, set()).discard(s)
            else:
                for k in srcs:
                    srcs[k].discard(s)
            beh.append({"a": a, "src": s, "r": rr, "st": {"rib": sorted(k for k, v in srcs.items() if v)}})
        dv = ctx.replay("mergedrib", [beh], params={"v6": False}, shards=1, count_traces=False)
        dv += ctx.replay("mergedrib", [beh], params={"v6": True}, shards=1, count_traces=False)
        if not dv and not ctx.known_hits:
            raise vf.Infra("trace rejected at line %d but the divergence did not reproduce in replay" % matched)
