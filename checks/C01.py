"""C01 routing table lookups vs. the prefix-map model (spec PrefixMap)."""
import vf

LAWS = ["GetIffDumped", "LPMIsChain", "LongerOfRootIsDump", "LPMAndLongerMeetAtQuery", "Duality", "CountIsDump"]
# nested / sibling / default / deepest-level prefixes of the W=4 universe
PFX5 = "{<<>>, <<0>>, <<0,1>>, <<0,1,1,0>>, <<0,1,1,1>>, <<1,0>>}"
PFX4 = "{<<>>, <<0,1>>, <<0,1,1>>, <<0,1,0,1>>, <<1>>}"


def run(ctx):
    big = ctx.thorough()
    allacts = {"add", "remove", "replace", "removepfx"}
    base = {"W": 4, "Ids": {"x", "y"}, "MaxDepth": 99, "Acts": allacts, "QueryAll": False}
    # design: the whole state space over 5 prefixes x 2 ids, laws between the lookups
    ctx.design("PrefixMap", vf.cfg_text(constants=base, invariants=LAWS, view="View"), defs={"Pfxs": PFX4},
               label="design", timeout=3000)
    behs = []
    # (1) every insertion order of distinct prefixes (trie shape depends on it): no VIEW, adds only, one id
    c1 = dict(base, Ids={"x"}, MaxDepth=4 if not big else 5, Acts={"add"})
    r = ctx.tlc("PrefixMap", vf.cfg_text(constants=c1, action_constraints=["Emit"]), defs={"Pfxs": PFX5}, workers=1,
                label="all insertion orders", timeout=3000)
    behs += r.behaviours
    # (2) one witness per transition of the full-action graph
    c2 = dict(base, MaxDepth=3 if not big else 4)
    r = ctx.tlc("PrefixMap", vf.cfg_text(constants=c2, view="View", invariants=LAWS, action_constraints=["Emit"]),
                defs={"Pfxs": PFX4}, workers=1, label="transitions", timeout=3000)
    if not r.ok:
        raise vf.Infra("PrefixMap violates its laws: %s" % r.violation)
    t2 = r.behaviours
    behs += vf.subsample(ctx.rng, t2, 40000 if big else 2500)
    # (3) random long histories, lookups compared after every step
    c3 = dict(base, MaxDepth=12, QueryAll=True)
    r = ctx.simulate("PrefixMap", vf.cfg_text(next="NextSim", constants=c3), num=1500 if big else 150, depth=12,
                     defs={"Pfxs": PFX5}, timeout=3000)
    behs += r.behaviours
    ctx.rule = ("(1) every insertion sequence of <=%d distinct prefixes out of 6 (nested, sibling, default, deepest level); (2) one "
                "witness per transition of the add/remove/replace/removepfx graph over 5 prefixes x 2 paths (depth<=%d, "
                "sub-sampled by VERIF_SEED); (3) seeded random histories of length 12. After the last step (every step for (3)) "
                "Get, LPM, GetLonger for EVERY prefix of the 4-bit universe (stored or not), Dump and the route count are "
                "compared, under each embedding of the universe into IPv4/IPv6 (offsets around bits 0, 8, 28/32, 60/64, 124/128). "
                "non-trivial = at least 2 prefixes stored at the end" % (c1["MaxDepth"], c2["MaxDepth"]))
    nt = lambda b: len(b[-1]["st"]) >= 2
    embs = ["v4o0", "v4o28", "v6o30", "v6o62", "v6o124"] if not big else \
           ["v4o0", "v4o8", "v4o27", "v4o28", "v6o0", "v6o28", "v6o30", "v6o60", "v6o62", "v6o123", "v6o124"]
    for emb in embs:
        ctx.replay("prefixmap", behs, params={"emb": emb, "via": "table"}, nontrivial=nt)
    # the Loc-RIB wrapper (add/remove only)
    lb = [b for b in behs if all(s["a"] in ("AddPath", "RemovePath") for s in b)]
    for emb in (embs[1], embs[-2]):
        ctx.replay("prefixmap", lb, params={"emb": emb, "via": "locrib"}, nontrivial=nt)
