"""C34 API route conversion preserves what the API carries (spec ApiConv)."""
import vf

INV = ["ApiFieldsIdempotentOnLists", "StaticCarriesOnlyNextHop", "EmitCase"]


def run(ctx):
    big = ctx.thorough()
    behs = []
    r = ctx.tlc("ApiConv", vf.cfg_text(constants={"Mode": "near", "Sample": 0}, invariants=INV), workers=1, label="near base", timeout=1800)
    behs += r.behaviours
    r = ctx.tlc("ApiConv", vf.cfg_text(constants={"Mode": "random", "Sample": 20000 if big else 2000}, invariants=INV), workers=1,
                label="random", timeout=1800)
    behs += r.behaviours
    ctx.rule = ("path records over 18 fields of classes (nil/empty/non-empty lists incl. AS_SET segments, zero/non-zero scalars, 8 hidden "
                "reasons, BGP/static): every record that differs from the base in at most 2 fields exhaustively + seeded random records; "
                "Route.ToProto -> RouteFromProtoRoute (with and without dedup, IPv4 and IPv6) must reproduce ApiFields(p), and a hidden "
                "path must carry a hidden reason in the API; non-trivial = at least one list non-empty or path hidden")
    nt = lambda b: b["hidden"] or any(b["p"][k] not in ("nil", "empty") for k in ("asp", "comm", "lcomm", "cl", "unk"))
    for v6 in (False, True):
        for dd in (False, True):
            ctx.replay("apiconv", behs, params={"v6": v6, "dedup": dd}, nontrivial=nt)
