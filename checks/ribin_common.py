"""Shared by C05, C06, C12: runs of the RibIn spec and their replay."""
import vf

INV = ["MirrorsAdjRIBIn", "NoIneligible", "OnePerKey"]
PFX2 = "{<<0>>, <<0,1>>}"


def ribin_runs(ctx, runs, sims, embs, nontrivial, budget):
    """runs: list of (label, consts) for witness-per-transition emission; sims: list of (label, consts, num, depth)."""
    behs = []
    for label, consts in runs:
        r = ctx.tlc("RibIn", vf.cfg_text(constants=consts, invariants=INV, view="View", action_constraints=["Emit"]),
                    defs={"Pfxs": PFX2}, workers=1, label=label, timeout=3000)
        if not r.ok:
            raise vf.Infra("RibIn violates its own invariants: %s" % r.violation)
        behs += vf.subsample(ctx.rng, r.behaviours, budget)
    for label, consts, num, depth in sims:
        r = ctx.simulate("RibIn", vf.cfg_text(next="NextSim", constants=dict(consts, MaxDepth=depth)), num=num, depth=depth,
                         defs={"Pfxs": PFX2}, label=label, timeout=3000)
        behs += r.behaviours
    for emb in embs:
        ctx.replay("ribin", behs, params={"emb": emb}, nontrivial=nontrivial)
    return behs
