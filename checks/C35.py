"""C35 shortest-path tree (spec SPT)."""
import vf

INV = ["SourceZero", "FiniteIffReachable", "Triangle", "Realised", "Fixpoint"]


def run(ctx):
    big = ctx.thorough()
    behs = []
    # exhaustive: all digraphs (self loops included) on 2 nodes with weights 0..3, and on 3 nodes with weights 0..1
    # (quick) / 0..3 without... (thorough: 3 nodes, weights 0..2 = 4^9*3 cases)
    runs = [(2, 3, 0), (3, 1, 0)]
    if big:
        runs.append((3, 2, 0))
    for n, mw, s in runs:
        r = ctx.tlc("SPT", vf.cfg_text(constants={"N": n, "MaxW": mw, "Sample": s}, invariants=INV + ["EmitCase"]),
                    workers=1, label="enum N=%d W=%d" % (n, mw), timeout=1500)
        if not r.ok:
            raise vf.Infra("SPT spec violates its own laws: %s" % r.violation)
        behs += r.behaviours
    # sampled larger graphs
    for n, mw, s in ([(4, 3, 20000), (5, 3, 20000), (6, 3, 10000), (7, 2, 3000)] if big else [(4, 3, 1500), (5, 3, 1500), (6, 2, 500)]):
        r = ctx.tlc("SPT", vf.cfg_text(constants={"N": n, "MaxW": mw, "Sample": s}, invariants=INV + ["EmitCase"]),
                    workers=1, label="sample N=%d" % n, timeout=900)
        if not r.ok:
            raise vf.Infra("SPT spec violates its own laws: %s" % r.violation)
        behs += r.behaviours
    ctx.exhaustive = True
    ctx.rule = ("all digraphs incl. self loops: N=2 weights -1..3, N=3 weights -1..1 (thorough: also -1..2), every source; "
                "plus RandomSubset samples of N=4..6 graphs seeded by VERIF_SEED; non-trivial = at least one edge and "
                "at least 2 nodes reachable")
    ctx.replay("spt", behs, per_timeout=10,
               nontrivial=lambda b: sum(1 for d in b["dist"] if d >= 0) >= 2 and len(b["edges"]) >= 1)
