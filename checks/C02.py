"""C02 selection independent of arrival order (specs Decision + LocRIB)."""
import importlib.util
import os
import vf

_spec = importlib.util.spec_from_file_location("c03", os.path.join(os.path.dirname(__file__), "C03.py"))
c03 = importlib.util.module_from_spec(_spec)
_spec.loader.exec_module(c03)

LOCINV = ["SelectionIsFunctionOfSet", "ClientsHoldWindow", "WindowHasBest"]


def run(ctx):
    big = ctx.thorough()
    # (a) the preference relation is a total preorder on the spec, and the real Select agrees with it on every pair
    behs = c03.pairs(ctx, ["tail", "head", "static"])
    for v6 in (False, True):
        ctx.replay("decision", behs, params={"v6": v6}, nontrivial=lambda b: b["step"] != "none")
    # (b) Loc-RIB level: every insertion order (no VIEW: each history is its own state) of up to 4 paths out of the
    # domain of cycle makers, with removals and re-additions
    names = {"t1", "t2", "t3", "t4", "t5", "t6", "h3", "h4"} if not big else \
            {"t1", "t2", "t3", "t4", "t5", "t6", "h1", "h2", "h3", "h4", "h5", "s1"}
    consts = {"Pfxs": {"01"}, "Names": names, "Clients": {"best", "ecmp"}, "MaxDepth": 4, "MaxPaths": 4, "Acts": {"add"}}
    cfg = vf.cfg_text(constants=consts, invariants=LOCINV, action_constraints=["Emit"])
    r = ctx.tlc("LocRIB", cfg, workers=1, label="all insertion orders", timeout=1800)
    if not r.ok:
        raise vf.Infra("LocRIB violates its own invariants: %s" % r.violation)
    perms = r.behaviours
    # histories with removals and re-additions over a smaller domain
    consts2 = dict(consts, Names={"t1", "t2", "t3", "t5", "h4"}, MaxDepth=5, MaxPaths=3, Acts={"add", "remove"})
    r2 = ctx.tlc("LocRIB", vf.cfg_text(constants=consts2, invariants=LOCINV, view="View", action_constraints=["Emit"]),
                 workers=1, label="add/remove transitions", timeout=1800)
    if not r2.ok:
        raise vf.Infra("LocRIB violates its own invariants: %s" % r2.violation)
    consts3 = dict(consts, Names=names, MaxDepth=10, MaxPaths=5, Acts={"add", "remove", "replace"})
    r3 = ctx.simulate("LocRIB", vf.cfg_text(next="NextSim", constants=consts3), num=3000 if big else 400, depth=10)
    ctx.exhaustive = True
    ctx.rule = ("(a) every ordered pair of the Decision domains; (b) every insertion sequence of <=4 distinct paths from the "
                "cycle-maker domain (all permutations, each prefix of a sequence is its own behaviour), every transition of the "
                "add/remove graph over 5 paths, and seeded random add/remove/replace histories; after each step the real "
                "Loc-RIB's path order, ECMP count, best path and route count are compared with the spec; non-trivial = at "
                "least 2 paths present at the end")
    nt = lambda b: max(len(v) for v in b[-1]["rib"].values()) >= 2
    for emb in (("v4o8", "v6o60") if not big else ("v4o0", "v4o8", "v4o27", "v6o0", "v6o60", "v6o123")):
        ctx.replay("locrib", perms + r2.behaviours + r3.behaviours, params={"emb": emb}, nontrivial=nt)
