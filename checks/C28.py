"""C28 BMP receiver tables mirror the monitored sessions (spec BMP)."""
import vf

INV = ["MirrorsSessions", "NothingRemains", "ObserversInformed", "OnePerKey", "IgnoredViewsStayOut", "TypeOK"]
PFX2 = "{<<0>>, <<0,1>>}"
PFX1 = "{<<0,1>>}"


def run(ctx):
    big = ctx.thorough()
    # (label, constants, prefixes, depth bound of the emission): one family of sessions / views / receiver configurations at a time.
    # The first four graphs are small enough to be emitted completely (every transition of the whole reachable graph).
    fams = [
        ("two VRFs, one view", {"Peers": {"p1", "p3"}, "Bundles": {"b1", "b2"}, "Stages": {"pre"}, "Cfgs": {"both"}}, PFX2, 99),
        ("one VRF, two sessions, add-path", {"Peers": {"p1", "p2"}, "Bundles": {"b1", "b2"}, "Stages": {"post"}, "Cfgs": {"both"}}, PFX1, 99),
        ("both views", {"Peers": {"p1"}, "Bundles": {"b1", "b2"}, "Stages": {"pre", "post"}, "Cfgs": {"both", "preOnly", "postOnly"}}, PFX2, 99),
        ("IPv6 session, add-path, both views", {"Peers": {"p4"}, "Bundles": {"b1", "b3"}, "Stages": {"pre", "post"}, "Cfgs": {"both"}}, PFX1, 99),
        # three sessions up at the same time, then session ends and reconnects (clean-up loops over several sessions)
        ("three sessions, one bundle", {"Peers": {"p1", "p2", "p3"}, "Bundles": {"b1"}, "Stages": {"post"}, "Cfgs": {"both"}}, PFX1, 99),
    ]
    if big:
        fams.append(("three sessions, two VRFs", {"Peers": {"p1", "p2", "p3"}, "Bundles": {"b1", "b2"}, "Stages": {"post"},
                                                  "Cfgs": {"both", "postOnly"}}, PFX1, 99))
        fams.append(("three sessions, two VRFs, both views", {"Peers": {"p1", "p2", "p3"}, "Bundles": {"b1", "b2"}, "Stages": {"pre", "post"},
                                                              "Cfgs": {"both"}}, PFX1, 6))
    behs = []
    for label, consts, pfx, d in fams:
        # design: the whole (finite) state space of the family with the property as invariants. Where the emission below covers
        # the complete graph (d = 99) it is the same exhaustive TLC run, so it is not repeated.
        if d != 99:
            ctx.design("BMP", vf.cfg_text(constants=dict(consts, MaxDepth=99), invariants=INV, view="View"), defs={"Pfxs": pfx},
                       label="design " + label, timeout=1500)
        # M1: one witness behaviour per transition of the graph
        r = ctx.tlc("BMP", vf.cfg_text(constants=dict(consts, MaxDepth=d), invariants=INV, view="View", action_constraints=["Emit"]),
                    defs={"Pfxs": pfx}, workers=1, label=("design+gen " if d == 99 else "gen ") + label, timeout=1500)
        if not r.ok:
            raise vf.Infra("BMP violates its own invariants: %s" % r.violation)
        behs += vf.subsample(ctx.rng, r.behaviours, 60000 if big else 6000)
    # seeded random conversations: all four sessions, two VRFs, both views, reconnects
    sims = [("sim one view per run", {"Peers": {"p1", "p2", "p3", "p4"}, "Bundles": {"b1", "b2", "b3"}, "Stages": {"post"},
                                       "Cfgs": {"both", "preOnly", "postOnly"}}, 6000 if big else 500, 16),
            ("sim both views", {"Peers": {"p1", "p2", "p3"}, "Bundles": {"b1", "b2"}, "Stages": {"pre", "post"},
                                "Cfgs": {"both", "preOnly", "postOnly"}}, 3000 if big else 250, 14)]
    for label, consts, num, depth in sims:
        r = ctx.simulate("BMP", vf.cfg_text(next="NextSim", constants=dict(consts, MaxDepth=depth)), num=num, depth=depth,
                         defs={"Pfxs": PFX2}, label=label, timeout=1500)
        behs += r.behaviours
    ctx.rule = ("one witness per transition of the complete reachable BMP graph for four families of monitored sessions (two VRFs incl. the same "
                "peer address in both; eBGP/iBGP; add-path; an IPv6 session; pre-/post-policy views; receiver ignoring one view), "
                "sub-sampled by VERIF_SEED, plus seeded random conversations of 14-16 messages over 4 sessions x 2 VRFs with "
                "peer-down, termination, connection loss and reconnects; every message is serialised with the repository's own "
                "BMP/BGP serialisers and served to a real Router over net.Pipe; after every message the Router.GetVRF(rd) Loc-RIB "
                "dumps (IPv4+IPv6; session, prefix, path id, view flag, next hop, AS path, MED, communities, LOCAL_PREF of iBGP "
                "sessions) and recording observers registered on those tables are compared. Where both views of one session hold "
                "the same (prefix, path id) the table may keep either or both; non-trivial = some table holds a route at some step "
                "and the conversation has at least 4 messages")

    def nt(b):
        return len(b) >= 4 and any(any(s["st"]["tbl"][v] for v in s["st"]["tbl"]) for s in b)
    for emb in (("v4o8", "v6o60") if not big else ("v4o0", "v4o27", "v6o28", "v6o123")):
        ctx.replay("bmp", behs, params={"emb": emb}, nontrivial=nt, per_timeout=60)
