"""C31 IS-IS point-to-point adjacencies follow the three-way handshake and the hold timer (spec ISISAdj)."""
import os
import re
import vf

INV = ["TypeOK", "UpOnlyIfListed", "HoldRespected", "SilentDisappears"]
PROPS = ["UnlistedGoesDown", "UpEnteredByHello", "LSPAfterRegeneration"]


def down_retention():
    """The code's design constant the spec is parametrised with (neighborDownTimeoutS)."""
    src = open(os.path.join(vf.REPO, "protocols/isis/server/neighbor.go")).read()
    m = re.search(r"neighborDownTimeoutS\s*=\s*(\d+)", src)
    if not m:
        raise vf.Infra("cannot read neighborDownTimeoutS from protocols/isis/server/neighbor.go")
    return int(m.group(1))


def run(ctx):
    big = ctx.thorough()
    dr = down_retention()
    base = {"BigJump": 50, "MaxBig": 0, "MaxHellos": 0, "Record": False, "MaxDepth": 99}
    # design: the whole (finite) state space with small constants, unit ticks, all four TLV contents, two neighbours
    ctx.design("ISISAdj", vf.cfg_text(constants=dict(base, Nbrs={"n1", "n2"}, Holds={1, 2} if not big else {0, 1, 3},
                                                      Lists={"us", "wrongsys", "wrongckt", "none"}, DownRetention=3, Jumps={1}),
                                      invariants=INV, properties=PROPS), label="design", timeout=1500, coverage=big)
    # the same with the jump action used for emission
    # (FastIsRun: the closed form Tick(k) evaluates equals k runs of the adjacency checkers, second by second)
    ctx.design("ISISAdj", vf.cfg_text(constants=dict(base, Nbrs={"n1", "n2"}, Holds={0, 1, 2}, Lists={"us", "none"}, DownRetention=3,
                                                      Jumps={1, 2, 4, 7} if not big else {1, 2, 3, 4, 5, 7, 9}),
                                      invariants=INV + ["FastIsRun"], properties=PROPS), label="design jumps", timeout=1500)
    if big:
        # liveness under fairness of the clock: with a finite number of hellos every neighbour disappears for good
        ctx.design("ISISAdj", vf.cfg_text(spec="SpecLive", constants=dict(base, Nbrs={"n1", "n2"}, Holds={1, 2},
                                                                          Lists={"us", "none"}, DownRetention=3, Jumps={1},
                                                                          MaxHellos=4),
                                          properties=["EventuallyGone"]), label="liveness", timeout=1500)
    else:
        ctx.design("ISISAdj", vf.cfg_text(spec="SpecLive", constants=dict(base, Nbrs={"n1"}, Holds={1, 2}, Lists={"us", "none"},
                                                                          DownRetention=3, Jumps={1}, MaxHellos=3),
                                          properties=["EventuallyGone"]), label="liveness", timeout=600)

    # emission with the code's constant: holding times 1 and 3 s, jumps of 1, 2 and DownRetention+1 seconds
    gen = dict(base, Record=True, DownRetention=dr, BigJump=50, MaxBig=1)
    runs = [("gen one neighbour", dict(gen, Nbrs={"n1"}, Holds={1, 3}, Lists={"us", "wrongsys", "wrongckt", "none"},
                                       Jumps={1, 2, dr + 1}, MaxDepth=6 if not big else 7, MaxBig=2), "1if"),
            ("gen two neighbours", dict(gen, Nbrs={"n1", "n2"}, Holds={1, 3}, Lists={"us", "wrongckt", "none"},
                                        Jumps={1, 2, dr + 1}, MaxDepth=5 if not big else 6), "2if")]
    budget = 30000 if big else 1000
    sets = []
    for label, consts, topo in runs:
        r = ctx.tlc("ISISAdj", vf.cfg_text(constants=consts, invariants=INV, view="View", action_constraints=["Emit"]),
                    workers=1, label=label, timeout=3000)
        if not r.ok:
            raise vf.Infra("ISISAdj violates its own invariants: %s" % r.violation)
        sets.append((topo, vf.subsample(ctx.rng, r.behaviours, budget)))
    # random long behaviours: more holding times, both neighbours, up to two long silences
    simc = dict(gen, Nbrs={"n1", "n2"}, Holds={0, 1, 3, 30}, Lists={"us", "wrongsys", "wrongckt", "none"},
                Jumps={1, 2, 3, 29, dr - 1, dr + 1}, MaxBig=2)
    rs = ctx.simulate("ISISAdj", vf.cfg_text(next="NextSim", constants=dict(simc, MaxDepth=14)), num=2500 if big else 200, depth=14,
                      label="sim", timeout=3000)
    sets.append(("2if", rs.behaviours))
    sets.append(("1if", rs.behaviours[: len(rs.behaviours) // 3]))   # both neighbours on one circuit
    by_topo = {}
    for topo, behs in sets:
        by_topo.setdefault(topo, []).extend(behs)

    ctx.rule = ("one witness behaviour per transition of the ISISAdj graph (one neighbour: depth %d, all four three-way TLV contents; "
                "two neighbours on two circuits: depth %d; holding times 1 and 3 s; clock advances of 1, 2 and %d s), sub-sampled by "
                "VERIF_SEED, plus seeded random behaviours of 14 steps (holding times 0/1/3/30 s, advances up to %d s, two neighbours on "
                "two circuits and on one). Replayed against a real isis/server.Server: hellos injected on the ethernet seam, the mock "
                "clock advanced second by second; after every step (and at every second at which the spec changes an adjacency state) "
                "GetAdjacencies (state, remaining holding time, seconds Down) is compared, after RegenerateLSP the IS reachability of "
                "the local LSP in GetLSDB. Non-trivial = some adjacency reaches Up or Down in the behaviour"
                % (runs[0][1]["MaxDepth"], runs[1][1]["MaxDepth"], dr + 1, dr + 1))
    ctx.assumptions.append("DownRetention is read from neighborDownTimeoutS in neighbor.go (%d) and cross-checked by the adapter" % dr)
    ctx.assumptions.append("the first hello of an unknown neighbour only creates it (Init) even if it lists this system: bound to "
                           "addNeighborIfNotExists; the property only forbids Up without a listing hello")

    def nt(b):
        return any(v["s"] in ("Up", "Down") for s in b for v in s["st"]["adj"].values())
    # the replay mostly waits (the mock clock sleeps 1 ms of real time per fired ticker): many shards, little CPU
    for topo, behs in sorted(by_topo.items()):
        ctx.replay("isisadj", behs, params={"topo": topo}, nontrivial=nt, per_timeout=120, shards=vf.NCPU)
