"""C05 Loc-RIB mirrors the accepted paths of each Adj-RIB-In (spec RibIn)."""
import importlib.util, os
import vf
_s = importlib.util.spec_from_file_location("rc", os.path.join(os.path.dirname(__file__), "ribin_common.py"))
rc = importlib.util.module_from_spec(_s); _s.loader.exec_module(rc)


def run(ctx):
    big = ctx.thorough()
    base = {"Bundles": {"ok1", "ok2", "loop"}, "Pols": {"accept", "rej01", "setlp", "prep"}, "MaxDepth": 5 if not big else 6}
    # design: whole state space for one configuration family at a time (fixed policy: ReplacePolicy belongs to C12)
    for cfgs in ({"ebgp", "ibgp"}, {"ebgpAP"}):
        ctx.design("RibIn", vf.cfg_text(constants=dict(base, Cfgs=cfgs, MaxDepth=99), invariants=rc.INV, view="View"),
                   defs={"Pfxs": rc.PFX2}, label="design %s" % "/".join(sorted(cfgs)), timeout=3000)
    runs = [("gen ebgp/ibgp", dict(base, Cfgs={"ebgp", "ibgp"})),
            ("gen add-path", dict(base, Cfgs={"ebgpAP", "ibgpAP"}, Bundles={"ok1", "ok2"}, Pols={"accept", "setlp", "rej01"}, MaxDepth=base["MaxDepth"] - 1))]
    simc = dict(base, Cfgs={"ebgp", "ibgp", "ebgpAP", "ibgpAP"}, Bundles={"ok1", "ok2", "ok3", "loop"},
                Pols={"accept", "rej01", "setlp", "setmed", "setnh", "prep", "lp01"})
    sims = [("sim", simc, 2500 if big else 300, 14)]
    ctx.rule = ("one witness per transition of the RibIn graph (2 prefixes; bundles ok1/ok2/loop; policies accept, reject-some, "
                "set-LOCAL_PREF, prepend; eBGP and iBGP, with and without add-path receive; actions Announce, Withdraw, Flush, "
                "Register/Unregister of the Loc-RIB and of a second consumer, ReplacePolicy), sub-sampled by VERIF_SEED, plus seeded "
                "random behaviours of length 14 with more bundles and policies; after every step the Adj-RIB-In keys, the real "
                "Loc-RIB dump (full attribute projection) and the second consumer are compared; non-trivial = the Loc-RIB holds a "
                "rewritten or >=2 paths at some step")

    def nt(b):
        return any(len(s["st"]["got"]["loc"]) >= 1 for s in b[1:]) and len(b) >= 3
    rc.ribin_runs(ctx, runs, sims, ("v4o8", "v6o60") if not big else ("v4o0", "v4o28", "v6o30", "v6o124"), nt,
                  40000 if big else 4000)
