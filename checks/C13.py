"""C13 tables are isolated: exporting never alters stored routes (spec RibOut, pipeline wiring of the adapter)."""
import importlib.util, os
import vf
_s = importlib.util.spec_from_file_location("ro", os.path.join(os.path.dirname(__file__), "ribout_common.py"))
ro = importlib.util.module_from_spec(_s); _s.loader.exec_module(ro)


def run(ctx):
    big = ctx.thorough()
    base = {"Names": {"e1", "e2", "i1", "st"}, "Sessions": {"ebgp", "ibgpRR", "ebgpAP", "ibgpAP", "toCustomer"}, "Pols": {"accept", "prep", "setnh"},
            "MaxDepth": 5 if not big else 6, "MaxPaths": 3}
    for label, consts, pfx in [("design", dict(base, MaxDepth=99), ro.PFX1)]:
        ctx.design("RibOut", vf.cfg_text(constants=consts, invariants=ro.INV, view="View"), defs={"Pfxs": pfx}, label=label, timeout=3000)
    r = ctx.tlc("RibOut", vf.cfg_text(constants=base, invariants=ro.INV, view="View", action_constraints=["Emit"]),
                defs={"Pfxs": ro.PFX1}, workers=1, label="gen", timeout=3000)
    behs = vf.subsample(ctx.rng, r.behaviours, 40000 if big else 4000)
    rs = ctx.simulate("RibOut", vf.cfg_text(next="NextSim", constants=dict(base, Names={"e1", "e2", "e3", "i1", "i2", "st", "ot"},
                                                                          Sessions=ro.ALLSESS, MaxDepth=14, MaxPaths=4)),
                      num=3000 if big else 400, depth=14, defs={"Pfxs": ro.PFX2})
    behs += rs.behaviours
    ctx.rule = ("RibOut behaviours (witness per transition + random) replayed on the full pipeline: one Adj-RIB-In per source peer feeding "
                "the Loc-RIB, the session under test and a second session's Adj-RIB-Out on the same Loc-RIB. After EVERY step the "
                "Loc-RIB's paths are compared attribute for attribute with the paths that were announced; around every export-side "
                "operation (export policy replacement, session down/up) deep snapshots of every Adj-RIB-In and of the other session's "
                "Adj-RIB-Out are compared; non-trivial = an export-side operation with routes present")

    def nt(b):
        return any(s["a"] in ("ReplaceExport", "Down", "Up") and any(e["paths"] for e in s["st"]["rib"]) for s in b[1:])
    for emb in (("v4o8", "v6o60") if not big else ("v4o0", "v4o28", "v6o30", "v6o124")):
        ctx.replay("ribout", behs, params={"emb": emb, "viaIn": True}, nontrivial=nt, per_timeout=8)
