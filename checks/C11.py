"""C11 add-path identifiers unique per prefix, withdrawals carry the announced id, no spurious exhaustion (spec RibOut)."""
import importlib.util, os
import vf
_s = importlib.util.spec_from_file_location("ro", os.path.join(os.path.dirname(__file__), "ribout_common.py"))
ro = importlib.util.module_from_spec(_s); _s.loader.exec_module(ro)


def run(ctx):
    big = ctx.thorough()
    base = {"Names": {"e1", "e2", "e3"}, "Sessions": {"ebgpAP", "ibgpRRAP"}, "Pols": {"accept"}, "MaxDepth": 6 if not big else 7,
            "MaxPaths": 3}
    designs = [("design add-path", dict(base, MaxDepth=99), ro.PFX2)]
    # the same path on two prefixes shares one identifier; released twice; then a new path must still get an identifier
    # identifier sensitivity: every ordered pair of d0 and its single-attribute variants on one prefix
    dn = {"d0", "dSrc", "dId", "dLp", "dMed", "dAsp", "dComm", "dAggr", "dOtc", "dUnk", "dOid", "dOid2", "dCl", "dCl2"}
    runs = [("gen add-path sharing", base, ro.PFX2),
            ("gen identifier sensitivity", dict(base, Names=dn, MaxDepth=4, MaxPaths=2), ro.PFX1)]
    sims = [("sim", dict(base, Names={"e1", "e2", "e3", "i1", "i2", "st", "ot"}, Pols={"accept", "setmed", "prep"}, MaxPaths=4),
             ro.PFX2, 3000 if big else 400, 16)]
    ctx.rule = ("one witness per transition of the RibOut graph on add-path sessions (2 and 3 paths) over 2 prefixes x 3 paths, so that "
                "identifiers are shared across prefixes, released in every order and re-allocated (depth %d), plus seeded random "
                "histories of length 16; after every step: identifiers distinct and non-zero per prefix, what the client was told keyed "
                "by (prefix, identifier) equals the Adj-RIB-Out (a withdrawal with a wrong identifier leaves a stale entry), every "
                "expected path present (an 'out of path IDs' failure makes it missing); non-trivial = a removal followed by an addition"
                % base["MaxDepth"])

    def nt(b):
        acts = [s["a"] for s in b]
        return "RemovePath" in acts and acts.index("RemovePath") < len(acts) - 1
    behs = ro.ribout_runs(ctx, designs, runs, sims, ("v4o8", "v6o60") if not big else ("v4o0", "v4o28", "v6o30", "v6o124"), nt,
                          60000 if big else 5000)
    # the same histories on sessions whose identifier allocation counter starts 1..3 steps before it wraps (hook
    # AdjRIBOut.VerifSetLastPathID): allocation must keep working across the wrap while only a handful of identifiers is in use
    for off in ((1, 3) if not big else (0, 1, 2, 3, 5)):
        ctx.replay("ribout", behs, params={"emb": "v4o8", "idstart": 2**32 - 1 - off}, nontrivial=nt, per_timeout=8)
