"""C33 IS-IS survives any sequence of interface state changes (spec ISISIfa)."""
import vf

INV = ["ServerAlive", "RunningIffUp", "SenderIffActiveUp", "HandleIffSender", "AdjNeedsLink", "HelloAfterUp", "CanFormAdj"]
ALL = {"LinkUp", "LinkDown", "HelloTick", "FormAdj"}
LINK = {"LinkUp", "LinkDown"}


def _paths(ctx, ifs, acts, depth, label, link_phase=-1):
    # no VIEW: every history is its own state, so TLC walks ALL paths; only complete ones are printed
    # (their prefixes are replayed on the way, a divergence is reported at the first step that leaves the spec)
    r = ctx.tlc("ISISIfa", vf.cfg_text(constants={"Ifs": ifs, "Acts": acts, "Probe": link_phase >= 0, "LinkPhase": max(link_phase, 0), "MaxDepth": depth + 1}, invariants=INV,
                                       action_constraints=["ProbeShape", "EmitMax"]), workers=1, label=label, timeout=1800)
    if not r.ok:
        raise vf.Infra("ISISIfa violates its own invariants: %s" % r.violation)
    return r.behaviours


def run(ctx):
    big = ctx.thorough()
    ctx.design("ISISIfa", vf.cfg_text(constants={"Ifs": {"act", "pas", "act2"}, "Acts": ALL, "Probe": False, "LinkPhase": 0, "MaxDepth": 99}, invariants=INV,
                                      view="View"), label="design")
    behs = []
    # the quantifier of the property: all up/down sequences up to length 6 on an active and on a passive interface, each
    # followed by the observation (ProbeShape: hello interval, neighbour hellos, hello interval ...)
    n = 7 if big else 6
    for ifs in ({"act"}, {"pas"}):
        behs += _paths(ctx, ifs, ALL, n + 3, "updown<=%d %s + probe" % (n, "/".join(sorted(ifs))), link_phase=n)
    # one server with an active and a passive interface
    n2 = 5 if big else 4
    behs += _paths(ctx, {"act", "pas"}, ALL, n2 + 3, "updown<=%d act+pas + probe" % n2, link_phase=n2)
    # any interleaving of clock ticks and adjacencies with the link events (all paths)
    behs += _paths(ctx, {"act"}, ALL, 6 if big else 5, "all actions act")
    behs += _paths(ctx, {"pas"}, ALL, 6 if big else 4, "all actions pas")
    two = _paths(ctx, {"act", "pas"}, ALL, 4 if big else 3, "all actions act+pas")
    behs += two
    rs = ctx.simulate("ISISIfa", vf.cfg_text(next="NextSim", constants={"Ifs": {"act", "pas", "act2"}, "Acts": ALL, "Probe": False, "LinkPhase": 0, "MaxDepth": 13}),
                      num=1000 if big else 100, depth=13, label="sim 3 interfaces")
    behs += rs.behaviours
    ctx.exhaustive = True
    ctx.rule = ("all sequences of LinkUp / LinkDown of length 0..6 (thorough 7) on a server with one active and on a server with one "
                "passive interface, and of length 0..4 (thorough 5) on a server with an active and a passive interface, each followed by "
                "the observation: a hello interval passes, the neighbour's hellos arrive, a hello interval passes (alternating while a "
                "hello sender is alive); all paths of length 5 (thorough 6) over LinkUp, LinkDown, HelloTick, FormAdj on the "
                "single-interface servers and of length 3 (thorough 4) on the two-interface server; seeded random behaviours of "
                "length 12 with three interfaces. Every behaviour runs in its own process against isis/server.Server with the mock "
                "device events, mock ethernet factory and mock clock; after every step the server must answer (interface names, "
                "adjacencies), after HelloTick every active interface whose link is up must have put a P2P hello on the wire, after "
                "FormAdj the adjacency must be up, after LinkDown it must not be; a panic anywhere in the process (also in the "
                "server's goroutines) or a hang is a divergence. Non-trivial = at least one LinkUp followed later by a HelloTick or "
                "FormAdj")

    def nt(b):
        ups = [i for i, s in enumerate(b) if s["a"] == "LinkUp"]
        return bool(ups) and any(s["a"] in ("HelloTick", "FormAdj") for s in b[ups[0]:])
    ctx.replay("isisifa", behs, params={"inner_timeout": 40}, per_timeout=90, shards=min(vf.NCPU, 12), nontrivial=nt)
